"""Run arbitrary checks against one seeded change (scratch copy; nothing recorded):  cross.py seeded/C01-4B C12 C01 [--tier thorough]"""
import json
import os
import sys

sys.path.insert(0, "/verif")
from wsverif import selftest as S  # noqa

args = sys.argv[1:]
tier = "quick"
if "--tier" in args:
    i = args.index("--tier")
    tier = args[i + 1]
    del args[i:i + 2]
sid, props = args[0], args[1:]
d = os.path.join("/verif", sid)
meta = json.load(open(os.path.join(d, "meta.json")))
mut = {"id": sid, "prop": props or meta["property"], "patch": os.path.join(d, "patch.diff")}
rec = S.run_one(mut, tier, False)
for p, c in rec.get("checks", {}).items():
    print(sid, p, "exit", c["exit"], [k[:300] for k in c["kinds"][:2]], c.get("stderr_tail"))
