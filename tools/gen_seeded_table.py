"""Markdown table of the seeded changes and what catches them (from seeded/*/meta.json and evidence/selftest.json)."""
import glob
import json
import os

st = {m["id"]: m for m in json.load(open("/verif/evidence/selftest.json"))["mutants"]}
rows = []
for d in sorted(glob.glob("/verif/seeded/*/meta.json")):
    m = json.load(open(d))
    sid = os.path.basename(os.path.dirname(d))
    rec = st.get("seeded/" + sid)
    props = m["property"] if isinstance(m["property"], list) else [m["property"]]
    if m.get("neutralised"):
        caught = "neutralised by a later repository fix (see meta.json)"
    elif rec is None:
        caught = "?"
    else:
        parts = []
        for p, c in rec.get("checks", {}).items():
            if c["exit"] == 1:
                k = (c["kinds"][0].split(" detail=")[0].replace("kind=", "") if c["kinds"] else "violation")
                parts.append(f"{p}: {k}")
        caught = "; ".join(parts) or "MISSED"
    needs = (m.get("needs") or m.get("summary") or "").replace("\n", " ").replace("|", "/")
    rows.append(f"| {sid} | {', '.join(props)} | {needs[:170]}{'...' if len(needs) > 170 else ''} | {caught} |")
print("| seed | property | needs, to manifest | caught by (quick tier): first violation kind |")
print("|---|---|---|---|")
print("\n".join(rows))
