"""Verify sub-agent produced breaking changes and keep the confirmed ones.

For /tmp/seed-<ID>-out/{patch_X.diff, demo_X.py, meta.json} (X in A, B):
  1. demo passes on the clean scratch worktree /tmp/seed-<ID>
  2. patch applies; the repository's 38 tests pass with it
  3. demo fails with it
then copies to /verif/seeded/<ID>-<X>/ (patch.diff, demo.py, meta.json).
"""
import json
import os
import shutil
import subprocess
import sys

PY = "/venv/bin/python"


def sh(cmd, cwd=None, env=None, timeout=600):
    r = subprocess.run(cmd, cwd=cwd, env=env, capture_output=True, text=True, timeout=timeout)
    return r.returncode, (r.stdout + r.stderr)[-1500:]


def main(ids, prefix="seed", tag=""):
    for pid in ids:
        wt = f"/tmp/{prefix}-{pid}"
        out = f"/tmp/{prefix}-{pid}-out"
        if not os.path.exists(os.path.join(out, "meta.json")):
            print(pid, "no meta.json yet")
            continue
        try:
            meta = json.load(open(os.path.join(out, "meta.json")))
        except Exception as e:  # noqa
            print(pid, "bad meta.json", e)
            continue
        for X in ("A", "B"):
            patch = os.path.join(out, f"patch_{X}.diff")
            demo = os.path.join(out, f"demo_{X}.py")
            dest = f"/verif/seeded/{pid}-{tag}{X}"
            if os.path.exists(dest) or not (os.path.exists(patch) and os.path.exists(demo)):
                continue
            sh(["git", "checkout", "--", "."], cwd=wt)
            env = dict(os.environ, PYTHONPATH=wt, PYTHONDONTWRITEBYTECODE="1")
            rec = {"property": pid, "variant": X, "summary": meta.get(X, {}).get("summary"), "needs": meta.get(X, {}).get("needs"),
                   "files": meta.get(X, {}).get("files"), "ran": {}}
            rc, o = sh([PY, demo], cwd="/tmp", env=env, timeout=300)
            rec["ran"]["demo_on_clean_tree"] = {"exit": rc}
            ok = rc == 0
            rc, o = sh(["git", "apply", patch], cwd=wt)
            rec["ran"]["git_apply"] = {"exit": rc}
            ok = ok and rc == 0
            if rc == 0:
                rc, o = sh([PY, "-m", "pytest", "-q", "-p", "no:cacheprovider", "--timeout=900", "websocket/tests"], cwd=wt, env=env)
                rec["ran"]["repo_tests_with_patch"] = {"exit": rc, "tail": o.strip().splitlines()[-1:]}
                ok = ok and rc == 0 and "38 passed" in o
                rc, o = sh([PY, demo], cwd="/tmp", env=env, timeout=300)
                rec["ran"]["demo_with_patch"] = {"exit": rc, "tail": o.strip().splitlines()[-3:]}
                ok = ok and rc != 0
            sh(["git", "checkout", "--", "."], cwd=wt)
            rec["confirmed"] = ok
            print(pid, X, "CONFIRMED" if ok else "REJECTED", json.dumps(rec["ran"])[:300])
            if ok:
                os.makedirs(dest, exist_ok=True)
                shutil.copy(patch, os.path.join(dest, "patch.diff"))
                shutil.copy(demo, os.path.join(dest, "demo.py"))
                rec["how_to_run"] = f"git -C /repo apply /verif/seeded/{pid}-{tag}{X}/patch.diff; run /verif checks; git -C /repo checkout -- .   (demo.py expects a worktree at /tmp/{prefix}-{pid})"
                json.dump(rec, open(os.path.join(dest, "meta.json"), "w"), indent=1)


if __name__ == "__main__":
    args = sys.argv[1:]
    prefix, tag = "seed", ""
    if args and args[0] == "--round2":
        prefix, tag = "seed2", "2"
        args = args[1:]
    if args and args[0] == "--round3":
        prefix, tag = "seed3", "3"
        args = args[1:]
    if args and args[0].startswith("--round") and args[0][7:].isdigit():
        prefix, tag = "seed" + args[0][7:], args[0][7:]
        args = args[1:]
    main(args or [f"C{i:02d}" for i in range(1, 21)], prefix, tag)
