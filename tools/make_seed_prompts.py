"""Write the instructions for one round of independent sub-agents (tools/ingest_seeded.py confirms what they deliver).

Each sub-agent gets only: the text of one property, hints on where the relevant code lives, one-line summaries of what earlier
rounds produced for that property (so that it does something different), and its own scratch git worktree.  Nothing from /verif.

usage: make_seed_prompts.py <round> [ids...]   -> /tmp/seed<round>-prompts.json ; worktrees /tmp/seed<round>-<ID> must exist
"""
import glob
import json
import sys

HINTS = {
    "C01": "Relevant code: websocket/_abnf.py (ABNF.create_frame, format, mask, _get_masked), websocket/_core.py (send, send_frame, send_binary, ping, pong, close, send_close, get_mask_key), websocket/_socket.py (send).",
    "C02": "Relevant code: websocket/_abnf.py (frame_buffer: recv_header, recv_length, recv_mask, recv_frame, recv_strict; ABNF.mask), websocket/_core.py (recv_frame, recv_data_frame), websocket/_socket.py (recv).",
    "C03": "Relevant code: websocket/_abnf.py (frame_buffer state across calls, recv_strict), websocket/_socket.py (recv incl. its EAGAIN/select branch, recv_line), websocket/_http.py (read_headers), websocket/_core.py (_recv, recv_data_frame).",
    "C04": "Relevant code: websocket/_abnf.py (continuous_frame: validate, add, is_fire, extract), websocket/_core.py (recv, recv_data, recv_data_frame, __iter__, __next__), websocket/_app.py (read()).",
    "C05": "Relevant code: websocket/_abnf.py (ABNF.validate, VALID_CLOSE_STATUS, continuous_frame.validate/add/extract) and websocket/_core.py (recv_data_frame).",
    "C06": "Relevant code: websocket/_utils.py (validate_utf8, _validate_utf8, _decode, wsaccel fallback), websocket/_abnf.py (ABNF.validate close reason, continuous_frame.extract), websocket/_core.py (recv, recv_data_frame), websocket/_app.py.",
    "C07": "Relevant code: websocket/_core.py (recv_data_frame ping branch, pong, send_frame), websocket/_abnf.py, websocket/_app.py (read()).",
    "C08": "Relevant code: websocket/_core.py (close, send_close, shutdown, _recv, _send, connected flag, reply to close frames, connect on a reused object) and websocket/_socket.py.",
    "C09": "Relevant code: websocket/_core.py (connect, redirect loop, error cleanup), websocket/_handshake.py (handshake, _get_resp_headers, _validate), websocket/_http.py (read_headers, connect, _open_socket).",
    "C10": "Relevant code: websocket/_handshake.py (handshake, _get_handshake_headers, _pack_hostname, _create_sec_websocket_key), websocket/_url.py (parse_url), websocket/_core.py (connect), websocket/_app.py (run_forever: setSock).",
    "C11": "Relevant code: websocket/_http.py (_ssl_socket, _wrap_sni_socket, connect, _tunnel), websocket/_core.py (connect, sock_opt), websocket/_app.py (run_forever sslopt), websocket/_url.py (parse_url is_secure).",
    "C12": "Relevant code: websocket/_core.py (send_frame and self.lock, recv and self.readlock, _send), websocket/_abnf.py (frame_buffer.lock, recv_strict, continuous_frame), websocket/_socket.py (send).",
    "C13": "Relevant code: websocket/_app.py (read(), _callback, setSock), websocket/_dispatcher.py (Dispatcher, SSLDispatcher), websocket/_core.py, websocket/_abnf.py.",
    "C14": "Relevant code: websocket/_app.py (run_forever: teardown, setSock, read, check, closed, handleDisconnect, close, _stop_ping_thread, _get_close_args), websocket/_dispatcher.py, websocket/_core.py (close, shutdown).",
    "C15": "Relevant code: websocket/_app.py (run_forever(reconnect=N): handleDisconnect, setSock(reconnecting), closed, teardown) and websocket/_dispatcher.py (reconnect, WrappedDispatcher).",
    "C16": "Relevant code: websocket/_app.py (_send_ping, _start_ping_thread, _stop_ping_thread, check(), argument validation) and websocket/_dispatcher.py (select timeouts).",
    "C17": "Relevant code: websocket/_http.py (read_headers, _tunnel), websocket/_handshake.py, websocket/_abnf.py, websocket/_core.py (connect, recv, close), websocket/_socket.py, websocket/_cookiejar.py, websocket/_app.py (_get_close_args).",
    "C18": "Relevant code: websocket/_url.py (parse_url), websocket/_http.py (connect, _get_addrinfo_list, _open_socket, proxy_info), websocket/_socket.py (DEFAULT_SOCKET_OPTION, sock_opt, setdefaulttimeout), websocket/_core.py (connect, create_connection).",
    "C19": "Relevant code: websocket/_url.py (get_proxy_info, _is_no_proxy_host, _is_ip_address, _is_subnet_address, _is_address_in_network), websocket/_http.py (proxy_info, connect, _get_addrinfo_list, _tunnel, _start_proxied_socket), websocket/_app.py (run_forever proxy arguments).",
    "C20": "Relevant code: websocket/_cookiejar.py (SimpleCookieJar.add, set, get), websocket/_handshake.py (_get_handshake_headers, _get_resp_headers, CookieJar), websocket/_http.py (read_headers joins Set-Cookie).",
}

T = '''You are helping test a verification harness by producing realistic, VERY HARD-TO-FIND bugs. Work ONLY inside /tmp/seed@R@-@ID@ (a scratch git worktree of the pure-Python library `websocket-client`, package directory `websocket/`) and write results to /tmp/seed@R@-@ID@-out/. Do NOT read, list or modify anything under /verif or /repo.

The property:
@PROP@

@HINT@

Your job: produce TWO different, independent source changes (A and B) to the library code under /tmp/seed@R@-@ID@/websocket/ (not the tests) such that each change BREAKS the property above, while the library still imports and the existing test-suite passes unchanged:
    cd /tmp/seed@R@-@ID@ && /venv/bin/python -m pytest -q -p no:cacheprovider websocket/tests      (must report 38 passed)

Earlier rounds already produced the ideas listed below for this property, and a test harness now catches all of them. Do NOT repeat them or close variants (in particular: "only with trace logging on", "class-level cache", "second use of the same object", "exact size 65535/65536/125/126", "only over TLS / only through the dispatcher object / only with enable_multithread=False", "one-shot iterator as argument" and "setdefaulttimeout in force" have been done more than once - find different mechanisms). Done in the latest round as well: subclass passed as class_, key source after reconnect, failing automatic pong, bare-LF responses, payloads trickled in >16384 reads, non-minimal zero lengths, callbacks that are partials/instances and raise library exception types, extra response headers (extensions), state after a rejected frame, options after redirects, 64 KiB validator slices, the wsaccel branch, unsolicited pongs, leftover bytes after close, SO_LINGER, casefold look-alikes, negative limits, duplicate header lines, cert_reqs=None, aged connections (4095 frames), fragmenting senders, fd 0, bytearray-returning transports, failing header callables, peers that ping but never pong, thousands of interim responses, timeout=0 to connect(), '+' in env credentials, shared empty no_proxy list, Domain attribute spellings, commas in cookie values. Done in the round before this one, too: close statuses 1005/1006/1015, all-zero mask keys, warnings turned into errors, buffers shared between two connections of one process, SO_RCVTIMEO, proxy timeouts left on the socket, per-thread (threading.local) state, `is True` on options given as 1, validation flags flipped temporarily and not restored, locks not released after a failed send, str mask keys with empty payloads, state kept after a rejected frame followed by close(), drain loops with per-read timeouts, a second status line inside the header block, str.splitlines() separators (VT, FF, U+2028 ...), requests beyond 16 KiB with non-ASCII text, tabs in header values, cipher strings for legacy TLS versions, AI_CANONNAME, iteration (`for msg in ws`) next to recv(), exception __str__ decoding a response body, on_open reading from the socket itself, bytearray/memoryview ping payloads, slow on_open, charset parameters of error bodies, unregistered status codes without reason phrase, a second '://' inside the URL, four-argument setsockopt entries, credentials with trailing blanks, CIDR entries sharing a network address, Domain attribute on the first of two Set-Cookie lines, empty cookie values, SOCKS proxies ignoring no_proxy. Also done already: callbacks assigned after construction or from inside on_open, process-wide settings (setReconnect, setdefaulttimeout, enableTrace, environment variables incl. unrelated ones), threads invisible to the threading module, frames that merely declare a huge length, write failures followed by a reconnect of the same object, send_close() in the middle of a server message, lenient base64 / folded header lines, empty-string header values, non-dotted IPv4 spellings, socket options colliding by number. The harness is known to drive: all frame sizes up to 16 MiB, every segmentation incl. non-blocking sockets and TLS records, timeouts and write failures at every byte, 300 MiB of cumulative traffic, reconnects after losses at any point, slow transports, line-level thread preemption, many descriptors, odd Unicode (BOM, non-characters, non-ASCII digits), IPv6 literals, proxies with redirects. Think about what such a harness probably does NOT exercise: rarely used options and option combinations nobody lists together, state carried between connections or between messages or between two differently configured objects in one process, error/cleanup paths after a *previous* failure, behaviour that depends on values around internal constants, behaviour that depends on the *type* of an argument (bytes vs bytearray vs memoryview vs str subclass, int vs float vs bool, list vs tuple vs generator, dict ordering), on the locale/encoding of text, on header or option *spelling* (case, whitespace, repeated entries, empty strings vs None), ordering between two threads at a single specific point, behaviour only on the TLS or proxy (http, socks) or external-dispatcher path, process-wide state (module globals, class attributes, environment variables read at a different moment), exceptions raised from inside callbacks or key sources, off-by-one at the boundary between two internal reads, numeric edge cases (0, negative, very large, float timeouts), and interactions between two features that are individually fine.
@PREV@

Requirements for each change:
- Realistic: something a developer could plausibly introduce while refactoring, optimising or "hardening" the code. Small (a few lines). It must really violate the property as stated (not merely change unspecified behaviour), but only under a rare, legal combination of circumstances.
- Provide a demonstration script that FAILS (non-zero exit) with the change applied and PASSES (exit 0) on the unchanged tree, run as:  cd /tmp && PYTHONPATH=/tmp/seed@R@-@ID@ /venv/bin/python /tmp/seed@R@-@ID@-out/demo_A.py   (assert inside that `websocket.__file__` is under /tmp/seed@R@-@ID@). Demos may call library functions directly, pass a fake socket via `WebSocket().connect(url, socket=fake)` / `create_connection(url, socket=fake)` (a fake needs recv/send/gettimeout/settimeout/close; the handshake response must carry Sec-WebSocket-Accept = base64(sha1(key + "258EAFA5-E914-47DA-95CA-C5AB0DC85B11")) for the key sent), use socket.socketpair(), or run tiny servers on loopback in threads (TLS possible with certificates minted by the `openssl` CLI). No network beyond loopback. Bounded timeouts so a demo cannot hang; timing margins that are not flaky (run each demo 3 times in each state).
- Verify yourself: demo passes on the clean worktree, fails with the patch, the 38 tests pass with the patch.

Deliverables in /tmp/seed@R@-@ID@-out/: patch_A.diff, patch_B.diff (`git diff` of each change alone, applicable with `git apply` at the worktree root), demo_A.py, demo_B.py, meta.json = {"A": {"summary": ..., "needs": "what is required for it to manifest", "files": [...]}, "B": {...}}. Leave the worktree clean (git checkout -- .). In your final message summarise the two changes (5 lines each) and the commands you ran with results.'''


def main():
    rnd = sys.argv[1]
    ids = sys.argv[2:] or sorted(HINTS)
    props = {}
    for line in open("/verif/properties.jsonl"):
        p = json.loads(line)
        props[p["id"]] = p
    prev = {}
    for d in sorted(glob.glob("/verif/seeded/*/meta.json")):
        m = json.load(open(d))
        pid = m["property"][0] if isinstance(m["property"], list) else m["property"]
        prev.setdefault(pid, []).append((m.get("summary") or "")[:240])
    out = {}
    for k in ids:
        p = props[k]
        prop = f"{p['id']}: {p['title']}\nStatement: {p['statement']}\nQuantified over: {p['quantifier']['text']}"
        pv = "\n".join(f"  - {x}" for x in prev.get(k, [])) or "  (none)"
        out[k] = T.replace("@R@", rnd).replace("@ID@", k).replace("@PROP@", prop).replace("@HINT@", HINTS[k]).replace("@PREV@", pv)
    json.dump(out, open(f"/tmp/seed{rnd}-prompts.json", "w"))
    print(len(out), "prompts ->", f"/tmp/seed{rnd}-prompts.json")


if __name__ == "__main__":
    main()
