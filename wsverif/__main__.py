"""CLI:  python -m wsverif check C07 --tier quick
         python -m wsverif shard C07 --tier quick --seed 0 --shard 0 --nshards 1 --out f.json
         python -m wsverif replay <path>
"""
import argparse
import json
import os
import sys


def main(argv=None):
    ap = argparse.ArgumentParser(prog="wsverif")
    sub = ap.add_subparsers(dest="cmd", required=True)
    c = sub.add_parser("check")
    c.add_argument("prop")
    c.add_argument("--tier", default=os.environ.get("VERIF_TIER", "quick"), choices=["quick", "thorough"])
    c.add_argument("--seed", type=int, default=int(os.environ.get("VERIF_SEED", "0") or 0))
    c.add_argument("--jobs", type=int, default=None)
    s = sub.add_parser("shard")
    s.add_argument("prop")
    s.add_argument("--tier", default="quick")
    s.add_argument("--seed", type=int, default=0)
    s.add_argument("--shard", type=int, default=0)
    s.add_argument("--nshards", type=int, default=1)
    s.add_argument("--out", required=True)
    r = sub.add_parser("replay")
    r.add_argument("path")
    a = ap.parse_args(argv)

    from . import core

    if a.cmd == "check":
        return core.run_check(a.prop.upper(), a.tier, a.seed, a.jobs)
    if a.cmd == "shard":
        d = core.run_shard(a.prop.upper(), a.tier, a.seed, a.shard, a.nshards)
        tmp = a.out + ".tmp"
        with open(tmp, "w") as f:
            json.dump(d, f, default=str)
        os.replace(tmp, a.out)
        return 0
    if a.cmd == "replay":
        return core.replay(a.path)


if __name__ == "__main__":
    sys.exit(main())
