"""WebSocketApp scenarios on the simulated network (C13-C16).

A *plan* is a list of connection plans, one per connection attempt in order:
   {"outcome": "refused" | "unreachable" | "reject" | "ok", ...}
for "ok":  "script": list of (dt, action, *args) relative to the moment the
handshake response is sent:
   (dt, "frames", bytes[, cuts])   deliver bytes (segmentation by cuts)
   (dt, "segments", [bytes...])    deliver several segments at once
   (dt, "eof") / (dt, "reset")
   (dt, "close", body)             server close frame
"pong": None (never) | latency float | callable(k, t)->latency or None
"answer_close": bool  (reply to a client close frame with a close frame + EOF)
"""
from __future__ import annotations

from . import harness as H
from .ref import rfc6455 as R
from .sim import net, sched, shim


class ServerConn:
    """Server side of one established connection."""

    def __init__(self, run, conn, index, plan):
        self.run = run
        self.conn = conn
        self.index = index
        self.plan = plan
        self.opened_at = None
        self.buf = bytearray()
        self.client_frames = []  # (time, Frame)
        self.pings = []  # (time, payload)
        self.frame_log = []  # server frames: (arrival_time_of_last_byte, opcode, payload, fin)
        self.stream = bytearray()  # bytes sent after the response
        self.hs = H.HandshakePeer(conn, on_open=self._opened, on_bytes=self._bytes,
                                  response=plan.get("response"), extra_headers=plan.get("extra_headers", ()))
        self.closed_by_server_at = None
        self.lost_at = None  # time of eof/reset
        self.close_frame_at = None

    def _opened(self, conn):
        S = sched.CURRENT
        self.opened_at = S.now
        if self.plan.get("send_delay"):
            # from now on every write of the client takes this long (a congested path)
            conn.send_delay = self.plan["send_delay"]
        for item in self.plan.get("script", ()):
            dt, action, *args = item
            S.at(S.now + dt, self._do, action, args)

    def _do(self, action, args):
        S = sched.CURRENT
        c = self.conn
        if c.client_closed:
            return
        if action == "frames":
            data = args[0]
            cuts = args[1] if len(args) > 1 else None
            self._note_frames(data)
            c.deliver(data, cuts=cuts)
        elif action == "segments":
            for seg in args[0]:
                self._note_frames(seg)
                c.deliver(seg)
        elif action == "eof":
            c.peer_close()
            self.lost_at = S.now
        elif action == "reset":
            c.peer_reset()
            self.lost_at = S.now
        elif action == "error":
            c.peer_error(args[0])
            c.peer_close()
            self.lost_at = S.now
        elif action == "close":
            data = R.encode(R.CLOSE, args[0])
            self._note_frames(data)
            c.deliver(data)
            self.close_frame_at = S.now
            if len(args) > 1 and args[1]:
                c.peer_close()
        else:
            raise AssertionError(action)

    def _note_frames(self, data):
        """arrival time bookkeeping: a frame 'arrives' when its last byte is delivered"""
        S = sched.CURRENT
        self.stream += data
        frames, pos = R.decode_all(bytes(self.stream))
        known = len(self.frame_log)
        for f in frames[known:]:
            self.frame_log.append((S.now, f.opcode, f.payload, f.fin))

    def _bytes(self, conn, data):
        S = sched.CURRENT
        self.buf += data
        frames, pos = R.decode_all(bytes(self.buf))
        del self.buf[:pos]
        for f in frames:
            self.client_frames.append((S.now, f))
            if f.opcode == R.PING:
                k = len(self.pings)
                self.pings.append((S.now, f.payload))
                pol = self.plan.get("pong")
                lat = pol(k, S.now) if callable(pol) else pol
                if lat is not None:
                    S.at(S.now + lat, self._pong, f.payload)
            elif f.opcode == R.CLOSE and self.plan.get("answer_close", True):
                if not conn.client_closed:
                    conn.deliver(R.encode(R.CLOSE, f.payload[:2]))
                    conn.peer_close()

    def _pong(self, payload):
        if not self.conn.client_closed and self.lost_at is None:
            data = R.encode(R.PONG, payload)
            self._note_frames(data)
            self.conn.deliver(data)


class AppRun:
    CALLBACKS = ["on_open", "on_reconnect", "on_message", "on_data", "on_error", "on_close", "on_ping", "on_pong", "on_cont_message"]

    def __init__(self, plan, url="ws://app.test/", callbacks=None, raising=None, app_kwargs=None, hooks=None, last_repeats=True, via_proxy=False,
                 assign="ctor", callable_kind="function"):
        # assign: how the application installs its callbacks - "ctor" (constructor arguments), "after-init" (attributes set on the
        # object before run_forever) or "in-on_open" (all but on_open/on_cont_message set from inside on_open, while running)
        self.assign = assign
        # callable_kind: what sort of callable the application registers - a plain function, a functools.partial, an instance with
        # __call__, a bound method (the last three have no __name__ / a different repr)
        self.callable_kind = callable_kind
        # ambient conditions for application-level runs (see harness.ambient): TLS transport instead of plain, another way of
        # installing the callbacks, trace logging - none of which changes what the application is told
        self.ambient = None
        if H.AMB.on and "app" in H.AMB.dims:
            r = H.AMB.rng
            self.ambient = {"tls": url.startswith("ws://") and r.random() < 0.3, "assign": r.choice(["ctor", "ctor", "after-init", "in-on_open"]) if assign == "ctor" else assign,
                            "trace": r.random() < 0.15,
                            # descriptor numbers: ordinary, 0 (a daemon that closed its standard streams), above 1024; a transport whose
                            # recv() returns bytearray
                            "fd_base": r.choice([10, 10, 10, 0, 1100]), "bytearray_recv": r.random() < 0.12,
                            # the application asks the kernel for a receive timeout of its own (sockopt SO_RCVTIMEO): pauses inside a
                            # frame then surface as EAGAIN on a blocking socket
                            "rcvtimeo": r.random() < 0.15}
            first_ok = bool(plan) and plan[0].get("outcome") == "ok" and plan[0].get("tls_error") is None and plan[0].get("response") is None
            if self.ambient["assign"] == "in-on_open" and ((raising and "on_open" in raising) or not first_ok):
                # callbacks installed from on_open exist only once a connection has been opened
                self.ambient["assign"] = "after-init"
            if self.ambient["tls"]:
                url = "wss://" + url[len("ws://"):]
            self.assign = self.ambient["assign"]
            H.AMB.last = dict(self.ambient)
            for k, v in self.ambient.items():
                key = "app:" + (k if isinstance(v, bool) else f"{k}={v}")
                if v:
                    H.AMB.counts[key] = H.AMB.counts.get(key, 0) + 1
            H.AMB.counts["app:runs"] = H.AMB.counts.get("app:runs", 0) + 1
        self.plan = plan
        self.url = url
        self.enabled = set(self.CALLBACKS[:8] if callbacks is None else callbacks)
        self.raising = raising or {}  # name -> exception factory or (n-th call, factory)
        self.hooks = hooks or {}  # name -> fn(run, app, *args) executed inside the callback
        self.trace = []  # (time, name, args, conn_index, actor)
        self.servers = []
        self.attempts = []  # (time, outcome)
        self.app = None
        self.app_kwargs = app_kwargs or {}
        self.last_repeats = last_repeats
        self.network = net.SimNetwork()
        self.network.default_ips = ["192.0.2.10"]
        self.network.default_outcome = self._outcome
        self.call_counts = {}
        self.via_proxy = via_proxy
        self.connect_requests = []
        self.ret = "not-returned"
        self.exc = None

    # ---- network side ----
    def _outcome(self, key):
        S = sched.CURRENT
        i = len(self.attempts)
        if i < len(self.plan):
            p = self.plan[i]
        elif self.last_repeats and self.plan:
            p = self.plan[-1]
        else:
            p = {"outcome": "refused"}
        self.attempts.append((S.now, p["outcome"], len(self.network.open_client_conns()), self.live_ping_actors()))
        if p["outcome"] == "refused":
            return ("refused",)
        if p["outcome"] == "unreachable":
            return ("unreachable",)
        if p["outcome"] == "timeout":
            return ("timeout",)
        if p["outcome"] == "error":
            return ("error", p["exc"]() if callable(p["exc"]) else p["exc"])

        def accept(conn, p=p, i=i):
            if p.get("tls_error") is not None:
                # the TCP connection is accepted, the TLS handshake on it fails (bad certificate, protocol error, ...)
                conn.tls_error = p["tls_error"]() if callable(p["tls_error"]) else p["tls_error"]
                return
            if self.via_proxy:
                # the dialled address is the proxy: answer CONNECT, then the tunnelled connection follows the plan
                buf = bytearray()

                def data(c, d, p=p, i=i):
                    buf.extend(d)
                    j = buf.find(b"\r\n\r\n")
                    if j < 0:
                        return
                    self.connect_requests.append(bytes(buf[:j]).split(b"\r\n")[0].decode())
                    rest = bytes(buf[j + 4:])
                    c.deliver(b"HTTP/1.1 200 Connection established\r\n\r\n")
                    plan2 = dict(p)
                    srv = ServerConn(self, c, i, plan2)
                    self.servers.append(srv)
                    if rest:
                        srv.hs._data(c, rest)
                conn.on_client_data = data
                return
            plan = dict(p)
            if p["outcome"] == "reject":
                st = p.get("status", 403)
                plan["response"] = lambda req: f"HTTP/1.1 {st} Nope\r\nContent-Length: 0\r\n\r\n".encode()
            self.servers.append(ServerConn(self, conn, i, plan))
        return ("accept", accept)

    def live_ping_actors(self):
        S = sched.CURRENT
        return [a.name for a in S.actors if getattr(a, "is_lib_thread", False) and a.state != sched.DONE] if S else []

    # ---- app side ----
    def _cb(self, name):
        def cb(app, *args):
            S = sched.CURRENT
            a = sched.current_actor()
            n = self.call_counts.get(name, 0)
            self.call_counts[name] = n + 1
            self.trace.append((round(S.now, 9), name, tuple(args), len(self.servers) - 1, a.name if a else None))
            h = self.hooks.get(name)
            if h is not None:
                h(self, app, *args)
            r = self.raising.get(name)
            if r is not None:
                if isinstance(r, tuple):
                    if n == r[0]:
                        raise r[1]()
                else:
                    raise r()
        return cb

    def _wrap_callable(self, fn):
        kind = self.callable_kind
        if kind == "partial":
            import functools
            return functools.partial(fn)
        if kind == "instance":
            class Handler:
                def __call__(self_, *a):
                    return fn(*a)
            return Handler()
        if kind == "bound-method":
            class Owner:
                def handle(self_, *a):
                    return fn(*a)
            return Owner().handle
        return fn

    def build(self):
        W = H.ws()
        shim.set_network(self.network)
        if self.ambient is not None:
            import logging
            W.enableTrace(bool(self.ambient["trace"]), handler=logging.NullHandler())
            net.SimSocket.fd_base = self.ambient["fd_base"]
            net.SimSocket.recv_type = bytearray if self.ambient["bytearray_recv"] else bytes
        cbs = {n: self._wrap_callable(self._cb(n)) for n in self.enabled}
        if self.assign == "ctor":
            kw = dict(cbs)
            kw.update(self.app_kwargs)
            self.app = W.WebSocketApp(self.url, **kw)
        elif self.assign == "after-init":
            self.app = W.WebSocketApp(self.url, **self.app_kwargs)
            for n, cb in cbs.items():
                setattr(self.app, n, cb)
        else:
            early = {n: cb for n, cb in cbs.items() if n in ("on_open", "on_cont_message", "on_reconnect")}
            late = {n: cb for n, cb in cbs.items() if n not in early}
            user_open = early.get("on_open")

            def on_open(app, *a):
                for n, cb in late.items():
                    setattr(app, n, cb)
                if user_open is not None:
                    user_open(app, *a)
            early["on_open"] = on_open
            kw = dict(early)
            kw.update(self.app_kwargs)
            self.app = W.WebSocketApp(self.url, **kw)
        return self.app

    def run_forever(self, **kw):
        """call inside an actor"""
        if self.app is None:
            self.build()
        S = sched.CURRENT
        self.started_at = S.now
        if self.ambient is not None and self.ambient.get("rcvtimeo") and "sockopt" not in kw:
            import socket as _so
            import struct as _st
            kw = dict(kw, sockopt=((_so.SOL_SOCKET, _so.SO_RCVTIMEO, _st.pack("ll", 0, 200000)),))
        try:
            self.ret = self.app.run_forever(**kw)
        except sched.SimAbort:
            raise
        except BaseException as e:  # noqa
            self.exc = e
            self.ret = "raised"
        self.returned_at = S.now
        self.live_at_return = self.live_ping_actors()
        self.open_at_return = len(self.open_transports())
        return self.ret

    # ---- observations ----
    def open_transports(self):
        return [c for c in self.network.conns if not c.client_closed]


class SimRel:
    """Minimal `rel`-compatible external dispatcher running on the simulated
    scheduler.  read()/timeout() callbacks follow rel's contract: a reader
    returning a falsy value is unregistered, a timeout returning truthy is
    rescheduled."""

    def __init__(self):
        self.readers = {}  # sock -> callback
        self.timers = []  # [due, seq, delay, cb, args]
        self.seq = 0
        self.aborted = False
        self.signals = {}
        self.writes = 0
        self.dispatch_returned_at = None

    def read(self, sock, callback):
        self.readers[sock] = callback

    def timeout(self, delay, callback, *args):
        S = sched.CURRENT
        self.seq += 1
        self.timers.append([S.now + delay, self.seq, delay, callback, args])

    def buffwrite(self, sock, data, send_fn, on_disconnect):
        self.writes += 1
        try:
            while data:
                n = send_fn(sock, data)
                data = data[n:]
        except Exception as e:  # noqa
            on_disconnect(e)

    def signal(self, signum, handler):
        self.signals[signum] = handler

    def abort(self):
        self.aborted = True

    def _readable(self):
        out = []
        for so in list(self.readers):
            if getattr(so, "_closed", False):
                continue
            c = so.conn
            if c is not None and (c.rx or c.client_shutdown or (hasattr(so, "pending") and so.pending())):
                out.append(so)
        return out

    def dispatch(self, horizon=None):
        S = sched.CURRENT
        while not self.aborted:
            # drop readers on closed sockets (rel would get EBADF/unregister)
            for so in list(self.readers):
                if getattr(so, "_closed", False):
                    del self.readers[so]
            if not self.readers and not self.timers:
                break
            if horizon is not None and S.now > horizon:
                break
            due = min((t[0] for t in self.timers), default=None)
            wait = None if due is None else max(0.0, due - S.now)
            S.block(lambda: bool(self._readable()), wait, why="rel.dispatch")
            for so in self._readable():
                cb = self.readers.get(so)
                if cb is None:
                    continue
                if not cb():
                    self.readers.pop(so, None)
            now = S.now
            for t in sorted([t for t in self.timers if t[0] <= now]):
                self.timers.remove(t)
                if t[3](*t[4]):
                    self.timeout(t[2], t[3], *t[4])
        self.dispatch_returned_at = S.now
