"""C19, SOCKS part: run by one dedicated shard of C19 with wsverif/standins_socks (a stand-in for the optional python_socks package)
on the import path, so that the library's SOCKS branch is executed at all.

Judged (all of it independent of python_socks' internals): whether the proxy is used at all - exactly when the target is not exempt -,
what the library hands to the SOCKS client (proxy type and remote-DNS flag per proxy_type, proxy address, credentials, destination host
and port), that TLS is run through the tunnel for wss with the origin's name, and that the upgrade request reaches the origin."""
from __future__ import annotations

import os

from .. import harness as H
from ..ref import http as RH

TYPES = {"socks4": ("SOCKS4", 0), "socks4a": ("SOCKS4", 1), "socks5": ("SOCKS5", 0), "socks5h": ("SOCKS5", 1)}


class SocksPeer:
    """The simulated SOCKS proxy: consumes the stand-in's one-line negotiation, answers it, then lets a HandshakePeer serve the rest."""

    def __init__(self, conn, reply=b"OK\n"):
        self.conn = conn
        self.buf = bytearray()
        self.line = None
        self.inner = None
        self.reply = reply
        conn.on_client_data = self._data

    def _data(self, conn, data):
        self.buf += data
        i = self.buf.find(b"\n")
        if i < 0:
            return
        self.line = bytes(self.buf[:i]).decode("utf-8")
        rest = bytes(self.buf[i + 1:])
        conn.deliver(self.reply)
        if self.reply == b"OK\n":
            self.inner = H.HandshakePeer(conn)
            if rest:
                conn.on_client_data(conn, rest)


def socks_cases(res, W, rng, tier):
    import python_socks  # the stand-in
    if not W._http.HAVE_PYTHON_SOCKS or not hasattr(python_socks, "CALLS"):
        res.inconc("the python_socks stand-in was not picked up by the library")
        return
    res.notes["socks_branch"] = "shard run with wsverif/standins_socks on the import path (stand-in for python_socks: calling convention only)"
    targets = [("origin.test", None), ("origin.test", 8080), ("a.b.origin.test", 9001), ("10.1.2.3", 8080)]
    exemptions = ["none", "option-host", "option-star", "option-domain", "option-cidr", "env-host", "env-star", "option-other"]
    creds = [None, ("user", "pass"), ("üser", "pässwörd")]
    for ptype, (tname, rdns) in TYPES.items():
        for secure in (False, True):
            for ti, (host, port) in enumerate(targets):
                for exemption in exemptions:
                    for ci, cred in enumerate(creds):
                        if tier == "quick" and (ti + ci + len(exemption) + secure) % 3:
                            continue
                        one(res, W, python_socks, ptype, tname, rdns, secure, host, port, exemption, cred)
    # a proxy that refuses / is not there: the library's proxy error or the stand-in's own error class comes back, nothing is dialled directly
    for ptype in TYPES:
        for how in ("refuses", "unreachable"):
            failing(res, W, python_socks, ptype, how)


def _setup(reply=b"OK\n", proxy_outcome="accept"):
    H.reset_process_state()
    H.scrub_env()
    direct, proxied = [], []
    net_ = H.make_net(lambda c: (direct.append(c), H.HandshakePeer(c)))
    net_.add_host("socks.test", ["203.0.113.44"])
    if proxy_outcome == "accept":
        net_.listen("203.0.113.44", 1080, ("accept", lambda c: proxied.append(SocksPeer(c, reply))))
    else:
        net_.listen("203.0.113.44", 1080, (proxy_outcome,))
    return net_, direct, proxied


def one(res, W, python_socks, ptype, tname, rdns, secure, host, port, exemption, cred):
    net_, direct, proxied = _setup()
    del python_socks.CALLS[:]
    url = f"{'wss' if secure else 'ws'}://{host}" + (f":{port}" if port else "") + "/feed?x=1"
    eff_port = port or (443 if secure else 80)
    opts = dict(http_proxy_host="socks.test", http_proxy_port=1080, proxy_type=ptype)
    if cred:
        opts["http_proxy_auth"] = cred
    is_ip = host[0].isdigit()
    exempt = False
    if exemption == "option-host":
        opts["http_no_proxy"] = ["other.test", host]
        exempt = True
    elif exemption == "option-star":
        opts["http_no_proxy"] = ["*"]
        exempt = True
    elif exemption == "option-domain":
        opts["http_no_proxy"] = [".origin.test"]
        exempt = not is_ip
    elif exemption == "option-cidr":
        opts["http_no_proxy"] = ["10.0.0.0/8"]
        exempt = is_ip
    elif exemption == "env-host":
        os.environ["no_proxy"] = f"other.test,{host}"
        exempt = True
    elif exemption == "env-star":
        os.environ["no_proxy"] = "*"
        exempt = True
    elif exemption == "option-other":
        opts["http_no_proxy"] = ["other.test", ".elsewhere.test", "192.168.0.0/16"]
    if secure:
        opts["sslopt"] = {"cert_reqs": 0, "check_hostname": False}
    case = {"gen": "socks", "proxy_type": ptype, "url": url, "exemption": exemption, "credentials": cred}
    res.case(("socks", ptype, url, exemption, cred), nontrivial=True)
    res.count("socks_cases")
    res.count("socks_exempt_cases" if exempt else "socks_proxied_cases")

    def bad(kind, detail, **kw):
        res.violation(kind, f"SOCKS {ptype} {url} no_proxy={exemption} cred={cred}: {detail}", case, proxy_type=ptype, exemption=exemption, **kw)
    try:
        w = W.create_connection(url, timeout=2, **opts)
        exc = None
    except Exception as e:  # noqa
        w, exc = None, e
    finally:
        H.scrub_env()
    calls = list(python_socks.CALLS)
    dialled = [a[1] for a in net_.connect_attempts]
    if exc is not None:
        bad("connect-failed", f"{type(exc).__name__}: {exc}", exc_type=type(exc).__name__)
        return
    try:
        if exempt:
            if calls or proxied:
                bad("no_proxy-decision", f"the target is exempt, yet the SOCKS proxy was used: client calls {calls}, addresses dialled {dialled}", expected_exempt=True, rule="socks")
                return
            if len(direct) != 1:
                bad("proxy-bypassed", f"exempt target: {len(direct)} direct connections, dialled {dialled}")
                return
            conn = direct[0]
            if dialled[0][1] != eff_port:
                bad("dialled-address", f"direct connection to {dialled[0]}, expected port {eff_port}")
            req = conn.hs.request if hasattr(conn, "hs") else None
        else:
            if direct:
                bad("proxy-bypassed", f"a proxy is configured and the target is not exempt, yet {len(direct)} direct connection(s) were made: {dialled}", expected_exempt=False, rule="socks")
                return
            creates = [d for (what, d) in calls if what == "create"]
            connects = [d for (what, d) in calls if what == "connect"]
            if len(creates) != 1 or len(connects) != 1 or len(proxied) != 1:
                bad("socks-client-use", f"calls {calls}, proxy connections {len(proxied)}")
                return
            c, k = creates[0], connects[0]
            want = dict(proxy_type=tname, host="socks.test", port=1080, username=cred[0] if cred else None, password=cred[1] if cred else None, rdns=bool(rdns))
            got = dict(proxy_type=c["proxy_type"], host=c["host"], port=c["port"], username=c["username"], password=c["password"], rdns=bool(c["rdns"]))
            if got != want:
                bad("socks-client-arguments", f"Proxy.create got {got}, expected {want}", which=[x for x in want if want[x] != got[x]][0])
            if k["dest_host"] != host or int(k["dest_port"]) != eff_port:
                bad("connect-target", f"destination {k['dest_host']!r}:{k['dest_port']!r}, expected {host!r}:{eff_port}")
            res.count("socks_client_arguments_checked")
            conn = proxied[0].conn
            req = proxied[0].inner.request if proxied[0].inner is not None else None
        # TLS exactly for wss, with the origin's name
        tls = getattr(conn, "tls", None)
        if bool(tls) != secure:
            bad("tls-usage", f"TLS through the {'tunnel' if not exempt else 'direct connection'}: {bool(tls)}, scheme says {secure}")
        elif secure and tls.get("server_hostname") != host:
            bad("tls-server-name", f"server_hostname {tls.get('server_hostname')!r}, origin is {host!r}")
        # the upgrade request, addressed to the origin
        if req is None:
            bad("upgrade-request", "no upgrade request reached the origin")
        else:
            method, target, version, headers, rest = RH.parse_request(req)
            hv = RH.get_all(headers, "Host")
            exp_host = host if eff_port in (80, 443) else f"{host}:{eff_port}"
            if target != "/feed?x=1" or hv != [exp_host]:
                bad("upgrade-request", f"request target {target!r}, Host {hv!r}; expected '/feed?x=1', {exp_host!r}")
            else:
                res.count("socks_upgrade_requests_checked")
    finally:
        try:
            w.shutdown()
        except Exception:  # noqa
            pass


def failing(res, W, python_socks, ptype, how):
    net_, direct, proxied = _setup(reply=b"Connection refused by destination host\n" if how == "refuses" else b"OK\n", proxy_outcome="accept" if how == "refuses" else "unreachable")
    del python_socks.CALLS[:]
    case = {"gen": "socks-failing", "proxy_type": ptype, "how": how}
    res.case(("socks-failing", ptype, how), nontrivial=True)
    res.count("socks_failing_proxy_cases")
    try:
        w = W.create_connection("ws://origin.test/x", timeout=2, http_proxy_host="socks.test", http_proxy_port=1080, proxy_type=ptype)
        w.shutdown()
        res.violation("proxy-bypassed", f"SOCKS {ptype} proxy that {how}: create_connection returned; direct connections {len(direct)}", case, proxy_type=ptype, rule="socks")
    except Exception as e:  # noqa
        if direct:
            res.violation("proxy-bypassed", f"SOCKS {ptype} proxy that {how}: a direct connection was made after the proxy failed ({type(e).__name__})", case, proxy_type=ptype, rule="socks")
        res.count("socks_failing_exc:" + type(e).__name__)
