"""C01 - every written frame is one well-formed masked client frame with the
exact payload; key == the single draw from the key source; return value ==
frame length."""
from __future__ import annotations

import logging
import random

from .. import harness as H
from ..ref import rfc6455 as R
from ..sim import net, shim

SHARDS = {"quick": 8, "thorough": 16}
META = {
    "level": "exploration",
    "technique": "runtime monitoring: transport-log oracle - bytes written per API call decoded by an independent RFC 6455 decoder (+ websockets' frame parser), key compared with the recorded key-source draw",
    "claim": "For every driven send/send_text/send_bytes/send_binary/ping/pong/close/send_close/send_frame call the bytes handed to the transport decoded (reference decoder, and the independent `websockets` parser) to exactly one frame with the requested FIN/opcode, RSV=0, MASK=1, minimal length encoding, key equal to the single 4-byte draw logged from the key source, payload equal to the caller's, and the return value equal to the frame length. Lengths 0..70000 are enumerated exhaustively in the thorough tier; content is sampled.",
    "trusted": "reference decoder wsverif/ref/rfc6455.py; os.urandom spy; simulated transport accepts what it is given (short writes are C12)",
    "rule": "case = (API, opcode, fin, payload length, payload type, key source, trace flag); distinct by that tuple + payload hash; non-trivial when the frame was decoded and compared (all are)",
    "exhaustive": {"quick": False, "thorough": False},
    "exhaustive_space": {"thorough": "every payload length 0..70000 (content sampled)", "quick": "every payload length 0..400 and 65400..65700"},
    "bounds": "payload <= 2^24 (+ a few sampled above 2^20); wsaccel path not reachable (package absent)",
    "required_counters": ["frames_checked", "key_draws_default", "key_draws_custom"],
    "assumptions": ["wsaccel absent"],
}
META["claim"] += " " + "Also driven: one ABNF object written several times (re-sent unchanged and with data/fin/opcode updated between writes) - every write is a frame of its own with a fresh key; the repository's own tests re-run with icontract postconditions on ABNF.format/ABNF.mask."
META["claim"] += " " + 'Round 3b: equally shaped frames received (through the traced message-level call) and then sent on one connection, run first in every fresh shard process (process-wide formatting state), trace on and off.'
META["claim"] += " " + 'Round 4: str payloads for continuation / binary / control frames through create_frame (text as its UTF-8 bytes); a key source set on the frame object; writes through DispatcherBase / Dispatcher / SSLDispatcher over a transport taking a few bytes at a time; frames of 2^20..2^24 (+-3) bytes; texts with BOM, separators, NUL, non-characters; ambient conditions (locks off, TLS transport, dispatcher write path, high descriptor numbers) drawn per connection.'
META["claim"] += " " + 'Round 5: bytearray payloads through ping()/pong()/send(.., OPCODE_PING); a send that failed after part of its frame was accepted, then shutdown()/close()/loss and connect() again on the same object - the first frame on the new connection stands alone.'
META["claim"] += " " + 'Rounds 6-7: subclasses given as class_, a key source across a reconnect of the same object; every close status 0..65535; key sources (the default one included) that produce four zero / equal bytes - still one draw per frame and that key on the wire; ambient warnings-as-errors, thread hops and 1/0 option spellings.'
META["claim"] += " " + 'Round 8: payloads of a str subclass; key sources that fail (seven exception types: the call raises it, nothing is written); close reasons given as str.'

try:
    from websockets.frames import Frame as _WsFrame
    from websockets.streams import StreamReader as _WsReader

    HAVE_WEBSOCKETS = True
except Exception:  # noqa
    HAVE_WEBSOCKETS = False


def second_oracle(b: bytes):
    r = _WsReader()
    r.feed_data(b)
    r.feed_eof()
    g = _WsFrame.parse(r.read_exact, mask=True)
    try:
        while True:
            next(g)
    except StopIteration as e:
        f = e.value
    rest = bytes(r.buffer) if hasattr(r, "buffer") else b""
    return f, rest


_POOLS = {}


def _pool(rng):
    p = _POOLS.get(id(rng))
    if p is None:
        chars = []
        for _ in range(6000):
            chars.append(chr(rng.choice([rng.randrange(0x80), rng.randrange(0x80, 0x800), rng.randrange(0x800, 0xD800),
                                         rng.randrange(0xE000, 0x10000), rng.randrange(0x10000, 0x110000), 0])))
        cum = [0]
        for c in chars:
            cum.append(cum[-1] + len(c.encode("utf-8")))
        p = _POOLS[id(rng)] = ("".join(chars), cum)
    return p


def rand_text(rng, nbytes):
    """Random encodable Unicode text (all UTF-8 lengths, NUL, astral) whose
    UTF-8 encoding has exactly nbytes bytes."""
    pool, cum = _pool(rng)
    out = []
    total = 0
    while nbytes - total > 64:
        i = rng.randrange(0, len(pool) - 1)
        j = min(len(pool), i + rng.randrange(1, 2000))
        while cum[j] - cum[i] > nbytes - total:
            j = i + (j - i) // 2
        if j <= i:
            break
        out.append(pool[i:j])
        total += cum[j] - cum[i]
    while total < nbytes:
        room = nbytes - total
        cp_choices = [rng.randrange(0x80)]
        if room >= 2:
            cp_choices.append(rng.randrange(0x80, 0x800))
        if room >= 3:
            cp_choices.append(rng.choice([rng.randrange(0x800, 0xD800), rng.randrange(0xE000, 0x10000)]))
        if room >= 4:
            cp_choices.append(rng.randrange(0x10000, 0x110000))
        c = chr(rng.choice(cp_choices))
        out.append(c)
        total += len(c.encode("utf-8"))
    return "".join(out)


class _TaggedStr(str):
    """a str subclass with a rendering of its own (as a 'secret' or 'markup-safe' string type has)"""

    def __str__(self):
        return "<tagged>"

    def __format__(self, spec):
        return "<tagged>"

    def __repr__(self):
        return "<tagged>"


class KeySrc:
    def __init__(self, kind, rng):
        self.kind = kind
        self.rng = rng
        self.draws = []

    def fn(self):
        if self.kind == "default":
            return None
        if self.kind == "bytes":
            def g(n):
                v = bytes(self.rng.randrange(256) for _ in range(n))
                if self.rng.random() < 0.15:
                    # improbable but legal draws: four zero bytes (masking is then the identity), four equal bytes
                    v = self.rng.choice([b"\x00", b"\xff", b"\x80"]) * n
                self.draws.append((n, v))
                return v
            return g

        def g(n):
            v = "".join(chr(self.rng.randrange(0x21, 0x7F)) for _ in range(n))
            if self.rng.random() < 0.15:
                v = self.rng.choice(["\x00", "\x7f", " "]) * n
            self.draws.append((n, v))
            return v
        return g


APIS_DATA = ["send_str", "send_bytes_text", "send_binary", "send_bytes", "send_text", "send_opbin", "send_bytearray",
             "frame_text_fin0", "frame_bin_fin1", "frame_cont_fin0", "frame_cont_fin1", "frame_text_fin1", "frame_bin_fin0",
             # text given as str for a continuation fragment (the idiom of send_frame()'s docstring) / a binary frame
             "frame_contstr_fin0", "frame_contstr_fin1", "frame_binstr_fin1"]
APIS_CTRL = ["ping_bytes", "ping_str", "pong_bytes", "pong_str", "send_ping_op", "send_pong_op",
             "frame_ping", "frame_pong", "frame_close", "frame_pingstr", "frame_pongstr", "ping_bytearray", "pong_bytearray", "send_bytearray_ping"]
APIS_CLOSE = ["close", "send_close"]


def run(res, tier, seed, shard, nshards):
    W = H.ws()
    rng = random.Random((seed << 8) ^ shard ^ 0xC01)
    if not HAVE_WEBSOCKETS:
        res.notes["second_oracle"] = "websockets package not importable: second oracle skipped"
    if shard == 0:
        H.contracts_workload(res, ["ABNF.format", "ABNF.mask"])

    if tier == "quick":
        lengths = list(range(0, 401)) + list(range(65400, 65701)) + [rng.randrange(0, 1 << 20) for _ in range(100)] + [1 << 16, (1 << 16) - 1, 1 << 20]
    else:
        lengths = list(range(0, 70001)) + [(1 << 16) + k for k in range(-3, 4)] + [1 << 20, (1 << 20) + 1, 1 << 24] + [rng.randrange(70000, 1 << 22) for _ in range(64)]
    cases = []
    ci = 0
    for L in lengths:
        for ks in ("default", "bytes", "str"):
            ci += 1
            n_api = 2 if (tier == "quick" or L > 300) else len(APIS_DATA)
            for j in range(n_api):
                api = APIS_DATA[(ci + j * 5) % len(APIS_DATA)]
                cases.append((L, api, ks, (ci + j) % 3 == 0))
        if L <= 125:
            for api in APIS_CTRL:
                ci += 1
                cases.append((L, api, ("default", "bytes", "str")[ci % 3], ci % 4 == 0))
        if L <= 123:
            for api in APIS_CLOSE:
                ci += 1
                cases.append((L, api, ("default", "bytes", "str")[ci % 3], ci % 4 == 0))
    mine = [c for i, c in enumerate(cases) if i % nshards == shard]

    null = logging.NullHandler()

    def scen():
        conns = {}
        # first thing in this (fresh) process: receives and sends of equally shaped frames interleaved on one connection, so
        # that for many shapes the very first frame formatted in the process is a *received* one (trace logging formats
        # received frames too).  Every frame the client writes is still a masked client frame of its own.
        for i in range(40 if tier == "quick" else 600):
            if (i + shard) % nshards == 0:
                duplex_case(res, W, rng, null)
        for (L, api, ks, trace) in mine:
            one(res, W, rng, conns, L, api, ks, trace, null)
        W.enableTrace(False)
        # texts that Python's text machinery treats specially go out as their exact UTF-8 bytes
        for i, t in enumerate(H.TRICKY_TEXTS):
            if (i + shard) % nshards == 0:
                tricky_text_case(res, W, rng, t)
        # a key source configured on the frame object itself (connection without one): the key on the wire is drawn from it
        for i in range(30 if tier == "quick" else 600):
            if (i + shard) % nshards == 0:
                frame_keysrc_case(res, W, rng)
        # the connection writes through a dispatcher object (as every WebSocketApp connection does) and the transport accepts
        # the frame in pieces
        for i in range(40 if tier == "quick" else 800):
            if (i + shard) % nshards == 0:
                dispatcher_case(res, W, rng)
        # a few very large frames (sampled lengths beyond; sizes around powers of two up to 16 MiB)
        bigs = [(1 << 22) - 1, (1 << 22), (1 << 22) + 1, 5000003] if tier == "quick" else \
            [(1 << k) + d for k in (20, 21, 22, 23, 24) for d in (-1, 0, 1, 2, 3)] + [5000003, 12345678]
        for i, n in enumerate(bigs):
            if (i + shard) % nshards == 0:
                big_case(res, W, rng, n)
        # a send that timed out after part of the frame had been accepted, then shutdown() and connect() on the same object: the
        # first frame written on the new connection is that frame and nothing else
        for i in range(18 if tier == "quick" else 300):
            if (i + shard) % nshards == 0:
                partial_send_then_reconnect_case(res, W, rng)
        for i in range(60 if tier == "quick" else 1000):
            if (i + shard) % nshards == 0:
                failing_key_source_case(res, W, rng)
        for i in range(12 if tier == "quick" else 200):
            if (i + shard) % nshards == 0:
                class_option_case(res, W, rng)
        # one ABNF object written several times (re-sent as is, and with fin/opcode/data updated per fragment):
        # every write is one well-formed frame of its own with a fresh key
        for ks in ("default", "bytes", "str"):
            for i in range(12 if tier == "quick" else 120):
                if (i + shard) % nshards == 0:
                    reuse_case(res, W, rng, ks)

    with H.ambient((seed, shard, "C01"), res, dims=("multithread", "tls", "dispatcher", "high_fd", "warn_error", "thread_hop", "truthy")):
        H.in_sim(scen, watchdog=3000)
    W.enableTrace(False)


def one(res, W, rng, conns, L, api, ks, trace, null):
    closing = api in ("close", "send_close")
    key = (ks,)
    ent = conns.get(key)
    if ent is None or closing or not ent[0].connected:
        src = KeySrc(ks, rng)
        w, conn, peer = H.connected_ws(ws_kwargs={"get_mask_key": src.fn()})
        ent = (w, conn, peer, src)
        if not closing:
            conns[key] = ent
    w, conn, peer, src = ent
    W.enableTrace(bool(trace), handler=null)

    # ---- build the payload ----
    texty = api in ("send_str", "send_text", "ping_str", "pong_str", "frame_text_fin0", "frame_text_fin1",
                    "frame_contstr_fin0", "frame_contstr_fin1", "frame_binstr_fin1", "frame_pingstr", "frame_pongstr")
    if texty:
        s = rand_text(rng, L)
        arg = s
        if rng.random() < 0.2:
            # text whose type is a subclass of str (a tagged string, a str-mixin enum member's value type): text all the same
            arg = _TaggedStr(s)
            res.count("str_subclass_payloads")
        expect_payload = s.encode("utf-8")
    else:
        b = rng.randbytes(L) if L else b""
        arg = b
        expect_payload = b
    fin, op = 1, None
    before = len(peer.client_stream)
    del src.draws[:]
    u0 = len(shim.urandom_log)
    del shim.urandom_force[:]
    if ks == "default" and rng.random() < 0.1:
        # the default source produces an improbable value this time; a second draw (which must not happen) would give another one
        shim.urandom_force[:] = [rng.choice([b"\x00", b"\xff"]) * 4, b"\x01\x02\x03\x04"]
        res.count("default_source_degenerate_draws")
    ret_expected = True
    try:
        if api == "send_str":
            ret = w.send(arg); op = R.TEXT
        elif api == "send_text":
            ret = w.send_text(arg); op = R.TEXT
        elif api == "send_bytes_text":
            # bytes given for a text frame must go out as they are: use valid UTF-8 bytes
            arg = expect_payload = rand_text(rng, L).encode("utf-8")
            ret = w.send(arg); op = R.TEXT
        elif api == "send_binary":
            ret = w.send_binary(arg); op = R.BINARY
        elif api == "send_bytes":
            ret = w.send_bytes(arg); op = R.BINARY
        elif api == "send_bytearray":
            ret = w.send_bytes(bytearray(arg)); op = R.BINARY
        elif api == "send_opbin":
            ret = w.send(arg, W.ABNF.OPCODE_BINARY); op = R.BINARY
        elif api.startswith("frame_"):
            _, kind, *rest = api.split("_")
            op = {"text": R.TEXT, "bin": R.BINARY, "cont": R.CONT, "ping": R.PING, "pong": R.PONG, "close": R.CLOSE,
                  "contstr": R.CONT, "binstr": R.BINARY, "pingstr": R.PING, "pongstr": R.PONG}[kind]
            fin = 0 if rest and rest[0] == "fin0" else 1
            if kind == "close" and L >= 2:
                arg = expect_payload = b"\x03\xe8" + rand_text(rng, L - 2).encode()
            elif kind == "close" and L == 1:
                arg = expect_payload = b""
            ret = w.send_frame(W.ABNF.create_frame(arg, op, fin))
        elif api in ("ping_bytes", "ping_str"):
            ret = w.ping(arg); op = R.PING; ret_expected = False
        elif api in ("pong_bytes", "pong_str"):
            ret = w.pong(arg); op = R.PONG; ret_expected = False
        elif api == "ping_bytearray":
            ret = w.ping(bytearray(arg)); op = R.PING; ret_expected = False
        elif api == "pong_bytearray":
            ret = w.pong(bytearray(arg)); op = R.PONG; ret_expected = False
        elif api == "send_bytearray_ping":
            ret = w.send(bytearray(arg), W.ABNF.OPCODE_PING); op = R.PING
        elif api == "send_ping_op":
            ret = w.send(arg, W.ABNF.OPCODE_PING); op = R.PING
        elif api == "send_pong_op":
            ret = w.send(arg, W.ABNF.OPCODE_PONG); op = R.PONG
        elif api in ("close", "send_close"):
            # every status the library agrees to send (0..65535), the codes RFC 6455 reserves or leaves undefined included: what
            # the caller asked for is what goes on the wire
            status = rng.choice([1000, 1001, 1002, 1003, 1007, 1008, 1009, 1010, 1011, 3000, 4999, rng.randrange(3000, 5000),
                                 1004, 1005, 1006, 1012, 1013, 1014, 1015, 1016, 0, 1, 999, 2999, 5000, 65535, rng.randrange(0, 65536)])
            reason = rand_text(rng, L).encode()
            expect_payload = bytes([status >> 8, status & 0xFF]) + reason
            op = R.CLOSE
            ret_expected = False
            reason_arg = reason
            if rng.random() < 0.3:
                # the reason given as text ("reason: str or bytes" in send_close()'s documentation): its UTF-8 bytes go on the wire
                reason_arg = reason.decode("utf-8")
                res.count("close_reasons_given_as_str")
            if api == "close":
                ret = w.close(status, reason_arg, timeout=0.01)
            else:
                ret = w.send_close(status, reason_arg)
        else:
            raise AssertionError(api)
    except Exception as e:  # noqa
        res.violation("send-raised", f"{api} len={L} key={ks} raised {type(e).__name__}: {e}",
                      {"api": api, "len": L, "keysrc": ks, "trace": trace}, api=api, exc_type=type(e).__name__)
        return
    written = bytes(peer.client_stream[before:])
    case = {"api": api, "len": L, "keysrc": ks, "trace": trace, "payload": expect_payload}
    res.case((api, L, ks, trace, R_h(expect_payload)))
    res.count("api:" + api)
    res.count("keysrc:" + ks)
    res.count("trace_on" if trace else "trace_off")
    n = len(expect_payload)
    res.count("lenclass:" + ("7" if n <= 125 else "16" if n <= 0xFFFF else "64"))

    def bad(kind, detail, **kw):
        res.violation(kind, f"{api} len={len(expect_payload)} key={ks} trace={trace}: {detail}", case, api=api, keysrc=ks, **kw)

    try:
        f = R.decode_one(written, 0)
    except R.Incomplete:
        return bad("frame-incomplete", f"written bytes ({len(written)}) do not contain one complete frame")
    res.count("frames_checked")
    if f.end != len(written):
        return bad("extra-bytes", f"{len(written) - f.end} bytes follow the frame written by one call")
    if f.fin != fin:
        bad("fin", f"fin={f.fin}, requested {fin}")
    if f.opcode != op:
        bad("opcode", f"opcode={f.opcode}, requested {op}")
    if f.rsv:
        bad("rsv", f"rsv bits {f.rsv}")
    if not f.masked:
        return bad("unmasked", "MASK bit clear")
    if not f.minimal:
        bad("length-encoding", f"length {f.length} encoded as {f.len_class}-bit", len_class=f.len_class)
    if f.length != len(expect_payload):
        bad("length", f"declared length {f.length} != payload length {len(expect_payload)}")
    if f.payload != expect_payload:
        bad("payload", "decoded payload differs from the caller's payload")
    if ret_expected and ret != len(written):
        bad("return-value", f"returned {ret!r}, frame has {len(written)} bytes")
    # key source
    if ks == "default":
        draws = [(n_, v) for (n_, v, fn, fun) in shim.urandom_log[u0:] if fn == "_abnf.py"]
        res.count("key_draws_default", len(draws))
    else:
        draws = list(src.draws)
        res.count("key_draws_custom", len(draws))
    if len(draws) != 1:
        bad("key-draws", f"{len(draws)} draws from the key source for one frame")
    else:
        n_, v = draws[0]
        vb = v.encode("ascii") if isinstance(v, str) else v
        if n_ != 4:
            bad("key-draw-size", f"key source asked for {n_} bytes")
        if vb != f.key:
            bad("key-mismatch", f"key on the wire {f.key.hex()} != drawn {vb.hex()}")
    # second oracle
    if HAVE_WEBSOCKETS:
        try:
            wf, rest = second_oracle(written)
            res.count("second_oracle_frames")
            if (int(wf.opcode), bool(wf.fin), bytes(wf.data)) != (op, bool(fin), expect_payload) or wf.rsv1 or wf.rsv2 or wf.rsv3:
                bad("second-oracle-mismatch", f"websockets parsed opcode={int(wf.opcode)} fin={wf.fin} len={len(wf.data)}")
        except Exception as e:  # noqa
            bad("second-oracle-rejects", f"websockets parser: {type(e).__name__}: {e}")
    res.sample(case)


def R_h(b):
    from ..core import h64
    return h64(bytes(b))


def reuse_case(res, W, rng, ks):
    src = KeySrc(ks, rng)
    w, conn, peer = H.connected_ws(ws_kwargs={"get_mask_key": src.fn()})
    n0 = rng.choice([0, 1, 5, 125, 126, 300])
    frame = W.ABNF.create_frame(rng.randbytes(n0), W.ABNF.OPCODE_BINARY, 0)
    steps = []
    for k in range(rng.randrange(2, 5)):
        how = rng.choice(["same", "new-data", "shorter", "longer", "last"])
        if how == "new-data":
            frame.data = rng.randbytes(len(frame.data))
        elif how == "shorter":
            frame.data = frame.data[: len(frame.data) // 2]
        elif how == "longer":
            frame.data = frame.data + rng.randbytes(rng.choice([1, 130]))
        elif how == "last":
            frame.fin = 1
        if k:
            frame.opcode = W.ABNF.OPCODE_CONT
        before = len(peer.client_stream)
        del src.draws[:]
        u0 = len(shim.urandom_log)
        payload = bytes(frame.data)
        try:
            ret = w.send_frame(frame)
        except Exception as e:  # noqa
            res.violation("send-raised", f"reused frame object, step {k} ({how}): {type(e).__name__}: {e}", {"gen": "reuse", "keysrc": ks}, api="send_frame-reuse", exc_type=type(e).__name__)
            return
        written = bytes(peer.client_stream[before:])
        case = {"gen": "reuse", "keysrc": ks, "step": k, "how": how, "payload": payload}
        res.case(("reuse", ks, k, how, R_h(payload)))
        res.count("frame_object_reuse_writes")
        try:
            f = R.decode_one(written)
        except R.Incomplete:
            res.violation("frame-incomplete", f"reused frame object step {k} ({how}): written bytes are not one complete frame", case, api="send_frame-reuse", keysrc=ks)
            return
        draws = [(n_, v) for (n_, v, fn, fun) in shim.urandom_log[u0:] if fn == "_abnf.py"] if ks == "default" else list(src.draws)
        vb = None
        if len(draws) == 1:
            vb = draws[0][1].encode("ascii") if isinstance(draws[0][1], str) else draws[0][1]
        if f.end != len(written) or f.payload != payload or f.fin != frame.fin or f.opcode != frame.opcode or not f.masked or not f.minimal:
            res.violation("reused-frame-damaged", f"step {k} ({how}): wire frame len={f.length} fin={f.fin} op={f.opcode} end={f.end}/{len(written)} payload ok={f.payload == payload}",
                          case, api="send_frame-reuse", keysrc=ks)
        elif len(draws) != 1 or vb != f.key:
            res.violation("key-draws", f"reused frame object step {k} ({how}): {len(draws)} draws from the key source; key on the wire {f.key.hex()}", case, api="send_frame-reuse", keysrc=ks)
        elif ret != len(written):
            res.violation("return-value", f"reused frame object step {k}: returned {ret}, frame has {len(written)} bytes", case, api="send_frame-reuse", keysrc=ks)


def _check_frame(res, tag, written, payload, op, fin, ret, case, **kw):
    try:
        f = R.decode_one(written)
    except R.Incomplete:
        res.violation("frame-incomplete", f"{tag}: the {len(written)} bytes written are not one complete frame", case, **kw)
        return None
    if f.end != len(written) or f.payload != payload or f.opcode != op or f.fin != fin or f.rsv or not f.masked or not f.minimal:
        res.violation("frame-damaged" if f.masked else "unmasked", f"{tag}: decoded op={f.opcode} fin={f.fin} len={f.length} end={f.end}/{len(written)} masked={f.masked} "
                      f"minimal={f.minimal} payload equal={f.payload == payload}", case, **kw)
        return None
    if ret is not None and ret != len(written):
        res.violation("return-value", f"{tag}: returned {ret!r}, frame has {len(written)} bytes", case, **kw)
        return None
    return f


def tricky_text_case(res, W, rng, t):
    w, conn, peer = H.connected_ws()
    for api in ("send", "send_text", "frame_text", "frame_cont", "ping", "close"):
        payload = t.encode("utf-8")
        before = len(peer.client_stream)
        case = {"gen": "tricky-text", "api": api, "text": t}
        op, fin, ret = R.TEXT, 1, None
        try:
            if api == "send":
                ret = w.send(t)
            elif api == "send_text":
                ret = w.send_text(t)
            elif api == "frame_text":
                fin = 0
                ret = w.send_frame(W.ABNF.create_frame(t, W.ABNF.OPCODE_TEXT, 0))
            elif api == "frame_cont":
                op = R.CONT
                ret = w.send_frame(W.ABNF.create_frame(t, W.ABNF.OPCODE_CONT, 1))
            elif api == "ping":
                op = R.PING
                w.ping(t)
            else:
                op = R.CLOSE
                payload = b"\x03\xe8" + payload
                w.send_close(1000, t.encode("utf-8"))
        except Exception as e:  # noqa
            res.violation("send-raised", f"{api}({t!r}): {type(e).__name__}: {e}", case, api="tricky-" + api, exc_type=type(e).__name__)
            return
        res.case(("tricky", api, t))
        res.count("tricky_texts_sent")
        if _check_frame(res, f"{api}({t!r})", bytes(peer.client_stream[before:]), payload, op, fin, ret, case, api="tricky-" + api) is None:
            return


def failing_key_source_case(res, W, rng):
    """The key source fails for one frame (any exception type, the OSError family included): the call raises that exception and not a
    byte is written; the next frame, with a working source again, is ordinary."""
    import errno as _errno
    EXC = [RuntimeError("no entropy"), BlockingIOError(_errno.EAGAIN, "Resource temporarily unavailable"), TimeoutError("entropy source timed out"),
           OSError(_errno.EIO, "Input/output error"), ValueError("bad request size"), StopIteration(), InterruptedError(_errno.EINTR, "interrupted")]
    exc = rng.choice(EXC)
    state = {"fail": False, "draws": []}
    as_str = rng.random() < 0.3

    def key(n):
        if state["fail"]:
            raise exc
        v = bytes(rng.randrange(256) for _ in range(n)) if not as_str else "".join(chr(rng.randrange(0x21, 0x7F)) for _ in range(n))
        state["draws"].append(v)
        return v
    how = rng.choice(["ctor", "setter", "frame"])
    w, conn, peer = H.connected_ws(ws_kwargs={"get_mask_key": key} if how == "ctor" else None)
    if how == "setter":
        w.set_mask_key(key)
    api = rng.choice(["send", "send_binary", "ping", "pong", "send_frame", "send_close"])
    payload = rng.randbytes(rng.choice([0, 5, 200]))
    case = {"gen": "failing-key-source", "exception": type(exc).__name__, "api": api, "installed_by": how}
    res.case(("failing-key", type(exc).__name__, api, how, len(payload)), nontrivial=True)
    res.count("failing_key_source_cases")

    def call():
        if api == "send":
            return w.send("text " + payload.hex())
        if api == "send_binary":
            return w.send_binary(payload)
        if api == "ping":
            return w.ping(payload[:125])
        if api == "pong":
            return w.pong(payload[:125])
        if api == "send_close":
            return w.send_close(1000, b"bye")
        fr = W.ABNF.create_frame(payload, W.ABNF.OPCODE_BINARY, 1)
        if how == "frame":
            fr.get_mask_key = key
        return w.send_frame(fr)
    if how == "frame" and api != "send_frame":
        w.set_mask_key(key)
    before = len(peer.client_stream)
    state["fail"] = True
    try:
        call()
        got = None
    except BaseException as e:  # noqa
        got = e
    state["fail"] = False
    written = bytes(peer.client_stream[before:])
    if got is not exc:
        res.violation("send-raised" if got is not None else "key-draws", f"{api} with a key source that raises {type(exc).__name__} (installed by {how}): "
                      + (f"raised {type(got).__name__}: {got}" if got is not None else f"returned normally; {len(written)} bytes written with a key the source never produced"),
                      case, api="failing-key-source", exc_type=type(exc).__name__)
    elif written:
        res.violation("extra-bytes", f"{api} with a key source that raises {type(exc).__name__}: {len(written)} bytes were written although the call failed", case, api="failing-key-source")


def partial_send_then_reconnect_case(res, W, rng):
    import socket as _socket
    ks = rng.choice(["default", "bytes", "str"])
    src = KeySrc(ks, rng)
    setter = rng.random() < 0.5 and ks != "default"
    w, conn, peer = H.connected_ws(timeout=1, ws_kwargs=({} if setter else {"get_mask_key": src.fn()}))
    if setter:
        w.set_mask_key(src.fn())
    n = rng.choice([0, 1, 5, 125, 126, 300, 70000])
    # k = number of bytes of the frame the transport accepts before it fails; 10**9 = no failure at all (a clean first connection)
    k = rng.choice([1, 2, 3, 5, 6, 8, 13, 150, 10 ** 9, 10 ** 9])
    err = rng.choice(["timeout", "timeout", "reset"])
    e = _socket.timeout("timed out") if err == "timeout" else ConnectionResetError(104, "Connection reset by peer")

    def plan():
        conn.send_error = e
        yield k

    if k < 10 ** 9:
        conn.write_plan = plan()
    api = rng.choice(["send_binary", "ping", "send_close", "send_frame"])
    try:
        if api == "send_binary":
            w.send_binary(rng.randbytes(n))
        elif api == "ping":
            w.ping(rng.randbytes(min(n, 125)))
        elif api == "send_close":
            w.send_close(1000, b"bye")
        else:
            w.send_frame(W.ABNF.create_frame(rng.randbytes(n), W.ABNF.OPCODE_BINARY, 0))
    except Exception:  # noqa
        pass
    how = rng.choice(["shutdown", "close", "lost"])
    try:
        if how == "shutdown":
            w.shutdown()
        elif how == "close":
            w.close(timeout=0.1)
        else:
            conn.peer_close()
            try:
                w.recv()
            except Exception:  # noqa
                pass
    except Exception:  # noqa
        pass
    # second connection of the same object
    so2, conn2 = net.pair()
    peer2 = H.HandshakePeer(conn2)
    case = {"gen": "partial-send-then-reconnect", "first_api": api, "first_len": n, "accepted": k, "error": err, "dropped_by": how}
    try:
        w.connect("ws://sim.test/again", socket=so2)
    except Exception as x:  # noqa
        res.violation("send-raised", f"connect() again on the same object after a partial {api} ({k} bytes, {err}) and {how}: {type(x).__name__}: {x}", case,
                      api="reconnect-after-partial-send", exc_type=type(x).__name__)
        return
    payload = rng.randbytes(rng.choice([0, 3, 200]))
    before = len(peer2.client_stream)
    del src.draws[:]
    u0 = len(shim.urandom_log)
    try:
        ret = w.send_binary(payload)
    except Exception as x:  # noqa
        res.violation("send-raised", f"first send on the new connection after a partial {api} on the old one: {type(x).__name__}: {x}", case,
                      api="reconnect-after-partial-send", exc_type=type(x).__name__)
        return
    res.case(("partial-reconnect", api, n, k, err, how))
    res.count("sends_after_partial_send_and_reconnect")
    f = _check_frame(res, f"first frame on a new connection of the same object (the old one saw {k} bytes of a {api} frame, then {err}; dropped by {how})",
                     bytes(peer2.client_stream[before:]), payload, R.BINARY, 1, ret, case, api="reconnect-after-partial-send")
    if f is not None and ks != "default":
        # the key source configured on the object is still the one in force on its second connection
        os_draws = [1 for (n_, v, fn, fun) in shim.urandom_log[u0:] if fn == "_abnf.py"]
        vb = None
        if len(src.draws) == 1:
            v = src.draws[0][1]
            vb = v.encode("ascii") if isinstance(v, str) else v
        if len(src.draws) != 1 or os_draws or vb != f.key:
            res.violation("key-draws", f"second connection of one object (first dropped by {how}): {len(src.draws)} draws from the configured {ks} key source, "
                          f"{len(os_draws)} from the OS; key on the wire {f.key.hex()}", dict(case, keysrc=ks, configured_by="set_mask_key" if setter else "constructor"),
                          api="reconnect-after-partial-send", keysrc=ks)


class _PassThrough:
    pass


def class_option_case(res, W, rng):
    """create_connection(url, class_=<a WebSocket subclass>, get_mask_key=..., ...): the options reach the object whatever the subclass'
    constructor looks like"""
    ks = rng.choice(["bytes", "str"])
    src = KeySrc(ks, rng)
    kind = rng.choice(["plain-subclass", "pass-through-init", "explicit-init"])
    if kind == "plain-subclass":
        class Sub(W.WebSocket):
            pass
    elif kind == "pass-through-init":
        class Sub(W.WebSocket):
            def __init__(self, *args, **kwargs):
                super().__init__(*args, **kwargs)
                self.extra = 1
    else:
        class Sub(W.WebSocket):
            def __init__(self, get_mask_key=None, sockopt=None, sslopt=None, fire_cont_frame=False, enable_multithread=True, skip_utf8_validation=False, **kw):
                super().__init__(get_mask_key, sockopt, sslopt, fire_cont_frame, enable_multithread, skip_utf8_validation, **kw)
    conns = []
    H.make_net(lambda c: (conns.append(c), H.HandshakePeer(c)))
    case = {"gen": "class-option", "subclass": kind, "keysrc": ks}
    try:
        w = W.create_connection("ws://sim.test/c", timeout=2, class_=Sub, get_mask_key=src.fn())
    except Exception as e:  # noqa
        res.violation("send-raised", f"create_connection(class_={kind}): {type(e).__name__}: {e}", case, api="class-option", exc_type=type(e).__name__)
        return
    peer = conns[0].hs
    res.case(("class-option", kind, ks))
    res.count("class_option_cases")
    for api in ("send", "ping", "send_binary"):
        payload = rng.randbytes(rng.choice([0, 5, 130]) if api != "ping" else 5)
        del src.draws[:]
        u0 = len(shim.urandom_log)
        before = len(peer.client_stream)
        try:
            if api == "send":
                t = payload.hex()
                payload = t.encode()
                w.send(t); op = R.TEXT
            elif api == "ping":
                w.ping(payload); op = R.PING
            else:
                w.send_binary(payload); op = R.BINARY
        except Exception as e:  # noqa
            res.violation("send-raised", f"{api} on a {kind} object: {type(e).__name__}: {e}", case, api="class-option", exc_type=type(e).__name__)
            return
        f = _check_frame(res, f"{api} on a create_connection(class_={kind}) object", bytes(peer.client_stream[before:]), payload, op, 1, None, case, api="class-option", keysrc=ks)
        if f is None:
            return
        os_draws = [1 for (n_, v, fn, fun) in shim.urandom_log[u0:] if fn == "_abnf.py"]
        vb = None
        if len(src.draws) == 1:
            v = src.draws[0][1]
            vb = v.encode("ascii") if isinstance(v, str) else v
        if len(src.draws) != 1 or os_draws or vb != f.key:
            res.violation("key-draws", f"create_connection(class_={kind}, get_mask_key=...): {len(src.draws)} draws from the configured source, {len(os_draws)} from the OS",
                          case, api="class-option", keysrc=ks)
            return
    try:
        w.shutdown()
    except Exception:  # noqa
        pass


def frame_keysrc_case(res, W, rng):
    """frame.get_mask_key set by the caller, connection without a key source of its own."""
    ks = rng.choice(["bytes", "str"])
    src = KeySrc(ks, rng)
    w, conn, peer = H.connected_ws()
    for step in range(3):
        op, fin = rng.choice([(R.TEXT, 1), (R.BINARY, 1), (R.TEXT, 0), (R.CONT, 0), (R.CONT, 1), (R.PING, 1), (R.PONG, 1)])
        n = rng.choice([0, 1, 3, 4, 5, 125]) if op in (R.PING, R.PONG) else rng.choice([0, 1, 5, 125, 126, 1000, 65536])
        payload = rand_text(rng, n).encode() if op in (R.TEXT, R.CONT) else rng.randbytes(n)
        frame = W.ABNF.create_frame(payload, op, fin)
        frame.get_mask_key = src.fn()
        del src.draws[:]
        before = len(peer.client_stream)
        u0 = len(shim.urandom_log)
        case = {"gen": "frame-keysrc", "keysrc": "frame-" + ks, "opcode": op, "fin": fin, "len": n}
        try:
            ret = w.send_frame(frame)
        except Exception as e:  # noqa
            res.violation("send-raised", f"frame-level key source ({ks}): {type(e).__name__}: {e}", case, api="send_frame-framekey", exc_type=type(e).__name__)
            return
        res.case(("framekey", ks, op, fin, n, R_h(payload)))
        res.count("frame_level_keysrc_writes")
        f = _check_frame(res, f"frame-level key source ({ks}) op={op} fin={fin} len={n}", bytes(peer.client_stream[before:]), payload, op, fin, ret, case,
                         api="send_frame-framekey", keysrc="frame-" + ks)
        if f is None:
            return
        os_draws = [1 for (n_, v, fn, fun) in shim.urandom_log[u0:] if fn == "_abnf.py"]
        if len(src.draws) != 1 or os_draws:
            res.violation("key-draws", f"frame-level key source ({ks}): {len(src.draws)} draws from it and {len(os_draws)} from the OS for one frame", case,
                          api="send_frame-framekey", keysrc="frame-" + ks)
            return
        v = src.draws[0][1]
        vb = v.encode("ascii") if isinstance(v, str) else v
        if vb != f.key or src.draws[0][0] != 4:
            res.violation("key-mismatch", f"frame-level key source ({ks}): key on the wire {f.key.hex()} != drawn {vb.hex()}", case, api="send_frame-framekey", keysrc="frame-" + ks)
            return


def dispatcher_case(res, W, rng):
    import itertools
    disp = rng.choice(["base", "plain", "ssl"])
    D = W._dispatcher
    app = type("A", (), {"keep_running": True})()
    d = {"base": lambda: D.DispatcherBase(app, 5), "plain": lambda: D.Dispatcher(app, 5), "ssl": lambda: D.SSLDispatcher(app, 5)}[disp]()
    ks = rng.choice(["default", "bytes", "str"])
    src = KeySrc(ks, rng)
    w, conn, peer = H.connected_ws(ws_kwargs={"dispatcher": d, "get_mask_key": src.fn()})
    for step in range(3):
        n = rng.choice([0, 1, 10, 125, 126, 5000, 65535, 65536, 100000])
        plan = rng.choice(["ones", "random", "blocks", "whole"])
        conn.write_plan = {"ones": lambda: itertools.chain(iter([1] * 30), itertools.cycle([rng.randrange(1, 4000)])),
                           "random": lambda: (rng.randrange(1, 3000) for _ in itertools.count()),
                           "blocks": lambda: itertools.cycle([16384]), "whole": lambda: None}[plan]()
        api = rng.choice(["send", "send_binary", "ping", "send_frame"]) if n <= 125 else rng.choice(["send", "send_binary", "send_frame"])
        before = len(peer.client_stream)
        case = {"gen": "dispatcher", "dispatcher": disp, "plan": plan, "api": api, "len": n, "keysrc": ks}
        try:
            if api == "send":
                t = rand_text(rng, n)
                payload, op, fin = t.encode(), R.TEXT, 1
                ret = w.send(t)
            elif api == "send_binary":
                payload, op, fin = rng.randbytes(n), R.BINARY, 1
                ret = w.send_binary(payload)
            elif api == "ping":
                payload, op, fin = rng.randbytes(n), R.PING, 1
                w.ping(payload)
                ret = None
            else:
                payload, op, fin = rng.randbytes(n), R.CONT, 0
                ret = w.send_frame(W.ABNF.create_frame(payload, W.ABNF.OPCODE_CONT, 0))
        except Exception as e:  # noqa
            res.violation("send-raised", f"through {disp} dispatcher, plan {plan}: {type(e).__name__}: {e}", case, api="dispatcher-" + api, exc_type=type(e).__name__)
            return
        res.case(("disp", disp, plan, api, n, R_h(payload)), nontrivial=plan != "whole")
        res.count("writes_through_dispatcher")
        if _check_frame(res, f"through {disp} dispatcher, plan {plan}, {api} len={n}", bytes(peer.client_stream[before:]), payload, op, fin, ret, case,
                        api="dispatcher-" + api, keysrc=ks) is None:
            return


def big_case(res, W, rng, n):
    ks = rng.choice(["default", "bytes", "str"])
    src = KeySrc(ks, rng)
    w, conn, peer = H.connected_ws(ws_kwargs={"get_mask_key": src.fn()})
    payload = rng.randbytes(n)
    before = len(peer.client_stream)
    case = {"gen": "big", "len": n, "keysrc": ks}
    try:
        ret = w.send_binary(payload)
    except Exception as e:  # noqa
        res.violation("send-raised", f"send_binary len={n}: {type(e).__name__}: {e}", case, api="send_binary-big", exc_type=type(e).__name__)
        return
    res.case(("big", n, ks))
    res.count("big_frames_checked")
    _check_frame(res, f"send_binary len={n} key={ks}", bytes(peer.client_stream[before:]), payload, R.BINARY, 1, ret, case, api="send_binary-big", keysrc=ks)
    del peer.client_stream[before:]


def duplex_case(res, W, rng, null):
    from ..ref import rfc6455 as RR
    ks = rng.choice(["default", "bytes", "str"])
    src = KeySrc(ks, rng)
    trace = rng.random() < 0.6
    W.enableTrace(trace, handler=null)
    w, conn, peer = H.connected_ws(ws_kwargs={"get_mask_key": src.fn()}, timeout=1)
    shapes = [(RR.TEXT, 1), (RR.BINARY, 1), (RR.TEXT, 0), (RR.CONT, 1), (RR.PING, 1), (RR.PONG, 1)]
    for step in range(rng.randrange(3, 9)):
        op, fin = rng.choice(shapes)
        n = rng.choice([0, 1, 2, 5, 16, 125])
        if op in (RR.TEXT,) or (op == RR.CONT):
            payload = bytes(rng.randrange(0x20, 0x7f) for _ in range(n))
        else:
            payload = rng.randbytes(n)
        # the server sends a frame of this shape first (unmasked, as servers do) ...
        if rng.random() < 0.7:
            conn.deliver(RR.encode(op, payload, fin=fin))
            try:
                if op in (RR.PING, RR.PONG) or rng.random() < 0.5:
                    w.recv_data_frame(True)  # message-level receive (this is where received frames are traced)
                else:
                    w.recv_frame()
            except W.WebSocketException:
                pass
        # ... then the client writes one of the same shape
        before = len(peer.client_stream)
        del src.draws[:]
        u0 = len(shim.urandom_log)
        mine = rng.randbytes(n) if op not in (RR.TEXT, RR.CONT) else bytes(rng.randrange(0x20, 0x7f) for _ in range(n))
        try:
            ret = w.send_frame(W.ABNF.create_frame(mine, op, fin))
        except Exception as e:  # noqa
            res.violation("send-raised", f"duplex step {step}: {type(e).__name__}: {e}", {"gen": "duplex"}, api="send_frame-duplex", exc_type=type(e).__name__)
            break
        written = bytes(peer.client_stream[before:])
        case = {"gen": "duplex", "trace": trace, "keysrc": ks, "opcode": op, "fin": fin, "len": n}
        res.case(("duplex", trace, ks, op, fin, n, R_h(mine)))
        res.count("duplex_writes")
        try:
            f = RR.decode_one(written)
        except RR.Incomplete:
            res.violation("frame-incomplete", f"duplex (trace={trace}) op={op} fin={fin} len={n}: written bytes {written[:12].hex()} are not one complete client frame", case,
                          api="send_frame-duplex", keysrc=ks)
            break
        draws = [(n_, v) for (n_, v, fn, fun) in shim.urandom_log[u0:] if fn == "_abnf.py"] if ks == "default" else list(src.draws)
        if not f.masked:
            res.violation("unmasked", f"duplex (trace={trace}) op={op} fin={fin} len={n}: MASK bit clear in a client frame ({written[:8].hex()})", case, api="send_frame-duplex", keysrc=ks)
            break
        if f.end != len(written) or f.payload != mine or f.opcode != op or f.fin != fin or f.rsv or not f.minimal or ret != len(written):
            res.violation("frame-damaged", f"duplex (trace={trace}) op={op} fin={fin} len={n}: decoded op={f.opcode} fin={f.fin} len={f.length} end={f.end}/{len(written)} ret={ret}", case,
                          api="send_frame-duplex", keysrc=ks)
            break
        if len(draws) != 1:
            res.violation("key-draws", f"duplex (trace={trace}): {len(draws)} draws from the key source for one frame", case, api="send_frame-duplex", keysrc=ks)
            break
    W.enableTrace(False)
