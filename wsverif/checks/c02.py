"""C02 - received frames decode exactly as RFC 6455 prescribes; exactly the
bytes of each frame are consumed."""
from __future__ import annotations

import random

from .. import harness as H
from .. import monitors as M
from ..ref import rfc6455 as R
from ..ref import utf8 as U

SHARDS = {"quick": 8, "thorough": 16}
META = {
    "level": "exploration",
    "technique": "runtime monitoring: values returned by recv_frame()/recv_data_frame()/recv_data()/recv() compared frame-by-frame with an independent RFC 6455 decoder over generated server streams, plus consumed-offset monitor on the transport log",
    "claim": "On every generated server stream (all legal first-two-byte headers, all three length encodings with lengths around 125/126 and 65535/65536, masked and unmasked, 1-6 back-to-back frames, delivered whole and in random chunks) each receive call returned exactly the (fin, opcode, payload) the reference decoder extracts, and a sentinel frame behind every stream was parsed from its true start. Held on the executions observed.",
    "trusted": "reference encoder/decoder wsverif/ref/rfc6455.py (round-trip self-checked each run); simulated socket",
    "rule": "case = one stream + segmentation + call script; distinct by stream hash + cuts + script; non-trivial when the stream has >= 2 frames (every stream carries a sentinel frame) and at least one frame was compared",
    "exhaustive": {"quick": False, "thorough": False},
    "exhaustive_space": {"quick": "all 2x6x2x128 first-two-byte header combinations the protocol allows (content sampled)",
                         "thorough": "all 2x6x2x128 first-two-byte header combinations x 4 segmentations (content sampled)"},
    "bounds": "payload <= 2^20; non-minimal length encodings and 64-bit lengths >= 2^63 are not judged",
    "required_counters": ["frames_compared", "sentinel_ok"],
    "assumptions": [],
}
META["claim"] += " " + "Also: explicit 16/64-bit boundary lengths (126..65535, 65536..2^20), and the repository's tests re-run with contracts on recv_strict/mask."
META["claim"] += " " + 'Round 4: frames of 2^20..2^24 (+-3) and odd multi-megabyte sizes, masked and unmasked; ambient conditions (trace, locks off, TLS transport, dispatcher, high descriptor numbers) drawn per connection.'
META["claim"] += " " + 'Round 5: frames declaring 2^31+5 ... 2^63-1 payload bytes of which only a few arrive before the end of the stream - nothing is delivered.'
META["claim"] += " " + 'Rounds 6-7: ambient warnings-as-errors / thread hops / 1-0 spellings on every connection; two connections read by two threads with every repository line of either reader as the preemption point (payloads 100 ... 70000 bytes): no byte of one connection in a frame of the other.'
META["claim"] += " " + 'Round 8: one connection read in several message-level styles call by call; constructor options passed by position.'

SENT = b"\x5a\xa5SENTINEL"


def legal_payload(rng, op, n):
    if op == R.CLOSE:
        if n == 0:
            return b""
        if n == 1:
            return None
        code = rng.choice([1000, 1001, 1002, 1003, 1007, 1008, 1009, 1010, 1011, 3000, 4999, rng.randrange(3000, 5000)])
        return bytes([code >> 8, code & 255]) + ascii_bytes(rng, n - 2)
    return rng.randbytes(n)


def ascii_bytes(rng, n):
    return bytes(rng.randrange(0x20, 0x7F) for _ in range(n))


def random_cuts(rng, n, k):
    return sorted({rng.randrange(1, n) for _ in range(k)}) if n > 1 else []


def run(res, tier, seed, shard, nshards):
    W = H.ws()
    rng = random.Random((seed << 8) ^ shard ^ 0xC02)
    # oracle self-check: reference encoder/decoder round trip
    for _ in range(300):
        op = rng.choice(R.KNOWN_OPS)
        p = rng.randbytes(rng.choice([0, 1, 125, 126, 127, 65535, 65536, rng.randrange(70000)]))
        key = rng.choice([None, rng.randbytes(4)])
        b = R.encode(op, p, fin=rng.randrange(2), key=key)
        f = R.decode_one(b + b"xx")
        if (f.payload, f.opcode, f.end) != (p, op, len(b)) or not f.minimal:
            res.inconc("reference encoder/decoder disagree with each other")
            return
    res.count("oracle_selfcheck", 300)
    if shard == 0:
        H.contracts_workload(res, ["frame_buffer.recv_strict", "ABNF.mask"])

    cases = []
    # (a) exhaustive header space
    for fin in (0, 1):
        for op in R.KNOWN_OPS:
            for mask in (0, 1):
                for l7 in range(128):
                    if op in R.CONTROL_OPS and (fin == 0 or l7 > 125):
                        continue  # forbidden combinations belong to C05
                    if op == R.CLOSE and l7 == 1:
                        continue
                    cases.append(("hdr", fin, op, mask, l7))
    # explicit boundary lengths for the 16/64-bit encodings
    for op in (R.TEXT, R.BINARY, R.CONT):
        for mask in (0, 1):
            for fin in (0, 1):
                for n in (126, 127, 128, 255, 256, 257, 16383, 16384, 16385, 65534, 65535):
                    cases.append(("len", fin, op, mask, 126, n))
                for n in (65536, 65537, 70000, 131072) + ((1 << 20,) if tier == "thorough" else ()):
                    cases.append(("len", fin, op, mask, 127, n))
    # multi-megabyte frames, masked and unmasked (sizes at and next to powers of two up to 16 MiB, and odd ones)
    bigs = [(1, R.BINARY, 1, (1 << 22) + 1), (1, R.CONT, 1, 5000003), (0, R.TEXT, 0, (1 << 22) - 1)] if tier == "quick" else \
        [(fin, op, mask, (1 << k) + d) for k in (20, 21, 22, 23, 24) for d in (-1, 0, 1, 2, 3)
         for (fin, op, mask) in ((1, R.BINARY, 1), (0, R.CONT, 1), (1, R.TEXT, 0))] + [(1, R.BINARY, 1, 5000003), (1, R.CONT, 1, 12345678)]
    for fin, op, mask, n in bigs:
        cases.append(("len", fin, op, mask, 127, n, "big"))
    # a 64-bit length far beyond anything that is transferred here (2 GiB and more): the frame is incomplete when the stream ends, so
    # nothing is delivered - in particular not a "frame" cut at the declared length taken modulo some power of two
    for L in ((1 << 31) + 5, (1 << 32) + 7, (1 << 33), (1 << 40) + 3, (1 << 62) + 1, (1 << 63) - 1, (1 << 31), (1 << 24) * 129 + 5):
        for mask in (0, 1):
            for op in (R.BINARY, R.TEXT):
                cases.append(("huge", op, mask, L))
    # (b)/(c) random multi-frame streams
    n_rand = 600 if tier == "quick" else 80000
    for i in range(n_rand):
        cases.append(("multi", i))
    nseg = 1 if tier == "quick" else 4

    def scen():
        for i, c in enumerate(cases):
            if i % nshards != shard:
                continue
            if c[0] == "huge":
                huge_declared_case(res, W, rng, c)
            elif c[0] in ("hdr", "len"):
                header_case(res, W, rng, c, nseg)
            else:
                multi_case(res, W, rng, tier)

    with H.ambient((seed, shard, "C02"), res):
        H.in_sim(scen, watchdog=3000)
    # two connections of one process, each read by its own thread: whatever the library keeps per process (buffers, caches) must not
    # let the bytes of one connection show up in a frame of the other - every repository line of one reader as the preemption point
    two_connections_preempted(res, W, tier, seed, shard, nshards)


def two_connections_preempted(res, W, tier, seed, shard, nshards):
    from ..sim import sched, shim
    from . import c12
    sched.install_line_monitor(shim.PREFIX)
    configs = ((8000, "recv_frame"), (300, "recv_frame"), (20000, "recv"), (5000, "recv_data")) if tier == "quick" else \
        [(n, a) for n in (100, 300, 4095, 4096, 8000, 16384, 20000, 70000) for a in ("recv_frame", "recv", "recv_data")]
    for ci, (size, api) in enumerate(configs):
        if ci % nshards != shard:
            continue
        pay = [bytes([0x41 + t]) * size for t in (0, 1)]

        def factory(size=size, api=api, pay=pay):
            def scen():
                S = sched.CURRENT
                conns = []
                for t in (0, 1):
                    w, conn, peer = H.connected_ws()
                    conn.deliver(R.encode(R.BINARY, pay[t]) + R.encode(R.BINARY, b"tail%d" % t))
                    conn.peer_close()
                    conns.append(w)
                got = {0: [], 1: []}

                def reader(t):
                    w = conns[t]
                    for _ in range(2):
                        try:
                            if api == "recv_frame":
                                fr = w.recv_frame()
                                got[t].append((fr.opcode, fr.fin, bytes(fr.data)))
                            elif api == "recv":
                                got[t].append((R.BINARY, 1, bytes(w.recv())))
                            else:
                                op, data = w.recv_data()
                                got[t].append((op, 1, bytes(data)))
                        except BaseException as e:  # noqa
                            if isinstance(e, sched.SimAbort):
                                raise
                            got[t].append(("exc", type(e).__name__, str(e)[:80]))
                            return
                actors = [S.spawn(reader, t, name=f"R{t}") for t in (0, 1)]
                S.arm(line_points=True)
                S.block(lambda: all(a.state == sched.DONE for a in actors), None, why="join")
                S.disarm()
                return {"got": got, "actors": actors}
            return scen

        def judge_(obs, S, size=size, api=api, pay=pay):
            issues = []
            for t in (0, 1):
                exp = [(R.BINARY, 1, pay[t]), (R.BINARY, 1, b"tail%d" % t)]
                if obs["got"][t] != exp:
                    g = [(x[0], x[1], (x[2][:12], len(x[2]))) if x[0] != "exc" else x for x in obs["got"][t]]
                    issues.append(("frame-mismatch", f"connection {t + 1} (read by its own thread through {api}) delivered {g}, its server sent two binary "
                                   f"frames of {size} x {pay[t][:1]!r} and {b'tail%d' % t!r}; the other connection carried {pay[1 - t][:1]!r}", {"component": "two-connections", "api": api}))
            case = {"gen": "two-connections-preempted", "size": size, "api": api, "decisions": list(S.decisions)[:200]}
            return issues, case, tuple(len(obs["got"][t]) for t in (0, 1)), S.switches > 0

        tag = ("two-connections", size, api)
        c12.explore(res, factory, judge_, tag, "sweep", 400 if tier == "quick" else 3000, seed, "two_connection_schedules")
        c12.explore(res, factory, judge_, tag, "random", 30 if tier == "quick" else 600, seed, "two_connection_schedules")


def header_case(res, W, rng, c, nseg):
    _, fin, op, mask, l7 = c[:5]
    if len(c) > 5:
        n = c[5]
    elif l7 <= 125:
        n = l7
    elif l7 == 126:
        n = rng.choice([126, 127, 65535, rng.randrange(126, 65536)])
    else:
        n = rng.choice([65536, 65537, 70000, rng.randrange(65536, 200000)])
    p = legal_payload(rng, op, n) if n < (1 << 20) else (b"abcdefghijklmnopqrstuvwxyz0123456789" * (n // 36 + 1))[:n]
    key = rng.randbytes(4) if mask else None
    if len(c) > 6:
        res.count("multi_megabyte_frames")
        nseg = 1
        if op == R.CONT:
            # a continuation needs its message: precede it with the first fragment
            pre = R.encode(R.BINARY, b"first", fin=0)
            stream = pre + R.encode(op, p, fin=fin, key=key) + R.encode(R.BINARY, SENT)
            judge(res, W, stream, [("recv_frame", False)] * 3, None, "eof", {}, ("big", fin, op, mask, n), expect_sentinel=True)
            return
    stream = R.encode(op, p, fin=fin, key=key) + R.encode(R.BINARY, SENT, key=rng.choice([None, rng.randbytes(4)]))
    script = [("recv_frame", False), ("recv_frame", False)]
    for s in range(nseg):
        cuts = None if s == 0 else random_cuts(rng, len(stream), rng.choice([1, 2, 5, 40]))
        if s == 1:
            cuts = list(range(1, min(len(stream), 24)))  # byte-wise over the header region
        judge(res, W, stream, script, cuts, "eof", {}, ("hdr", fin, op, mask, l7, n), expect_sentinel=True)
    res.count(f"hdr_lenclass:{7 if l7 <= 125 else 16 if l7 == 126 else 64}")
    res.count("hdr_masked" if mask else "hdr_unmasked")


def huge_declared_case(res, W, rng, c):
    _, op, mask, L = c
    key = rng.randbytes(4) if mask else b""
    tail = b"abcde" + R.encode(R.BINARY, SENT) + R.encode(R.TEXT, b"more")
    stream = bytes([0x80 | op, (0x80 if mask else 0) | 127]) + L.to_bytes(8, "big") + key + tail
    res.count("huge_declared_lengths")
    for name in ("recv_frame", "recv_data_frame", "recv"):
        w, conn, peer = H.connected_ws(after=stream, timeout=1)
        conn.peer_close()
        case = {"gen": "huge-declared-length", "declared": L, "opcode": op, "masked": mask, "call": name, "bytes_after_header": len(tail)}
        res.case(("huge", op, mask, L, name), nontrivial=True)
        try:
            v = getattr(w, name)() if name != "recv_data_frame" else w.recv_data_frame(True)
        except W.WebSocketException:
            res.count("huge_declared_not_delivered")
            continue
        except Exception as e:  # noqa
            res.violation("unexpected-exception", f"frame declaring {L} payload bytes followed by {len(tail)} bytes and end of stream through {name}: "
                          f"{type(e).__name__}: {e}", case, exc_type=type(e).__name__)
            continue
        got = v if isinstance(v, (str, bytes)) else (getattr(v, "data", None) if not isinstance(v, tuple) else getattr(v[1], "data", v[1]))
        res.violation("value-mismatch", f"frame declaring {L} payload bytes of which only {len(tail)} arrived before the end of the stream: {name} returned "
                      f"{repr(got)[:60]} instead of reporting the lost connection", case)


def multi_case(res, W, rng, tier):
    """1..6 frames forming a legal sequence, boundary lengths, then sentinel."""
    k = rng.randrange(1, 7)
    frames = []
    in_msg = False
    big_budget = 2
    for _ in range(k):
        r = rng.random()
        lens = [0, 1, 2, 124, 125]
        if big_budget:
            lens += [126, 127, 128, 65535, 65536, 65537, rng.randrange(0, 70000)]
            if tier == "thorough" and rng.random() < 0.02:
                lens += [1 << 20]
        if r < 0.3:
            op = rng.choice([R.PING, R.PONG])
            n = rng.choice([0, 1, 17, 124, 125, rng.randrange(126)])
            frames.append((op, rng.randbytes(n), 1))
            continue
        n = rng.choice(lens)
        if n > 125:
            big_budget -= 1
        fin = rng.randrange(2)
        if in_msg:
            op = R.CONT
        else:
            op = rng.choice([R.TEXT, R.BINARY])
        cur_text = (op == R.TEXT) or (in_msg and frames and msg_text[0])
        payload = ascii_bytes(rng, n) if cur_text else rng.randbytes(n)
        if not in_msg:
            msg_text = [op == R.TEXT]
        frames.append((op, payload, fin))
        in_msg = not fin
    if in_msg:
        frames.append((R.CONT, b"end", 1))
    stream = b"".join(R.encode(op, p, fin=fin, key=(rng.randbytes(4) if rng.random() < 0.3 else None)) for op, p, fin in frames)
    stream += R.encode(R.BINARY, SENT)
    mode = rng.choice(["recv_frame", "recv_data_frame", "recv_data", "recv", "recv_data_frame_cf", "next", "iter", "mixed", "mixed"])
    cf = mode.endswith("_cf")
    name = mode.replace("_cf", "")
    script = [(name, cf)] * (len(frames) + 2)
    if mode == "mixed":
        # one connection read in several message-level styles, call by call (a data-only reader here, a control-frame-aware one
        # there; recv_frame() is a different layer - it bypasses the reassembly - and is not mixed in)
        script = [rng.choice([("recv_data_frame", True), ("recv_data_frame", False), ("recv_data", True), ("recv_data", False), ("recv", False), ("next", False)])
                  for _ in range(len(frames) + 2)]
    cuts = rng.choice([None, random_cuts(rng, len(stream), 3), random_cuts(rng, len(stream), 30)])
    judge(res, W, stream, script, cuts, "eof", {}, ("multi", mode, len(frames)), expect_sentinel=True)
    res.count("multi_mode:" + mode)


def judge(res, W, stream, script, cuts, ending, ws_kwargs, tag, expect_sentinel):
    segs = None
    if cuts:
        segs = [stream[a:b] for a, b in zip([0] + cuts, cuts + [len(stream)])]
    pred, model = M.predict(stream, script, ending=ending)
    obs = H.run_recv_script(stream, script, segs=segs, ending=ending, ws_kwargs=ws_kwargs)
    issues, judged, unj = M.compare(pred, obs)
    from ..core import h64
    nfr = len(R.decode_all(stream)[0])
    res.case((h64(stream), tuple(cuts or ()), tuple(script[:1]), tag[0]), nontrivial=nfr >= 2 and judged >= 1)
    res.count("frames_compared", judged)
    case = {"tag": tag, "stream": stream, "cuts": cuts, "script": script[0], "ending": ending}
    for kind, detail, fields in issues:
        res.violation(kind, f"{tag}: {detail}", case, **fields)
    # consumed-offset monitor and sentinel
    for p, o in zip(pred, obs["trace"]):
        if o["out"][0] != "ret":
            continue
        if o["consumed"] < p["pos"]:
            res.violation("under-read", f"{tag}: call returned after consuming {o['consumed']} bytes, frame ends at {p['pos']}", case)
        elif o["consumed"] == p["pos"]:
            res.count("offset_exact")
        else:
            res.count("offset_read_ahead")
    if expect_sentinel and not issues:
        got = [o for o in obs["trace"] if o["out"][0] == "ret" and SENT in (o["out"][1] if isinstance(o["out"][1], tuple) else ())]
        if got:
            res.count("sentinel_ok")
        else:
            res.violation("sentinel-lost", f"{tag}: sentinel frame behind the stream was not delivered intact", case)
    res.sample(case, cap=3)
