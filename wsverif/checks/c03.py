"""C03 - what the caller observes is a function of the server bytes, not of
their segmentation; receive timeouts are resumable."""
from __future__ import annotations

import itertools
import random

from .. import harness as H
from .. import monitors as M
from ..ref import rfc6455 as R
from ..sim import net

SHARDS = {"quick": 16, "thorough": 16}
META = {
    "level": "fault_enumeration",
    "technique": "runtime monitoring with fault injection: the same server byte stream is replayed under enumerated segmentations and injected receive timeouts; the observed call trace (values, exceptions, pongs/close replies written) must equal the reference model's prediction for the unsegmented stream",
    "claim": "For each generated stream (handshake response followed by single-frame, fragmented, control, 16-bit-length and optionally one illegal frame) the trace observed by a fixed client script was identical to the reference prediction under: byte-by-byte delivery, one chunk, every single cut and every pair of cuts over the whole stream including the HTTP head and the head/frame junction, all 2^(n-1) partitions of short frame parts (n<=12 quick, n<=16 thorough), random partitions of long ones, and timeouts injected at every chunk boundary with multiplicity 1-3 and random multi-position plans; after every timeout the connection was still connected and the transport open, and the bytes consumed at the end equalled the stream length.",
    "trusted": "reference client model (wsverif/ref/client_model.py); simulated socket delivers at most one segment per recv() and raises socket.timeout where a timeout is injected",
    "rule": "case = (stream, segmentation plan, timeout plan, script); distinct by their hash; non-trivial when the plan has >= 1 cut or timeout and the stream has >= 2 frames",
    "exhaustive": {"quick": False, "thorough": False},
    "exhaustive_space": {"quick": "all partitions of frame parts up to 12 bytes; all single cuts over whole streams; all single timeout positions",
                         "thorough": "all partitions of frame parts up to 16 bytes; all single cuts and all pairs of cuts over whole streams; all single/double timeout positions"},
    "bounds": "exhaustive partitions only for frame parts <= 16 bytes; timeouts are injected in the frame phase only (a timeout during the opening handshake aborts connect() by design); the EAGAIN/SSLWantRead+select branch of the transport read is driven at every byte position (spurious, and followed by a gap longer than the socket timeout)",
    "required_counters": ["segmentations_run", "timeouts_injected", "head_cut_runs"],
    "assumptions": [],
}
META["claim"] += " " + 'Also: timeouts (single, double, pairs) before each of the first 16 bytes of frames with 16- and 64-bit lengths; the EAGAIN/SSLWantRead branch of the transport read at every byte position (spurious, and followed by a real gap); non-blocking sockets (timeout 0) with would-block retried; and, on real TLS over loopback, frames sharing a TLS record with the handshake response / a record ending inside a frame.'
META["claim"] += " " + 'Round 3b: payloads of 16385 / 40000 / 65536 bytes with timeouts and would-block after the first chunk(s).'
META["claim"] += " " + 'Round 4: non-blocking runs also over a TLS transport (SSLWantReadError instead of EAGAIN); EAGAIN runs in a process holding more than 1024 descriptors; ambient conditions drawn per connection.'
META["claim"] += " " + "Round 5: timeouts after the client's own send_close() (it keeps receiving); two connections read by two threads with descriptors non-blocking at the OS level."
META["claim"] += " " + 'Rounds 6-7: LF-only responses, payloads trickled in more than 16384 reads, zero lengths in the long forms; the same object connected again after its first connection was cut at every byte of a mixed stream (end of stream, reset, timeout then shutdown()/close()); slow traffic on direct and proxied connections with and without http_proxy_timeout and a timeout of their own.'
META["claim"] += " " + 'Round 8: interruptions that are not Exceptions (KeyboardInterrupt family) injected where timeouts were; 32 MiB frames arriving in instalments with timeouts; real TCP (library-made socket) with the answer cut at every line end of the response.'

CALLS = [("recv", False), ("recv_data_frame", True), ("recv_data", False), ("recv_data_frame", False), ("recv_frame", False)]


def short_streams():
    """frame parts of at most 12 / 16 bytes"""
    S = []
    S.append(("ping+text", R.encode(R.PING, b"p") + R.encode(R.TEXT, b"hi") + R.encode(R.CLOSE, b"")))          # 3+4+2 = 9
    S.append(("frag", R.encode(R.TEXT, b"a", fin=0) + R.encode(R.PING, b"") + R.encode(R.CONT, b"b") + R.encode(R.BINARY, b"")))  # 3+2+3+2 = 10
    S.append(("close-code", R.encode(R.BINARY, b"\x00\xff") + R.encode(R.CLOSE, b"\x03\xe8ok")))                 # 4+6 = 10
    S.append(("illegal-last", R.encode(R.TEXT, b"ok") + R.encode(R.PONG, b"z") + bytes([0x83, 0x00])))          # 4+3+2 = 9 (opcode 3)
    S.append(("masked", R.encode(R.TEXT, b"m", key=b"\x01\x02\x03\x04") + R.encode(R.PING, b"xy")))             # 7+4 = 11
    S.append(("utf8-split", R.encode(R.TEXT, b"\xe2\x82", fin=0) + R.encode(R.CONT, b"\xac") + R.encode(R.BINARY, b"S")))  # 4+3+3 = 10
    S.append(("long16", R.encode(R.BINARY, b"q" * 10, len_class=16) + R.encode(R.PING, b"")))  # non-minimal: not judged -> replaced below
    S[-1] = ("three-msgs", R.encode(R.TEXT, b"1") + R.encode(R.BINARY, b"2") + R.encode(R.TEXT, b"3") + R.encode(R.PING, b"4") + R.encode(R.TEXT, b""))  # 3*4+2 = 14
    S.append(("frag3+pings", R.encode(R.BINARY, b"", fin=0) + R.encode(R.PING, b"a") + R.encode(R.CONT, b"x", fin=0) + R.encode(R.PING, b"b") + R.encode(R.CONT, b"") + R.encode(R.CLOSE, b"")))  # 2+3+3+3+2+2=15
    return S


def long_stream(rng):
    parts = []
    in_msg = False
    for _ in range(rng.randrange(3, 10)):
        r = rng.random()
        if r < 0.25:
            parts.append(R.encode(rng.choice([R.PING, R.PONG]), rng.randbytes(rng.choice([0, 3, 125]))))
        else:
            fin = rng.randrange(2)
            op = R.CONT if in_msg else rng.choice([R.TEXT, R.BINARY])
            n = rng.choice([0, 1, 7, 125, 126, 300, 70000 if rng.random() < 0.05 else 200])
            parts.append(R.encode(op, bytes(rng.randrange(0x20, 0x7f) for _ in range(n)), fin=fin, key=rng.randbytes(4) if rng.random() < 0.2 else None))
            in_msg = not fin
    if in_msg:
        parts.append(R.encode(R.CONT, b"!", fin=1))
    tail = rng.random()
    if tail < 0.3:
        parts.append(R.encode(R.CLOSE, b"\x03\xe9bye"))
    elif tail < 0.45:
        parts.append(bytes([0xC1, 0x01, 0x41]))  # rsv set: illegal last frame
    else:
        parts.append(R.encode(R.BINARY, b"SENT"))
    return b"".join(parts)


def partitions(n, mask):
    """cut positions of the partition encoded by bitmask over n-1 gaps"""
    return [i + 1 for i in range(n - 1) if mask >> i & 1]


def run(res, tier, seed, shard, nshards):
    W = H.ws()
    rng = random.Random((seed << 8) ^ shard ^ 0xC03)
    maxn = 12 if tier == "quick" else 16
    jobs = []
    for name, st in short_streams():
        n = len(st)
        if n > maxn:
            continue
        for ci, call in enumerate(CALLS):
            if tier == "quick" and ci > 1:
                continue
            jobs.append(("parts", name, st, call))
            jobs.append(("timeouts", name, st, call))
            jobs.append(("eagain", name, st, call))
            jobs.append(("nonblocking", name, st, call))
        jobs.append(("headcuts", name, st, CALLS[0]))
        jobs.append(("headcuts", name, st, CALLS[1]))
    for i in range(40 if tier == "quick" else 400):
        jobs.append(("long", i))
    ext = [("len16", R.encode(R.BINARY, bytes(range(126)) ) + R.encode(R.TEXT, b"after")),
           ("len16-masked", R.encode(R.TEXT, b"x" * 300, key=b"\x11\x22\x33\x44") + R.encode(R.PING, b"p") + R.encode(R.TEXT, b"after")),
           ("len64", R.encode(R.BINARY, b"\x5a" * 65536) + R.encode(R.TEXT, b"after")),
           ("len64-masked-frag", R.encode(R.BINARY, b"q" * 70001, fin=0, key=b"\x01\x02\x03\x04") + R.encode(R.CONT, b"tail") + R.encode(R.TEXT, b"after"))]
    # zero / tiny payloads spelled with the long length forms (a sender may not, a receiver meets them all the same), masked and not
    ext += [("zero-as-len16-masked", bytes([0x81, 0xFE, 0, 0, 9, 8, 7, 6]) + R.encode(R.TEXT, b"hello")),
            ("zero-as-len64-masked", bytes([0x82, 0xFF] + [0] * 8 + [1, 2, 3, 4]) + R.encode(R.TEXT, b"hello")),
            ("zero-as-len16", bytes([0x81, 0x7E, 0, 0]) + R.encode(R.TEXT, b"hello")),
            ("three-as-len64-masked", bytes([0x82, 0xFF] + [0] * 7 + [3, 0, 0, 0, 0]) + b"abc" + R.encode(R.TEXT, b"hello"))]
    for name, st in ext:
        for call in CALLS[:3]:
            jobs.append(("hdr-timeouts", name, st, call))
    # one payload that arrives in more than 16384 separate reads (a transport that trickles single bytes), a timeout late in it
    jobs.append(("trickle", "trickle17000", R.encode(R.BINARY, bytes(i % 249 for i in range(17000))) + R.encode(R.TEXT, b"after"), CALLS[0]))
    jobs.append(("trickle", "trickle33100-masked", R.encode(R.BINARY, bytes(i % 247 for i in range(33100)), key=b"\x05\x06\x07\x08") + R.encode(R.TEXT, b"after"), CALLS[1]))
    big = [("big16385", R.encode(R.BINARY, bytes(i % 251 for i in range(16385))) + R.encode(R.TEXT, b"after")),
           ("big40000-masked", R.encode(R.BINARY, bytes(i % 253 for i in range(40000)), key=b"\x0a\x0b\x0c\x0d") + R.encode(R.PING, b"p") + R.encode(R.TEXT, b"after")),
           ("big65536-frag", R.encode(R.TEXT, b"z" * 65536, fin=0) + R.encode(R.CONT, b"tail") + R.encode(R.TEXT, b"after"))]
    for name, st in big:
        for call in CALLS[:2]:
            jobs.append(("payload-timeouts", name, st, call))

    def scen():
        for ji, job in enumerate(jobs):
            if job[0] == "parts":
                _, name, st, call = job
                n = len(st)
                for mask in range(1 << (n - 1)):
                    if (mask + ji) % nshards != shard:
                        continue
                    cuts = partitions(n, mask)
                    one(res, W, st, call, cuts, None, None, (name, "parts"))
            elif job[0] == "timeouts":
                _, name, st, call = job
                n = len(st)
                k = 0
                # byte-wise delivery with timeouts at every single position (mult 1..3) and all pairs of positions
                for pos in range(0, n):
                    for mult in (1, 2, 3):
                        k += 1
                        if (k + ji) % nshards == shard:
                            # every fourth run after the client's own send_close(): it keeps receiving, timeouts are as harmless as before
                            one(res, W, st, call, list(range(1, n)), {pos: mult}, None, (name, "timeout1" + ("-halfclosed" if k % 4 == 0 else "")), half_closed=(k % 4 == 0))
                if tier == "thorough":
                    for a, b in itertools.combinations(range(0, n), 2):
                        k += 1
                        if (k + ji) % nshards == shard:
                            one(res, W, st, call, list(range(1, n)), {a: 1, b: 2}, None, (name, "timeout2"))
                # coarse segmentation + timeouts
                for _ in range(6):
                    k += 1
                    if (k + ji) % nshards == shard:
                        cuts = sorted({rng.randrange(1, n) for _ in range(3)})
                        plan = {rng.randrange(0, len(cuts) + 1): rng.randrange(1, 4) for _ in range(2)}
                        one(res, W, st, call, cuts, plan, None, (name, "timeout-rand" + ("-halfclosed" if k % 2 else "")), half_closed=bool(k % 2))
            elif job[0] == "nonblocking":
                # socket in non-blocking mode (timeout 0): the stream arrives in two or three instalments; a read that finds
                # nothing raises the transport's would-block error and is simply repeated later
                _, name, st, call = job
                n = len(st)
                k = 0
                for a in range(1, n):
                    k += 1
                    if (k + ji) % nshards == shard:
                        one(res, W, st, call, [a], None, None, (name, "nonblocking-1" + ("-tls" if k % 2 else "")), pauses=True, tls=bool(k % 2))
                for a, b in itertools.combinations(range(1, n), 2):
                    k += 1
                    if tier == "quick" and k % 4:
                        continue
                    if (k + ji) % nshards == shard:
                        one(res, W, st, call, [a, b], None, None, (name, "nonblocking-2" + ("-tls" if k % 3 == 0 else "")), pauses=True, tls=(k % 3 == 0))
            elif job[0] == "hdr-timeouts":
                # byte-wise delivery of the first 16 bytes (header, extended length, mask key, first payload bytes), the
                # rest in one piece; a timeout (multiplicity 1-2) before every one of those bytes, and pairs of positions
                _, name, st, call = job
                k = 0
                head = list(range(1, 17))
                for pos in range(0, 17):
                    for mult in (1, 2):
                        k += 1
                        if (k + ji) % nshards == shard:
                            one(res, W, st, call, head, {pos: mult}, None, (name, "hdr-timeout1"))
                for a, b in itertools.combinations(range(0, 17), 2):
                    k += 1
                    if tier == "quick" and k % 3:
                        continue
                    if (k + ji) % nshards == shard:
                        one(res, W, st, call, head, {a: 1, b: 1}, None, (name, "hdr-timeout2"))
            elif job[0] == "trickle":
                _, name, st, call = job
                n = len(st)
                for ti, pos in enumerate([16300, 16390, 16500, 16999, 32760, 32790, 33000]):
                    if pos >= n - 12 or (ti + ji) % nshards != shard:
                        continue
                    one(res, W, st, call, list(range(1, n)), {pos: 1}, None, (name, "trickle-timeout"))
                    res.count("payloads_in_more_than_16384_reads")
            elif job[0] == "payload-timeouts":
                # the payload arrives in pieces (cut at and around multiples of the 16384-byte read size and at random places) and
                # a timeout / would-block strikes before a later piece: nothing read so far may be lost
                _, name, st, call = job
                n = len(st)
                places = sorted({x for x in (10, 14, 16384, 16390, 16398, 20000, 32768, 32782, n - 20) if 0 < x < n} | {rng.randrange(20, n - 10) for _ in range(3)})
                k = 0
                for pi in range(1, len(places) + 1):
                    for mode in ("timeout", "nonblocking", "eagain"):
                        k += 1
                        if (k + ji) % nshards != shard:
                            continue
                        if mode == "timeout":
                            one(res, W, st, call, places, {pi: 1}, None, (name, "payload-timeout"))
                        elif mode == "nonblocking":
                            one(res, W, st, call, places[max(0, pi - 2):pi], None, None, (name, "payload-nonblocking" + ("-tls" if pi % 2 else "")), pauses=True, tls=bool(pi % 2))
                        else:
                            one(res, W, st, call, places, None, None, (name, "payload-eagain"), eagain=(pi, "then-gap"))
            elif job[0] == "eagain":
                # the EAGAIN / SSLWantRead branch of the transport read: spurious (data follows at once) and followed by
                # a real gap longer than the socket timeout (= a receive timeout at that byte position)
                _, name, st, call = job
                n = len(st)
                k = 0
                for pos in range(0, n):
                    for variant in ("spurious", "then-gap"):
                        k += 1
                        if (k + ji) % nshards == shard:
                            # every third run in a process that already holds more than a thousand descriptors
                            one(res, W, st, call, list(range(1, n)), None, None, (name, "eagain-" + variant), eagain=(pos, variant), high_fd=(k % 3 == 0))
            elif job[0] == "headcuts":
                _, name, st, call = job
                # whole stream = response (approx 129 bytes) + frames; positions are enumerated inside `one`
                total = 129 + len(st)
                k = 0
                for a in range(1, total):
                    k += 1
                    if (k + ji) % nshards == shard:
                        # every third run: a server that ends its header lines with a bare LF
                        one(res, W, st, call, None, None, [a], (name, "headcut1" + ("-lf" if k % 3 == 0 else "")), lf_only=(k % 3 == 0))
                pairs = itertools.combinations(range(1, total), 2)
                for a, b in pairs:
                    k += 1
                    if tier == "quick" and k % 23:
                        continue
                    if (k // (23 if tier == "quick" else 1) + ji) % nshards == shard:
                        one(res, W, st, call, None, None, [a, b], (name, "headcut2"))
                if ji % nshards == shard:
                    one(res, W, st, call, None, None, list(range(1, total)), (name, "head-bytewise"))
            else:
                if ji % nshards != shard:
                    continue
                st = long_stream(rng)
                call = rng.choice(CALLS)
                n = len(st)
                for plan_i in range(8):
                    if plan_i == 0:
                        cuts = None
                    elif plan_i == 1 and n < 3000:
                        cuts = list(range(1, n))
                    else:
                        cuts = sorted({rng.randrange(1, n) for _ in range(rng.choice([1, 2, 5, 20, 100]))})
                    tplan = None
                    if plan_i >= 4 and cuts:
                        tplan = {rng.randrange(0, len(cuts) + 1): rng.randrange(1, 4) for _ in range(rng.randrange(1, 5))}
                    one(res, W, st, call, cuts, tplan, None, ("long", "rand"))
                one(res, W, st, call, None, None, sorted({rng.randrange(1, 129 + n) for _ in range(rng.choice([1, 3, 10]))}), ("long", "headcut-rand"))

    with H.ambient((seed, shard, "C03"), res):
        H.in_sim(scen, watchdog=3000)
    # two connections read by two threads, both descriptors non-blocking at the OS level (every read that finds nothing goes through
    # the would-block branch and waits there): what one connection delivers does not depend on the other's traffic
    if shard == 2 % nshards:
        for i in range(12 if tier == "quick" else 200):
            two_connections_case(res, W, random.Random((seed, i).__repr__()), i)
    # the same object connected a second time after its first connection was cut anywhere inside a frame or a message: what the
    # second connection delivers is a function of the second server's bytes only
    def reuse():
        for i in range(150 if tier == "quick" else 2500):
            if i % nshards == shard:
                reused_object_case(res, W, random.Random((seed, "reuse", i).__repr__()), i)
    H.in_sim(reuse, watchdog=600)
    # slow legal traffic on connections set up in other ways (through an HTTP CONNECT proxy, with its own proxy timeout; with a timeout
    # given to connect() only): pauses shorter than the connection's own timeout - or any pause when it has none - lose nothing
    def slow():
        for i in range(24 if tier == "quick" else 400):
            if i % nshards == shard:
                slow_setup_case(res, W, random.Random((seed, "slow", i).__repr__()), i)
    H.in_sim(slow, watchdog=600)
    if shard == 0:
        real_tls_coalescing(res, W)
    if shard == 5 % nshards:
        real_tcp_head_cuts(res, W, tier)
    # frames of tens of megabytes whose payload arrives in two or three instalments with receive timeouts in between
    sizes = [(1 << 25) + 7] if tier == "quick" else [(1 << 24) + 1, (1 << 25), (1 << 25) + 7, (1 << 26) + 3]
    for si, size in enumerate(sizes):
        if (6 + si) % nshards == shard:
            H.in_sim(lambda size=size: huge_frame_timeout_case(res, W, size), watchdog=600)


def huge_frame_timeout_case(res, W, size):
    import hashlib
    body = (bytes(range(256)) * (size // 256 + 1))[:size]
    stream = R.encode(R.BINARY, body) + R.encode(R.TEXT, b"after")
    w, conn, peer = H.connected_ws(timeout=1)
    cuts = [size // 3, size // 3 + 5, (2 * size) // 3 + 11]
    pieces = [stream[a:b] for a, b in zip([0] + cuts, cuts + [len(stream)])]
    got = []
    timeouts = 0
    case = {"gen": "huge-frame-timeouts", "payload_bytes": size, "instalments": [len(p) for p in pieces]}
    res.case(("huge-frame", size), nontrivial=True)
    res.count("huge_frames_with_timeouts")
    for pi, piece in enumerate(pieces):
        conn.deliver(piece)
        for _ in range(3):
            try:
                v = w.recv()
                got.append(v)
            except W.WebSocketTimeoutException:
                timeouts += 1
                break
            except Exception as e:  # noqa
                res.violation("segmentation-dependent:unexpected-exception", f"a {size}-byte frame arriving in {len(pieces)} instalments with receive timeouts in between: "
                              f"{type(e).__name__}: {e} (after {timeouts} timeouts, {len(got)} messages)", case, seg_kind="huge-frame")
                return
            if len(got) == 2:
                break
    ok = len(got) == 2 and isinstance(got[0], bytes) and len(got[0]) == size and hashlib.sha1(got[0]).digest() == hashlib.sha1(body).digest() and got[1] == "after"
    if not ok:
        desc = [(type(g).__name__, len(g), (g[:8] if isinstance(g, bytes) else g[:8])) for g in got]
        res.violation("segmentation-dependent:value-mismatch", f"a {size}-byte frame arriving in {len(pieces)} instalments with {timeouts} receive timeouts in between: delivered {desc}, "
                      f"expected the {size} payload bytes and then 'after'", case, seg_kind="huge-frame")
    w.shutdown()


_pred_cache = {}


def reused_object_case(res, W, rng, i):
    fire = rng.random() < 0.25
    w, conn, peer = H.connected_ws(timeout=1, ws_kwargs={"fire_cont_frame": True} if fire else None)
    first = b"".join([R.encode(R.TEXT, b"one"), R.encode(R.TEXT, b"fr", fin=0), R.encode(R.PING, b"p"), R.encode(R.CONT, b"ag", fin=0),
                      R.encode(R.CONT, b"ment"), R.encode(R.BINARY, bytes(range(200))), R.encode(R.TEXT, "h\u00e9".encode())])
    k = i % (len(first) + 1) if i < 2 * len(first) else rng.randrange(0, len(first) + 1)
    how = ["eof", "timeout-shutdown", "timeout-close", "reset"][i % 4]
    if k:
        conn.deliver(first[:k])
    if how == "eof":
        conn.peer_close()
    elif how == "reset":
        conn.peer_reset() if hasattr(conn, "peer_reset") else conn.peer_close()
    calls1 = 0
    for _ in range(12):
        try:
            w.recv_data_frame(True) if fire else w.recv()
            calls1 += 1
        except Exception:  # noqa
            break
    try:
        if how == "timeout-shutdown":
            w.shutdown()
        elif how == "timeout-close":
            w.close(timeout=0.1)
    except Exception:  # noqa
        pass
    so2, conn2 = net.pair()
    peer2 = H.HandshakePeer(conn2)
    case = {"gen": "reused-object", "first_stream_cut_at": k, "of": len(first), "first_connection_ended_by": how, "fire_cont_frame": fire}
    res.case(("reuse", k, how, fire), nontrivial=0 < k < len(first))
    res.count("reused_object_cases")
    try:
        w.connect("ws://sim.test/again", socket=so2)
    except Exception as x:  # noqa
        res.violation("segmentation-dependent:unexpected-exception", f"connect() again after the first connection was cut at byte {k} ({how}): {type(x).__name__}: {x}", case, seg_kind="reused-object")
        return
    so2.settimeout(1)
    second = [(R.TEXT, b"x1", 1), (R.TEXT, b"y", 0), (R.CONT, b"z", 1), (R.BINARY, b"\x00\xff", 1)]
    conn2.deliver(b"".join(R.encode(op, pl, fin=fin) for op, pl, fin in second))
    conn2.peer_close()
    got = []
    for _ in range(6):
        try:
            if fire:
                op, fr = w.recv_data_frame(True)
                got.append(("value", (op, bytes(fr.data), fr.fin)))
            else:
                got.append(("value", w.recv()))
        except Exception as x:  # noqa
            got.append(("exc", type(x).__name__))
            break
    if fire:
        exp = [("value", (op, pl, fin)) for op, pl, fin in second] + [("exc", "WebSocketConnectionClosedException")]
    else:
        exp = [("value", "x1"), ("value", "yz"), ("value", b"\x00\xff"), ("exc", "WebSocketConnectionClosedException")]
    if got != exp:
        res.violation("segmentation-dependent:value-mismatch", f"the same object connected again after its first connection was cut at byte {k} of {len(first)} ({how}, "
                      f"{calls1} receive calls had returned): the second connection delivered {got}, its server sent {exp}", case, seg_kind="reused-object")
    try:
        w.shutdown()
    except Exception:  # noqa
        pass


def slow_setup_case(res, W, rng, i):
    from ..sim import sched
    S = sched.CURRENT
    H.reset_process_state()
    via = ["proxy", "proxy", "direct"][i % 3]
    timeout = [None, None, 6.0, 3.0][(i // 3) % 4]
    ptimeout = [0.5, 1.0, None, 0.2][(i // 12) % 4]
    net_ = H.make_net()
    conns = []
    kw = {}
    if via == "proxy":
        net_.add_host("proxy.test", ["203.0.113.9"])
        net_.listen("203.0.113.9", 3128, ("accept", lambda c: (conns.append(c), H.TunnelPeer(c))))
        kw = dict(http_proxy_host="proxy.test", http_proxy_port=3128, proxy_type="http")
    else:
        net_.add_host("target.test", ["198.51.100.7"])
        net_.listen("198.51.100.7", 8123, ("accept", lambda c: (conns.append(c), H.HandshakePeer(c))))
    if ptimeout is not None:
        kw["http_proxy_timeout"] = ptimeout
    case = {"gen": "slow-setup", "via": via, "timeout": timeout, "http_proxy_timeout": ptimeout}
    res.case(("slow-setup", via, timeout, ptimeout, i), nontrivial=True)
    res.count("slow_setup_cases")
    try:
        w = W.create_connection("ws://target.test:8123/", timeout=timeout, **kw)
    except Exception as x:  # noqa
        res.violation("segmentation-dependent:unexpected-exception", f"connecting ({via}, timeout {timeout}, http_proxy_timeout {ptimeout}): {type(x).__name__}: {x}", case, seg_kind="slow-setup")
        return
    conn = conns[0]
    gap_cap = (timeout or 9.0) * 0.8
    msgs = []
    t = S.now
    for k in range(3):
        body = f"m{k}".encode() * (1 + k)
        msgs.append(body.decode())
        fr = R.encode(R.TEXT, body)
        cut = rng.randrange(1, len(fr))
        t += round(rng.uniform(0.3, gap_cap), 2)
        S.at(t, conn.deliver, fr[:cut])
        t += round(rng.uniform(0.3, gap_cap), 2)
        S.at(t, conn.deliver, fr[cut:])
    got = []
    for _ in msgs:
        try:
            got.append(("value", w.recv()))
        except Exception as x:  # noqa
            got.append(("exc", type(x).__name__ + ": " + str(x)[:60]))
            break
    if got != [("value", m) for m in msgs]:
        res.violation("segmentation-dependent:unexpected-exception" if any(k == "exc" for k, _ in got) else "segmentation-dependent:value-mismatch",
                      f"{via} connection with timeout {timeout} (http_proxy_timeout {ptimeout}), pieces arriving with pauses below {gap_cap:.1f} s: delivered {got}, "
                      f"the server sent {msgs}", case, seg_kind="slow-setup")
    try:
        w.shutdown()
    except Exception:  # noqa
        pass


def two_connections_case(res, W, rng, i):
    from ..sim import sched
    def times(lo, hi, n):
        # arrival times of one connection's messages, at least 0.3 s apart (each message arrives in two pieces 0.05 s apart)
        ts = sorted(round(rng.uniform(lo, hi), 2) for _ in range(n))
        for i in range(1, len(ts)):
            ts[i] = round(max(ts[i], ts[i - 1] + 0.3), 2)
        return ts
    t1 = times(0.5, 4.0, rng.randrange(1, 3))
    t2 = times(0.2, 4.5, rng.randrange(1, 4))
    timeout = rng.choice([None, 6.0])
    out = {}

    def scen():
        S = sched.CURRENT
        conns = []
        for times, tag in ((t1, "a"), (t2, "b")):
            w, conn, peer = H.connected_ws(timeout=timeout)
            w.sock.os_nonblocking = True
            msgs = []
            for k, t in enumerate(sorted(times)):
                body = f"{tag}{k}"
                msgs.append(body)
                fr = R.encode(R.TEXT, body.encode())
                cut = rng.randrange(1, len(fr))
                S.at(t, conn.deliver, fr[:cut])
                S.at(t + 0.05, conn.deliver, fr[cut:])
            conns.append((w, msgs))
        got = {0: [], 1: []}

        def reader(ix):
            w, msgs = conns[ix]
            for _ in msgs:
                try:
                    got[ix].append(("value", w.recv()))
                except BaseException as e:  # noqa
                    if isinstance(e, sched.SimAbort):
                        raise
                    got[ix].append(("exc", e))
                    return
        actors = [S.spawn(reader, ix, name=f"reader{ix}") for ix in (0, 1)]
        S.block(lambda: all(a.state == sched.DONE for a in actors), None, why="join")
        out["got"] = got
        out["exp"] = {0: conns[0][1], 1: conns[1][1]}

    S = sched.Sched(horizon=60, watchdog=60)
    case = {"gen": "two-connections-os-nonblocking", "arrival_times_1": t1, "arrival_times_2": t2, "timeout": timeout}
    res.case(("two-conn", tuple(t1), tuple(t2), timeout), nontrivial=True)
    res.count("two_connection_runs")
    try:
        S.run(scen)
    except sched.SimFailure as e:
        if isinstance(e, sched.WatchdogExpired):
            res.inconc("two-connections case: watchdog")
        else:
            res.violation("segmentation-dependent:hang", f"two connections read by two threads (OS-level non-blocking descriptors): {type(e).__name__}: {e}", case, seg_kind="two-connections")
        return
    for ix in (0, 1):
        exp = [("value", m) for m in out["exp"][ix]]
        got = [(k, v if k == "value" else type(v).__name__ + ": " + str(v)[:60]) for k, v in out["got"][ix]]
        if got != exp:
            res.violation("segmentation-dependent:unexpected-exception" if any(k == "exc" for k, _ in got) else "segmentation-dependent:value-mismatch",
                          f"two connections read by two threads (OS-level non-blocking descriptors, timeout {timeout}): connection {ix + 1} delivered {got}, "
                          f"its server sent {out['exp'][ix]} (the other connection's data arrived at {t2 if ix == 0 else t1})", case, seg_kind="two-connections")
            return


def one(res, W, stream, call, cuts, tplan, head_cuts, tag, eagain=None, pauses=False, tls=False, high_fd=False, half_closed=False, lf_only=False):
    name, cf = call
    key = (stream, call)
    if key not in _pred_cache:
        nframes = len(R.decode_all(stream)[0])
        script = [(name, cf)] * (nframes + 2)
        _pred_cache[key] = (script,) + M.predict(stream, script, ending="eof")
    script, pred, model = _pred_cache[key]
    segs = None
    ntimeouts = 0
    interrupts = bool(tplan) and not tls and (len(stream) + len(cuts or ()) + sum(tplan)) % 4 == 0
    if interrupts:
        res.count("runs_with_interruptions_instead_of_timeouts")
    if head_cuts is None:
        cl = cuts or []
        chunks = [stream[a:b] for a, b in zip([0] + cl, cl + [len(stream)])]
        segs = []
        for i, ch in enumerate(chunks):
            if tplan and i in tplan:
                for _ in range(tplan[i]):
                    # a receive timeout - or, in a quarter of the runs, an interruption that is not an Exception (KeyboardInterrupt
                    # family): either way the application calls again and nothing may be lost
                    segs.append(("interrupt", None) if interrupts else (net.TIMEOUT, None))
                    ntimeouts += 1
            if eagain and i == eagain[0]:
                segs.append(("eagain", None))
                if eagain[1] == "double":
                    segs.append(("eagain", None))
                if eagain[1] == "then-gap":
                    segs.append(("pause", 7.5))  # longer than the 5 s socket timeout: the caller must see one timeout and resume
                    ntimeouts += 1
                res.count("eagain_injected")
            if pauses and i > 0:
                segs.append(("pause", 1.0))
            segs.append(ch)
        res.count("segmentations_run")
    else:
        res.count("head_cut_runs")
    if high_fd:
        net.SimSocket.fd_base = 1100
        res.count("runs_with_descriptor_numbers_above_1024")
    try:
        if half_closed and any(f.opcode == R.CLOSE for f in R.decode_all(stream)[0]):
            half_closed = False  # the reference model describes the open state; after a close frame the two differ
        if half_closed:
            res.count("runs_in_half_closed_state")
        if lf_only:
            res.count("responses_with_bare_lf_line_ends")
        obs = H.run_recv_script(stream, script, segs=segs, ending="eof", head_cuts=head_cuts, timeout=5, nonblocking=pauses, tls=tls, half_closed=half_closed, lf_only=lf_only)
    finally:
        net.SimSocket.fd_base = 10
    if tls:
        res.count("runs_on_tls_transport")
    if pauses:
        res.count("nonblocking_runs")
        res.count("wouldblocks_observed", obs["wouldblocks"])
    issues, judged, unj = M.compare(pred, obs)
    res.case((stream, call, tuple(cuts or ()), tuple(sorted((tplan or {}).items())), tuple(head_cuts or ()), eagain, pauses, tls, high_fd, half_closed, lf_only),
             nontrivial=bool(cuts or tplan or head_cuts))
    res.count("timeouts_injected", ntimeouts)
    res.count("timeouts_observed", obs["timeouts"])
    res.count("kind:" + tag[1])
    case = {"tag": tag, "stream": stream, "call": call, "cuts": cuts, "timeout_plan": tplan, "head_cuts": head_cuts, "eagain": eagain, "tls": tls, "high_fd": high_fd, "half_closed": half_closed}
    for kind, detail, fields in issues:
        res.violation("segmentation-dependent:" + kind, f"{tag}: {detail}", case, seg_kind=tag[1], **fields)
    if ntimeouts != obs["timeouts"] and not issues:
        res.violation("timeout-not-surfaced", f"{tag}: injected {ntimeouts} timeouts, caller saw {obs['timeouts']}", case, seg_kind=tag[1])
    if obs["post_timeout_bad"]:
        res.violation("timeout-broke-connection", f"{tag}: after a receive timeout connected/closed = {obs['post_timeout_bad'][:2]}", case, seg_kind=tag[1])
    # conservation: everything delivered was consumed unless the script stopped at an error/close
    last = obs["trace"][-1]["out"] if obs["trace"] else None
    if last and last[0] == "exc" and last[1] == "closed" and not issues:
        if obs["conn"].consumed - obs["resp_len"] != len(stream):
            res.violation("bytes-lost", f"{tag}: consumed {obs['conn'].consumed - obs['resp_len']} of {len(stream)} stream bytes at EOF", case, seg_kind=tag[1])
        else:
            res.count("conservation_ok")
    if cuts and tplan:
        res.sample(case, cap=2)


def real_tcp_head_cuts(res, W, tier):
    """Real TCP on loopback, the socket created by the library itself: the server's answer (handshake response + two frames) arrives in
    two TCP segments cut at / next to every line end of the response (CR | LF included) - in thorough runs at every byte.  Same
    observations for every cut.  A deviation has to reproduce before it is reported (the kernel may coalesce segments)."""
    import socket
    import threading
    import time
    tail = R.encode(R.TEXT, b"hello") + R.encode(R.BINARY, b"\x00\xff")
    probe = H.response_101("x" * 24)
    n = len(probe)
    ends = [i for i in range(n) if probe[i:i + 2] == b"\r\n"]
    cuts = sorted({c for e in ends for c in (e, e + 1, e + 2)} | {1, n, n + 1, n + 3}) if tier == "quick" else list(range(1, n + len(tail)))
    for cut in cuts:
        for attempt in range(2):
            lsock = socket.socket()
            lsock.setsockopt(socket.SOL_SOCKET, socket.SO_REUSEADDR, 1)
            lsock.bind(("127.0.0.1", 0))
            lsock.listen(1)
            port = lsock.getsockname()[1]

            def server(lsock=lsock, cut=cut):
                try:
                    lsock.settimeout(10)
                    c, _ = lsock.accept()
                    c.setsockopt(socket.IPPROTO_TCP, socket.TCP_NODELAY, 1)
                    c.settimeout(10)
                    buf = b""
                    while b"\r\n\r\n" not in buf:
                        d = c.recv(4096)
                        if not d:
                            return
                        buf += d
                    data = H.response_101(H.request_key(buf) or "") + tail
                    c.sendall(data[:cut])
                    time.sleep(0.03)
                    c.sendall(data[cut:])
                    time.sleep(0.3)
                    c.close()
                except OSError:
                    pass
                finally:
                    lsock.close()
            threading.Thread(target=server, daemon=True).start()
            got = []
            try:
                w = W.create_connection(f"ws://127.0.0.1:{port}/", timeout=3)
                got.append(("value", w.recv()))
                got.append(("value", w.recv()))
                w.shutdown()
            except Exception as e:  # noqa
                got.append(("exc", type(e).__name__ + ": " + str(e)[:60]))
            res.count("real_tcp_head_cut_runs")
            if got == [("value", "hello"), ("value", b"\x00\xff")]:
                break
            if attempt == 1:
                where = "between CR and LF of a response line" if probe[cut - 1:cut + 1] == b"\r\n" else f"at byte {cut}"
                res.violation("segmentation-dependent:unexpected-exception" if got and got[-1][0] == "exc" else "segmentation-dependent:value-mismatch",
                              f"real TCP, the server's answer arriving in two segments cut {where}: the client observed {got}, expected 'hello' and a binary message",
                              {"gen": "real-tcp-head-cut", "cut": cut}, seg_kind="real-tcp-head-cut")


def real_tls_coalescing(res, W):
    """Real TLS on loopback: the first frames travel in the same TLS record as the handshake response (one send), in a
    separate record, or the record ends in the middle of a frame.  Same observations in all three shapes."""
    import shutil
    import time
    from .. import realtls
    frames = R.encode(R.TEXT, b"first") + R.encode(R.PING, b"pg") + R.encode(R.TEXT, b"second")
    try:
        d, P = realtls.minted("c03")
    except Exception as e:  # noqa
        res.notes["real_tls_coalescing"] = f"skipped: certificates could not be minted ({e})"
        return
    try:
        for shape in ("separate", "coalesced", "partial"):
          for attempt in range(3):
            def script(srv, conn, resp, shape=shape):
                if shape == "separate":
                    conn.sendall(resp)
                    time.sleep(0.2)
                    conn.sendall(frames)
                elif shape == "coalesced":
                    conn.sendall(resp + frames)
                else:
                    conn.sendall(resp + frames[:3])
                    time.sleep(0.2)
                    conn.sendall(frames[3:])
                srv.drain(conn, 1.0)
                conn.close()
            srv = realtls.ScriptedTLSServer(P["leaf-A-local"], script)
            srv.start()
            got, exc = [], None
            try:
                w = W.create_connection(f"wss://localhost:{srv.port}/", timeout=8, sslopt={"ca_certs": P["caA"]})
                got.append(w.recv())
                got.append(w.recv())
                time.sleep(0.1)
                w.shutdown()
            except Exception as e:  # noqa
                exc = e
            srv.join(12)
            pongs = [f.payload for f in R.decode_all(bytes(srv.client_bytes))[0] if f.opcode == R.PONG]
            case = {"tag": ("real-tls", shape), "delivery": shape}
            if isinstance(exc, (TimeoutError, W.WebSocketTimeoutException)) and shape == "separate":
                res.notes["real_tls_coalescing:" + shape] = "wall-clock timeout on the baseline shape: skipped"
                return
            ok = got == ["first", "second"] and pongs == [b"pg"]
            if ok or attempt == 2:
                # wall-clock runs: only a failure that reproduced three times in a row is reported
                res.case(("real-tls", shape), nontrivial=True)
                res.count("real_tls_runs")
                if not ok:
                    res.violation("segmentation-dependent:tls-record", f"real TLS, {shape} delivery (3 attempts): received {got}, pongs seen by the server {pongs}, exception {exc!r}",
                                  case, seg_kind="tls-record-" + shape)
                break
    finally:
        shutil.rmtree(d, ignore_errors=True)
