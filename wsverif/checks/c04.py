"""C04 - fragmented messages are reassembled in order, undisturbed by control
frames; per-fragment delivery returns each fragment individually."""
from __future__ import annotations

import itertools
import random

from .. import harness as H
from .. import monitors as M
from ..ref import rfc6455 as R

SHARDS = {"quick": 8, "thorough": 16}
META = {
    "level": "exploration",
    "technique": "runtime monitoring: values returned by recv()/recv_data()/recv_data_frame() compared with a reference message sequencer over an exhaustively enumerated small fragmentation space plus random large cases",
    "claim": "For every composition of payloads of 0..4 bytes into 1..4 fragments (empty fragments included), text and binary, with none / ping / pong+ping control frames in every gap (exhaustive for <= 3 fragments), sequences of 1-3 messages, per-fragment delivery off and on and UTF-8 validation on and off (text cut inside code points), plus random messages up to 64 KiB in up to 40 fragments, each message was delivered once with the first fragment's opcode and the in-order concatenation (or, per fragment, each fragment's own payload and FIN), in sending order.",
    "trusted": "reference sequencer wsverif/ref/rfc6455.py; simulated socket",
    "rule": "case = (messages with their compositions, gap control frames, mode flags, call); distinct by that tuple; non-trivial when some message has >= 2 fragments or a control frame lies between fragments",
    "exhaustive": {"quick": False, "thorough": False},
    "exhaustive_space": {"quick": "single message: payloads of 0..4 bytes x all compositions into <=3 fragments x {none,ping,pong+ping}^gaps (strided over modes)",
                         "thorough": "single message: payloads of 0..4 bytes x all compositions into <=4 fragments x {none,ping,pong+ping}^gaps x 4 flag modes"},
    "bounds": "payload <= 64 KiB, <= 40 fragments, <= 3 messages",
    "required_counters": ["messages_compared", "multi_fragment_cases"],
    "assumptions": [],
}
META["claim"] += " " + 'Also: two or three connections of one process, each in the middle of its own fragmented message, served alternately (reassembly state is per connection).'
META["claim"] += " " + "Round 3b: after send_close() the server's remaining messages (incl. empty ones cut into empty fragments, with pings in between) drained through recv / next / for / recv_data until its close frame; a WebSocketApp reassembly case."
META["claim"] += " " + "Round 4: texts with a leading / inner byte-order mark and other characters Python's text machinery treats specially; ambient conditions drawn per connection."
META["claim"] += " " + 'Rounds 6-7: failing automatic pongs between fragments; every API call made by another fresh thread; per-fragment delivery switched on with 1 instead of True.'
META["claim"] += " " + 'Round 8: messages of 1100 to 20000 (thorough: 70000) fragments with pings strewn in.'

TEXTS = ["", "a", "é", "€", "\U0001f600", "ab€"[:2] + "c", "aé", "\ufeff", "\ufeffa"]
MORE_TEXTS = TEXTS + H.TRICKY_TEXTS
BINS = [b"", b"\x00", b"\xff\xfe", b"\x80\x81\x82", b"\xc3\x28\xa0\xa1"]
GAPS = {"none": b"", "ping": None, "pongping": None}
CALLS = [("recv", False), ("recv_data", False), ("recv_data_frame", False), ("recv_data_frame", True), ("next", False), ("iter", False)]


def compositions(n, k):
    """all ways to write n as an ordered sum of k non-negative parts"""
    if k == 1:
        yield (n,)
        return
    for first in range(n + 1):
        for rest in compositions(n - first, k - 1):
            yield (first,) + rest


def gap_bytes(rng, g):
    if g == "none":
        return b""
    if g == "ping":
        return R.encode(R.PING, rng.randbytes(rng.randrange(0, 5)))
    return R.encode(R.PONG, rng.randbytes(2)) + R.encode(R.PING, b"")


def build_message(rng, op, payload, comp, gaps):
    """gaps: tuple of len(comp)+1 gap kinds (before first, between, after last)"""
    out = gap_bytes(rng, gaps[0])
    pos = 0
    for i, n in enumerate(comp):
        frag = payload[pos:pos + n]
        pos += n
        out += R.encode(op if i == 0 else R.CONT, frag, fin=1 if i == len(comp) - 1 else 0,
                        key=rng.randbytes(4) if rng.random() < 0.2 else None)
        out += gap_bytes(rng, gaps[i + 1])
    return out


def run(res, tier, seed, shard, nshards):
    W = H.ws()
    rng = random.Random((seed << 8) ^ shard ^ 0xC04)
    cases = []
    maxk = 3 if tier == "quick" else 4
    idx = 0
    for is_text, payloads in ((True, [t.encode() for t in TEXTS]), (False, BINS)):
        for payload in payloads:
            for k in range(1, maxk + 1):
                for comp in compositions(len(payload), k):
                    gap_opts = ["none", "ping", "pongping"]
                    gap_sets = itertools.product(gap_opts, repeat=k + 1) if k <= 3 else [tuple(rng.choice(gap_opts) for _ in range(k + 1)) for _ in range(12)]
                    for gaps in gap_sets:
                        idx += 1
                        if tier == "quick":
                            modes = [((idx >> 0) & 1, (idx >> 1) & 1)]
                        else:
                            modes = [(0, 0), (0, 1), (1, 0), (1, 1)]
                        for pf, skip in modes:
                            cases.append(("one", is_text, payload, comp, gaps, pf, skip))
    for i in range(400 if tier == "quick" else 40000):
        cases.append(("multi", i))
    for i in range(60 if tier == "quick" else 6000):
        cases.append(("large", i))
    for i in range(120 if tier == "quick" else 3000):
        cases.append(("two-connections", i))
    for i in range(150 if tier == "quick" else 3000):
        cases.append(("half-closed", i))
    for i in range(60 if tier == "quick" else 1500):
        cases.append(("pong-failure", i))

    def scen():
        for i, c in enumerate(cases):
            if i % nshards != shard:
                continue
            if c[0] == "one":
                _, is_text, payload, comp, gaps, pf, skip = c
                stream = build_message(rng, R.TEXT if is_text else R.BINARY, payload, comp, gaps) + R.encode(R.BINARY, b"SENT")
                call = CALLS[(i // nshards) % len(CALLS)]
                judge(res, W, stream, call, pf, skip, ("one", is_text, payload, comp, gaps), len(comp) >= 2 or any(g != "none" for g in gaps))
            elif c[0] == "half-closed":
                half_closed_case(res, W, rng)
            elif c[0] == "pong-failure":
                pong_failure_case(res, W, rng)
            elif c[0] == "two-connections":
                two_connections_case(res, W, rng)
            elif c[0] == "multi":
                nm = rng.randrange(2, 4)
                stream = b""
                frag = False
                for _ in range(nm):
                    is_text = rng.random() < 0.5
                    payload = rng.choice([t.encode() for t in MORE_TEXTS]) if is_text else rng.choice(BINS)
                    k = rng.randrange(1, 5)
                    comp = rng.choice(list(compositions(len(payload), k)))
                    gaps = tuple(rng.choice(["none", "none", "ping", "pongping"]) for _ in range(k + 1))
                    stream += build_message(rng, R.TEXT if is_text else R.BINARY, payload, comp, gaps)
                    frag = frag or k > 1
                stream += R.encode(R.BINARY, b"SENT")
                judge(res, W, stream, rng.choice(CALLS), rng.randrange(2), rng.randrange(2), ("multi", nm), True)
            else:
                n = rng.choice([1000, 4096, 16384, 65536, rng.randrange(1, 65536)])
                is_text = rng.random() < 0.5
                payload = ("".join(chr(rng.choice([rng.randrange(0x20, 0x7f), rng.randrange(0xa0, 0x800), rng.randrange(0x4e00, 0x9fff), rng.randrange(0x1f300, 0x1f600)])) for _ in range(n // 3)).encode()
                           if is_text else rng.randbytes(n))
                k = rng.randrange(2, 41)
                cuts = sorted(rng.randrange(0, len(payload) + 1) for _ in range(k - 1))
                comp = tuple(b - a for a, b in zip([0] + cuts, cuts + [len(payload)]))
                gaps = tuple(rng.choice(["none", "none", "none", "ping", "pongping"]) for _ in range(k + 1))
                stream = build_message(rng, R.TEXT if is_text else R.BINARY, payload, comp, gaps) + R.encode(R.BINARY, b"SENT")
                judge(res, W, stream, rng.choice(CALLS), rng.randrange(2), rng.randrange(2), ("large", is_text, len(payload), k), True, chunk=rng.choice([None, 1000, 7]))

    with H.ambient((seed, shard, "C04"), res):
        H.in_sim(scen, watchdog=3000)
    # one message cut into very many fragments (beyond 1024 and beyond 16384), with and without pings strewn in
    many = [(1100, 0), (1100, 7), (16500, 0), (20000, 501)] if tier == "quick" else [(1025, 0), (1100, 1), (4097, 0), (16385, 0), (16500, 13), (33000, 0), (70000, 997)]
    for mi, (nfrag, ping_every) in enumerate(many):
        if mi % nshards == shard:
            H.in_sim(lambda: many_fragments_case(res, W, rng, nfrag, ping_every), watchdog=900)


def many_fragments_case(res, W, rng, nfrag, ping_every):
    is_text = nfrag % 2 == 0
    unit = "\u00e9" if is_text else None
    parts = []
    body = bytearray()
    for i in range(nfrag):
        piece = (unit.encode() if is_text else bytes([i & 0xFF]))
        body += piece
        parts.append(R.encode((R.TEXT if is_text else R.BINARY) if i == 0 else R.CONT, piece, fin=1 if i == nfrag - 1 else 0))
        if ping_every and i % ping_every == ping_every - 1:
            parts.append(R.encode(R.PING, b"p%d" % i))
    stream = b"".join(parts) + R.encode(R.BINARY, b"SENT")
    w, conn, peer = H.connected_ws(after=stream, timeout=5)
    case = {"gen": "many-fragments", "fragments": nfrag, "ping_every": ping_every, "text": is_text}
    res.case(("many-fragments", nfrag, ping_every), nontrivial=True)
    res.count("many_fragment_messages")
    try:
        op, data = w.recv_data()
        op2, data2 = w.recv_data()
    except Exception as e:  # noqa
        res.violation("legal-rejected", f"a message of {nfrag} fragments ({'a ping after every %d' % ping_every if ping_every else 'no pings'}): {type(e).__name__}: {e}", case)
        return
    exp_op = R.TEXT if is_text else R.BINARY
    if op != exp_op or bytes(data) != bytes(body) or (op2, bytes(data2)) != (R.BINARY, b"SENT"):
        n = len(data)
        res.violation("value-mismatch", f"a message of {nfrag} fragments: delivered opcode {op} with {n} payload bytes (common prefix with what was sent: "
                      f"{bytes(data) == bytes(body[:n])}), expected opcode {exp_op} with {len(body)} bytes; then {(op2, bytes(data2)[:10])}", case)
    w.shutdown()


def judge(res, W, stream, call, pf, skip, tag, nontrivial, chunk=None):
    name, cf = call
    nframes = len(R.decode_all(stream)[0])
    script = [(name, cf)] * (nframes + 1)
    segs = None
    if chunk:
        segs = [stream[i:i + chunk] for i in range(0, len(stream), chunk)] if len(stream) // chunk < 3000 else None
    pred, model = M.predict(stream, script, ending="eof", per_fragment=bool(pf), validate_utf8=not skip)
    obs = H.run_recv_script(stream, script, segs=segs, ending="eof",
                            ws_kwargs={"fire_cont_frame": bool(pf), "skip_utf8_validation": bool(skip)})
    issues, judged, unj = M.compare(pred, obs, per_fragment=bool(pf))
    from ..core import h64
    res.case((h64(stream), call, pf, skip), nontrivial=nontrivial)
    res.count("messages_compared", judged)
    if nontrivial:
        res.count("multi_fragment_cases")
    res.count(f"mode:pf={pf}:skip={skip}")
    res.count(f"call:{name}:{cf}")
    if unj:
        res.count("unjudged:" + unj)
    case = {"tag": tag, "stream": stream, "call": call, "per_fragment": pf, "skip_utf8_validation": skip}
    for kind, detail, fields in issues:
        res.violation(kind, f"{tag} pf={pf} skip={skip}: {detail}", case, per_fragment=pf, skip=skip, **fields)
    if nontrivial:
        res.sample(case, cap=3)


def two_connections_case(res, W, rng):
    """Two (or three) WebSocket objects of one process, each in the middle of its own fragmented message, served
    alternately: reassembly state is per connection."""
    n = rng.choice([2, 2, 3])
    pf = rng.randrange(2)
    conns = []
    for ci in range(n):
        is_text = rng.random() < 0.5
        body = (f"conn{ci}-".encode() + bytes(rng.randrange(0x61, 0x7b) for _ in range(rng.randrange(1, 9)))) if is_text else b"C%d" % ci + rng.randbytes(rng.randrange(1, 9))
        k = rng.randrange(2, 5)
        cuts = sorted(rng.randrange(0, len(body) + 1) for _ in range(k - 1))
        comp = tuple(b - a for a, b in zip([0] + cuts, cuts + [len(body)]))
        # a ping after every fragment hands control back to the caller mid-message (control_frame=True)
        gaps = ("none",) + ("ping",) * k
        stream = build_message(rng, R.TEXT if is_text else R.BINARY, body, comp, gaps) + R.encode(R.BINARY, b"SENT%d" % ci)
        nframes = len(R.decode_all(stream)[0])
        script = [("recv_data_frame", True)] * (nframes + 1)
        pred, model = M.predict(stream, script, ending="eof", per_fragment=bool(pf))
        w, conn, peer = H.connected_ws(after=stream, ws_kwargs={"fire_cont_frame": bool(pf)}, timeout=2)
        conn.peer_close()
        conns.append(dict(w=w, conn=conn, peer=peer, stream=stream, pred=pred, trace=[], done=False, resp_len=len(peer.response_bytes)))
    # round-robin with random bursts
    while not all(c["done"] for c in conns):
        c = rng.choice([x for x in conns if not x["done"]])
        for _ in range(rng.randrange(1, 3)):
            before = len(c["peer"].client_stream)
            try:
                v = c["w"].recv_data_frame(True)
                out = ("ret", H.shape_value("recv_data_frame", v))
            except Exception as e:  # noqa
                out = ("exc", H.classify_exc(W, e), repr(e)[:120], H.repo_frame_of(e))
            written = bytes(c["peer"].client_stream[before:])
            frames, rest = R.decode_all(written)
            c["trace"].append({"call": "recv_data_frame", "cf": True, "out": out, "writes": [(f.opcode, f.payload, f.fin, f.masked, f.rsv) for f in frames],
                               "write_rest": len(written) - rest, "consumed": c["conn"].consumed - c["resp_len"]})
            if out[0] == "exc" or not c["w"].connected:
                c["done"] = True
                break
    from ..core import h64
    res.case(("two-connections", tuple(h64(c["stream"]) for c in conns), pf), nontrivial=True)
    res.count("two_connection_cases")
    res.count("multi_fragment_cases")
    for ci, c in enumerate(conns):
        issues, judged, unj = M.compare(c["pred"], {"trace": c["trace"]}, per_fragment=bool(pf))
        res.count("messages_compared", judged)
        case = {"tag": "two-connections", "connection": ci, "of": n, "stream": c["stream"], "per_fragment": pf}
        for kind, detail, fields in issues:
            res.violation(kind, f"connection {ci} of {n} served alternately (pf={pf}): {detail}", case, per_fragment=pf, skip=0, concurrent_connections=n, **fields)


def pong_failure_case(res, W, rng):
    """A ping sits between two fragments and the automatic pong fails once (the write times out / the application's key source raises):
    the application catches that and goes on receiving - the message under way is still delivered whole."""
    import socket as _socket
    how = rng.choice(["write-timeout", "key-source-raises"])
    st = {"armed": False}

    def key(n):
        if st["armed"]:
            st["armed"] = False
            raise RuntimeError("entropy source not ready")
        return b"\x11\x22\x33\x44"[:n]
    pf = rng.random() < 0.3
    kw = {"get_mask_key": key} if how == "key-source-raises" else {}
    if pf:
        kw["fire_cont_frame"] = True
    w, conn, peer = H.connected_ws(timeout=1, ws_kwargs=kw)
    is_text = rng.random() < 0.5
    parts = [b"Hello, ", b"wor", b"ld"] if is_text else [b"\x00\x01", b"\xfe", b"\xff"]
    op = R.TEXT if is_text else R.BINARY
    where = rng.randrange(1, 3)  # the ping comes before fragment number `where`
    stream = b""
    for i, part in enumerate(parts):
        if i == where:
            stream += R.encode(R.PING, b"are-you-there")
        stream += R.encode(op if i == 0 else R.CONT, part, fin=1 if i == len(parts) - 1 else 0)
    stream += R.encode(R.TEXT, b"second")
    conn.deliver(stream)
    if how == "write-timeout":
        conn.send_error = _socket.timeout("timed out")
    else:
        st["armed"] = True
    case = {"gen": "pong-failure", "how": how, "text": is_text, "ping_before_fragment": where, "per_fragment": pf}
    res.case(("pong-failure", how, is_text, where, pf), nontrivial=True)
    res.count("pong_failure_cases")
    got, errors = [], []
    for _ in range(12):
        try:
            o, fr = w.recv_data_frame(False)
        except W.WebSocketTimeoutException:
            if len(errors) >= 1:
                break
            errors.append("timeout")
            continue
        except RuntimeError as e:
            errors.append("key-source")
            continue
        except Exception as e:  # noqa
            res.violation("legal-rejected", f"automatic pong failed once ({how}) between fragments, the application went on receiving: {type(e).__name__}: {e}; "
                          f"delivered so far {got}", case, per_fragment=pf, skip=False)
            return
        got.append((o, bytes(fr.data)))
        if got[-1] == (R.TEXT, b"second"):
            break
    whole = b"".join(parts)
    exp = ([(op if i == 0 else R.CONT, part) for i, part in enumerate(parts)] if pf else [(op, whole)]) + [(R.TEXT, b"second")]
    if got != exp:
        res.violation("value-mismatch", f"automatic pong failed once ({how}) between fragments: delivered {got}, expected {exp}", case, per_fragment=pf, skip=False)


def half_closed_case(res, W, rng):
    """After the client has sent its close frame the server may still deliver messages before its own close frame
    (RFC 6455 5.5.1): they are received as usual - through recv(), next() and the for-loop alike - including empty ones."""
    msgs = []
    stream = b""
    for i in range(rng.randrange(2, 6)):
        is_text = rng.random() < 0.5
        body = rng.choice([b"", b"", b"x", b"hello", b"%d" % i]) if is_text else rng.choice([b"", b"\x00", b"\xff\xfe"])
        k = rng.randrange(1, 4)
        cuts = sorted(rng.randrange(0, len(body) + 1) for _ in range(k - 1))
        comp = tuple(b - a for a, b in zip([0] + cuts, cuts + [len(body)]))
        gaps = tuple(rng.choice(["none", "none", "ping", "pongping"]) for _ in range(k + 1))
        stream += build_message(rng, R.TEXT if is_text else R.BINARY, body, comp, gaps)
        msgs.append(body.decode() if is_text else body)
    stream += R.encode(R.CLOSE, b"\x03\xe8")
    how = rng.choice(["recv", "next", "for-loop"])
    w, conn, peer = H.connected_ws(after=stream, timeout=2)
    conn.peer_close()
    got, exc = [], None
    try:
        w.send_close()
        if how == "for-loop":
            for m in w:
                got.append(m)
                if len(got) > len(msgs) + 2:
                    break
        else:
            while len(got) <= len(msgs):
                got.append(w.recv() if how == "recv" else next(w))
    except W.WebSocketConnectionClosedException:
        pass
    except Exception as e:  # noqa
        exc = e
    from ..core import h64
    res.case(("half-closed", h64(stream), how), nontrivial=True)
    res.count("half_closed_cases")
    res.count("messages_compared", len(msgs))
    res.count("multi_fragment_cases")
    case = {"tag": "half-closed", "stream": stream, "how": how, "expected": msgs}
    # the close frame itself shows up as "" through recv(); everything before it must be there, in order
    want = list(msgs)
    if exc is not None or got[:len(want)] != want:
        res.violation("value-mismatch", f"after send_close(), receiving through {how}: got {got!r} (exception {exc!r}), the server sent {want!r} before its close frame",
                      case, per_fragment=0, skip=0, call=how, half_closed=True)
