"""C05 - frames the RFC forbids raise a protocol exception, legal ones are
accepted."""
from __future__ import annotations

import itertools
import random

from .. import harness as H
from ..sim import sched
from .. import monitors as M
from ..ref import rfc6455 as R
from ..ref import utf8 as U

SHARDS = {"quick": 8, "thorough": 16}
META = {
    "level": "exploration",
    "technique": "runtime monitoring: exception/value of the receive calls compared with a reference legality predicate (exactly the list in the property) over exhaustive header, close-code and sequencing spaces",
    "claim": "For all 256 first header bytes x MASK x payload-length class x connection state, all 65536 close codes (thorough; strided with all class boundaries in quick) x reason validity classes, and all frame-kind sequences up to length 5 (thorough) / 4 (quick), the receive call raised a protocol/payload exception exactly where the reference predicate forbids the frame and delivered the reference result otherwise. Close codes 1012-1014 and 1016-2999 are recorded but not judged.",
    "trusted": "reference legality predicate and sequencer in wsverif/ref/rfc6455.py; simulated socket",
    "rule": "case = (generator, header byte / close code / kind sequence, length class, state, call); distinct by that tuple; non-trivial when the frame under test is forbidden or follows/precedes another frame (all are compared against the model)",
    "exhaustive": {"quick": False, "thorough": True},
    "exhaustive_space": {"thorough": "256 first bytes x 2 mask x 7 length classes x 2 states; 65536 close codes x 6 reason classes; all 9^k kind sequences k<=5",
                         "quick": "256 first bytes x 2 mask x 7 length classes x 2 states; close codes: every boundary +-2 and stride 37; kind sequences k<=4"},
    "bounds": "close codes 1012-1014/1016-2999 unjudged",
    "required_counters": ["must_reject_seen", "must_accept_seen"],
    "assumptions": [],
}
META["claim"] += " " + 'Also: every sequencing history again with per-fragment delivery and with validation off; a quarter of the header space with trace logging switched on.'
META["claim"] += " " + 'Round 4: sequencing after a message rejected for its payload (continuation forbidden, new data frame legal); long close reasons with a multi-byte sequence split around whole 2^n-byte ASCII blocks; ambient conditions drawn per connection.'
META["claim"] += " " + "Round 5: close frames also with per-fragment delivery on; sequencing after the client's send_close() in the middle of a server message."
META["claim"] += " " + 'Rounds 6-7: extra response headers (extensions); what follows a rejected frame; ambient warnings-as-errors / thread hops / 1-0 spellings.'
META["claim"] += " " + 'Round 8: constructor options passed by position in the published order.'

import logging as _logging

_NULL = _logging.NullHandler()

KINDS = ["T0", "T1", "B0", "B1", "C0", "C1", "PING", "PONG", "CLOSE"]


def kind_frame(k, i):
    tag = bytes([0x41 + i])
    if k == "T0":
        return R.encode(R.TEXT, b"t" + tag, fin=0)
    if k == "T1":
        return R.encode(R.TEXT, b"T" + tag, fin=1)
    if k == "B0":
        return R.encode(R.BINARY, b"\x00" + tag, fin=0)
    if k == "B1":
        return R.encode(R.BINARY, b"\xff" + tag, fin=1)
    if k == "C0":
        return R.encode(R.CONT, b"c" + tag, fin=0)
    if k == "C1":
        return R.encode(R.CONT, b"C" + tag, fin=1)
    if k == "PING":
        return R.encode(R.PING, b"p" + tag)
    if k == "PONG":
        return R.encode(R.PONG, b"q" + tag)
    return R.encode(R.CLOSE, b"\x03\xe8")


REASONS = {
    "none": b"",
    "ascii": b"bye",
    "multibyte": "grüß€\U0001f600".encode(),
    "invalid-byte": b"a\xffb",
    "truncated": b"ok\xe2\x82",
    "overlong": b"\xc0\xaf",
}
# long reasons with structure: a multi-byte sequence whose lead byte ends a 2^n-byte block, one or two whole ASCII blocks, then the
# continuation bytes (ill-formed), and the same bytes with the sequence kept together (well-formed)
for _blk in (8, 16, 32):
    for _seq in (b"\xc3\xa9", b"\xe2\x82\xac"):
        for _nblocks in (1, 2):
            if _blk - 1 + len(_seq) + _blk * _nblocks <= 123:
                REASONS[f"blocksplit-{_blk}x{_nblocks}-{len(_seq)}"] = b"a" * (_blk - 1) + _seq[:1] + b"b" * (_blk * _nblocks) + _seq[1:]
                REASONS[f"blockjoined-{_blk}x{_nblocks}-{len(_seq)}"] = b"a" * (_blk - 1) + _seq + b"b" * (_blk * _nblocks)


def run(res, tier, seed, shard, nshards):
    W = H.ws()
    rng = random.Random((seed << 8) ^ shard ^ 0xC05)
    cases = []
    # (a) all first bytes x mask x length class x state x call
    for b0 in range(256):
        for mask in (0, 1):
            for lc in ("0", "1", "2", "125", "126", "65536", "126-as-7bit-max"):
                for state in ("idle", "inmsg"):
                    cases.append(("hdr", b0, mask, lc, state))
    # (b) close codes
    if tier == "thorough":
        codes = range(65536)
    else:
        bset = set()
        for edge in (0, 999, 1000, 1003, 1004, 1005, 1006, 1007, 1011, 1012, 1014, 1015, 1016, 2999, 3000, 4999, 5000, 32767, 32768, 65535):
            for d in (-2, -1, 0, 1, 2):
                if 0 <= edge + d < 65536:
                    bset.add(edge + d)
        bset.update(range(0, 65536, 37))
        codes = sorted(bset)
    for code in codes:
        for rk in REASONS:
            if tier == "quick" and rk not in ("none", "ascii") and code % 5 and code not in (1000, 1001, 3000, 4999):
                continue
            if rk.startswith("block") and code not in (1000, 1011, 3000, 4999) and (tier == "quick" or code % 97):
                continue
            cases.append(("close", code, rk))
    cases.append(("close1", 0, "none"))
    for b in (0, 3, 0x80, 0xff):
        cases.append(("close1", b, "none"))
    # (c) kind sequences
    maxk = 4 if tier == "quick" else 5
    for k in range(1, maxk + 1):
        for seq in itertools.product(KINDS, repeat=k):
            # a CLOSE ends the connection: only allow it in last position
            if "CLOSE" in seq[:-1]:
                continue
            cases.append(("seq", seq))
    # (c') sequencing after a message was rejected for its *payload* (ill-formed text): the connection stays in the idle state,
    # so a continuation is forbidden and a new data frame is legal
    for nfrag in (1, 2, 3):
        for bad in (b"\xc0\xaf", b"\xe2\x82", b"a\xffb"):
            for nxt in ("C1", "C0", "T1", "B1", "T0", "B0", "PING"):
                for name in ("recv_data_frame", "recv_data", "recv"):
                    cases.append(("after-payload-rejection", nfrag, bad, nxt, name))
    # (c'') sequencing after the client's own send_close() in the middle of a message of the server: the server may finish it (and send
    # more), a new data frame inside it is still forbidden
    for pf in (False, True):
        for first in ("T0", "B0"):
            for mid in ((), ("PING",), ("C0",), ("C0", "PONG")):
                for nxt in ("C1", "C0", "T1", "B0", "PING"):
                    cases.append(("half-closed-seq", pf, first, mid, nxt))
    # (c3) the application logs a protocol error and calls receive again: every following frame is judged on its own merits
    bads = {"rsv1-text": bytes([0xC1, 0x02]) + b"zz", "rsv2-binary": bytes([0xA2, 0x01]) + b"z", "opcode-3": bytes([0x83, 0x00]), "opcode-b": bytes([0x8B, 0x01]) + b"z",
            "fragmented-ping": bytes([0x09, 0x01]) + b"p", "ping-126": bytes([0x89, 0x7E, 0x00, 0x7E]) + b"p" * 126, "fragmented-close": bytes([0x08, 0x02, 0x03, 0xE8])}
    for b1 in bads:
        for b2 in list(bads) + ["T1", "PING", "B0"]:
            for name in ("recv_data_frame", "recv"):
                cases.append(("after-protocol-rejection", b1, b2, name, bads))
    # (d) random longer sequences
    for i in range(300 if tier == "quick" else 6000):
        cases.append(("rseq", i))

    def scen():
        for i, c in enumerate(cases):
            if i % nshards != shard:
                continue
            if c[0] == "hdr":
                hdr_case(res, W, rng, c)
            elif c[0] in ("close", "close1"):
                W.enableTrace(False)
                close_case(res, W, rng, c)
            elif c[0] == "after-protocol-rejection":
                after_protocol_rejection_case(res, W, rng, c)
            elif c[0] == "half-closed-seq":
                half_closed_seq_case(res, W, rng, c)
            elif c[0] == "after-payload-rejection":
                after_payload_rejection_case(res, W, rng, c)
            elif c[0] == "seq":
                seq_case(res, W, rng, c[1], exhaustive=True)
            else:
                k = rng.randrange(6, 14)
                seq = [rng.choice(KINDS[:-1]) for _ in range(k)]
                if rng.random() < 0.5:
                    seq.append("CLOSE")
                seq_case(res, W, rng, tuple(seq), exhaustive=False)

    with H.ambient((seed, shard, "C05"), res, dims=("multithread", "tls", "dispatcher", "high_fd", "warn_error", "thread_hop", "truthy")):
        H.in_sim(scen, watchdog=3000)
    W.enableTrace(False)


def hdr_case(res, W, rng, c):
    _, b0, mask, lc, state = c
    # the process-wide trace switch adds a second formatting path over every received frame
    trace_on = (b0 + mask) % 4 == 0
    W.enableTrace(trace_on, handler=_NULL)
    if trace_on:
        res.count("hdr_cases_with_trace_on")
    n = {"0": 0, "1": 1, "2": 2, "125": 125, "126": 126, "65536": 65536, "126-as-7bit-max": 125}[lc]
    fin, rsv, op = b0 >> 7, (b0 >> 4) & 7, b0 & 15
    if op == R.CLOSE and n >= 2:
        payload = b"\x03\xe8" + bytes(rng.randrange(0x20, 0x7f) for _ in range(n - 2))
    elif op in (R.TEXT, R.CONT):
        payload = bytes(rng.randrange(0x20, 0x7f) for _ in range(n))
    else:
        payload = rng.randbytes(n)
    key = rng.randbytes(4) if mask else None
    frame = R.encode(op, payload, fin=fin, rsv=rsv, key=key)
    pre = R.encode(R.TEXT, b"head", fin=0) if state == "inmsg" else b""
    post = b""
    # let a legal unfinished message be finished so that message-level calls return
    stream = pre + frame + R.encode(R.CONT, b"tail", fin=1) + R.encode(R.BINARY, b"SENT")
    for name in ("recv_data_frame", "recv_frame"):
        script = [(name, True)] * 5
        judge(res, W, stream, script, ("hdr", b0, mask, lc, state, name), frame_under_test=(len(pre), R.decode_one(frame)))


def close_case(res, W, rng, c):
    kind, code, rk = c
    if kind == "close1":
        body = bytes([code])
    else:
        body = bytes([code >> 8, code & 255]) + REASONS[rk]
    stream = R.encode(R.CLOSE, body)
    f = R.decode_one(stream)
    cls = "len1" if kind == "close1" else R.close_code_class(code)
    res.count("close_class:" + cls)
    for name in (("recv_data_frame", "recv") if code % 3 == 0 or kind == "close1" else ("recv_data_frame",)):
        judge(res, W, stream, [(name, True)], (kind, code, rk, name), frame_under_test=(0, f))
    # per-fragment delivery changes how data frames are handed over, not what a close frame may carry
    if code % 2 == 0 or code in (1001, 1011, 4999) or kind == "close1":
        judge(res, W, stream, [("recv_data_frame", True)], (kind + "-pf", code, rk, "recv_data_frame"), frame_under_test=(0, f), ws_kwargs={"fire_cont_frame": True})


def after_protocol_rejection_case(res, W, rng, c):
    _, b1, b2, name, bads = c
    second = bads[b2] if b2 in bads else kind_frame(b2, 1) + (kind_frame("C1", 2) if b2 == "B0" else b"")
    stream = bads[b1] + second + R.encode(R.TEXT, b"SENT")
    w, conn, peer = H.connected_ws(after=stream, timeout=1)
    case = {"gen": "after-protocol-rejection", "first": b1, "second": b2, "call": name, "stream": stream}
    res.case(("apr2", b1, b2, name), nontrivial=True)

    def call():
        try:
            if name == "recv":
                return ("value", w.recv())
            op, fr = w.recv_data_frame(True)
            return ("value", (op, bytes(fr.data)))
        except BaseException as e:  # noqa
            if isinstance(e, (sched.SimAbort, KeyboardInterrupt)):
                raise
            return ("exc", e)

    before = len(peer.client_stream)
    first = call()
    if not (first[0] == "exc" and isinstance(first[1], W.WebSocketProtocolException)):
        return  # judged by the header cases
    res.count("after_protocol_rejection_cases")
    sec = call()
    if b2 in bads:
        res.count("must_reject_seen")
        if not (sec[0] == "exc" and isinstance(sec[1], W.WebSocketProtocolException)):
            res.violation("illegal-accepted", f"forbidden frame {b2} right after a rejected {b1} (the application went on receiving through {name}): got {sec[0]} "
                          f"{repr(sec[1])[:80]}", case, gen="after-protocol-rejection", next=b2)
            return
        wrote = bytes(peer.client_stream[before:])
        if wrote:
            res.violation("writes-mismatch", f"forbidden frames {b1}, {b2}: the client wrote {wrote[:12].hex()} in response", case, gen="after-protocol-rejection", next=b2)
        return
    res.count("must_accept_seen")
    if sec[0] == "exc":
        res.violation("legal-rejected", f"legal {b2} right after a rejected {b1} through {name}: {type(sec[1]).__name__}: {sec[1]}", case, gen="after-protocol-rejection", next=b2)
        return
    exp = {"T1": (R.TEXT, b"TB"), "PING": (R.PING, b"pB"), "B0": (R.BINARY, b"\x00BCC")}[b2]
    v = sec[1]
    if name == "recv":
        got = (exp[0], v.encode() if isinstance(v, str) else bytes(v))
        if b2 == "PING":
            exp = (R.PING, b"SENT")  # recv() answers the ping and returns the text that follows
            got = (R.PING, v.encode() if isinstance(v, str) else bytes(v))
    else:
        got = v
    if got != exp:
        res.violation("value-mismatch", f"legal {b2} right after a rejected {b1} through {name}: expected {exp}, got {got}", case, gen="after-protocol-rejection", next=b2)


def half_closed_seq_case(res, W, rng, c):
    _, pf, first, mid, nxt = c
    w, conn, peer = H.connected_ws(timeout=1, ws_kwargs={"fire_cont_frame": True} if pf else None)
    case = {"gen": "half-closed-seq", "per_fragment": pf, "first": first, "mid": mid, "next": nxt}
    res.case(("hcs", pf, first, mid, nxt), nontrivial=True)
    # the server's message is under way: in per-fragment mode the application has seen the first fragment, otherwise a receive call
    # timed out in the middle of the message
    conn.deliver(kind_frame(first, 0))
    try:
        w.recv_data_frame(True)
    except W.WebSocketTimeoutException:
        pass
    except Exception as e:  # noqa
        res.violation("legal-rejected", f"first fragment {first} (per-fragment={pf}): {type(e).__name__}: {e}", case, gen="half-closed-seq", next=nxt)
        return
    try:
        w.send_close(1000, b"leaving")
    except Exception as e:  # noqa
        res.violation("legal-rejected", f"send_close() in the middle of a server message: {type(e).__name__}: {e}", case, gen="half-closed-seq", next=nxt)
        return
    seq = list(mid) + [nxt]
    conn.deliver(b"".join(kind_frame(k, i + 1) for i, k in enumerate(seq)) + (kind_frame("C1", 9) if nxt in ("C0", "PING") else b""))
    res.count("half_closed_seq_cases")
    legal = nxt in ("C1", "C0", "PING")
    res.count("must_accept_seen" if legal else "must_reject_seen")
    exc = None
    for _ in range(len(seq) + 3):
        try:
            w.recv_data_frame(True)
        except W.WebSocketTimeoutException:
            break
        except Exception as e:  # noqa
            exc = e
            break
    if legal:
        if exc is not None:
            res.violation("legal-rejected", f"after send_close() in the middle of a server message ({first}, then {seq}, per-fragment={pf}) the legal frames raised "
                          f"{type(exc).__name__}: {exc}", case, gen="half-closed-seq", next=nxt)
    else:
        if not isinstance(exc, W.WebSocketProtocolException):
            res.violation("illegal-accepted", f"after send_close() in the middle of a server message ({first}, then {seq}, per-fragment={pf}) a new data frame inside the "
                          f"unfinished message was not refused (got {type(exc).__name__ if exc else 'no exception'})", case, gen="half-closed-seq", next=nxt)


def after_payload_rejection_case(res, W, rng, c):
    _, nfrag, bad, nxt, name = c
    cut = [bad] if nfrag == 1 else [bad[:1], bad[1:]] if nfrag == 2 else [b"", bad[:1], bad[1:]]
    stream = b"".join(R.encode(R.TEXT if i == 0 else R.CONT, f, fin=1 if i == len(cut) - 1 else 0) for i, f in enumerate(cut))
    stream += kind_frame(nxt, 1)
    if nxt in ("T0", "B0"):
        stream += kind_frame("C1", 2)
    stream += R.encode(R.BINARY, b"SENT")
    w, conn, peer = H.connected_ws(after=stream, timeout=1)
    case = {"gen": "after-payload-rejection", "stream": stream, "call": name, "next": nxt}

    def call():
        try:
            if name == "recv":
                return ("value", w.recv())
            if name == "recv_data":
                return ("value", w.recv_data(True))
            op, fr = w.recv_data_frame(True)
            return ("value", (op, fr.data))
        except BaseException as e:  # noqa
            if isinstance(e, (sched.SimAbort, KeyboardInterrupt)):
                raise
            return ("exc", e)

    first = call()
    res.case(("apr", nfrag, bad, nxt, name), nontrivial=True)
    if not (first[0] == "exc" and isinstance(first[1], (W.WebSocketPayloadException, W.WebSocketProtocolException))):
        return  # whether ill-formed text is rejected is C06's question
    if not w.connected:
        return
    res.count("after_payload_rejection_cases")
    second = call()
    if nxt in ("C0", "C1"):
        res.count("must_reject_seen")
        if not (second[0] == "exc" and isinstance(second[1], W.WebSocketProtocolException)):
            res.violation("illegal-accepted", f"after a text message rejected for its payload ({nfrag} fragment(s)), a continuation frame with no message in progress "
                          f"through {name}: got {second[0]} {repr(second[1])[:80]}", case, gen="after-payload-rejection", next=nxt)
        return
    res.count("must_accept_seen")
    exp = {"T1": (R.TEXT, b"TB"), "B1": (R.BINARY, b"\xffB"), "T0": (R.TEXT, b"tBCC"), "B0": (R.BINARY, b"\x00BCC"), "PING": (R.PING, b"pB")}[nxt]
    if nxt == "PING" and name == "recv":
        exp = (R.BINARY, b"SENT")  # recv() answers the ping and goes on to the next message
    if second[0] == "exc":
        res.violation("legal-rejected", f"after a text message rejected for its payload ({nfrag} fragment(s)), a legal {nxt} frame through {name} raised "
                      f"{type(second[1]).__name__}: {second[1]}", case, gen="after-payload-rejection", next=nxt)
        return
    v = second[1]
    got = (exp[0], v.encode() if isinstance(v, str) else bytes(v)) if name == "recv" else (v[0], bytes(v[1]))
    if got != exp:
        res.violation("value-mismatch", f"after a text message rejected for its payload, {nxt} through {name}: expected {exp}, got {got}", case,
                      gen="after-payload-rejection", next=nxt)


def seq_case(res, W, rng, seq, exhaustive):
    stream = b"".join(kind_frame(k, i) for i, k in enumerate(seq))
    name = "recv_data_frame" if len(seq) % 2 else rng.choice(["recv_data_frame", "recv_data", "recv"])
    judge(res, W, stream, [(name, True)] * (len(seq) + 1), ("seq" if exhaustive else "rseq", seq, name), frame_under_test=None)
    # the same history with per-fragment delivery (and, alternately, validation off): the sequencing rules are the same
    if len(seq) >= 2:
        kw = {"fire_cont_frame": True}
        if len(seq) % 2:
            kw["skip_utf8_validation"] = True
        judge(res, W, stream, [("recv_data_frame", True)] * (len(seq) + 1), ("seq-pf" if exhaustive else "rseq-pf", seq, "recv_data_frame"), frame_under_test=None, ws_kwargs=kw)


RESPONSE_EXTRAS = [(), (), ("Sec-WebSocket-Extensions: permessage-deflate",), ("Sec-WebSocket-Extensions: permessage-deflate; client_max_window_bits=15", "Server: x/1"),
                   ("sec-websocket-extensions: PerMessage-Deflate",), ("X-Frame-Options: rsv1-ok", "Sec-WebSocket-Version: 13")]
_JUDGE_N = [0]


def judge(res, W, stream, script, tag, frame_under_test, ws_kwargs=None):
    kw = ws_kwargs or {}
    pf = bool(kw.get("fire_cont_frame"))
    pred, model = M.predict(stream, script, ending="eof", per_fragment=pf, validate_utf8=not kw.get("skip_utf8_validation"))
    # headers of the handshake response that a client offering no extension has no use for: the frame rules stay what they are
    _JUDGE_N[0] += 1
    extra = RESPONSE_EXTRAS[_JUDGE_N[0] % len(RESPONSE_EXTRAS)]
    if extra:
        res.count("cases_with_extra_response_headers")
    obs = H.run_recv_script(stream, script, ending="eof", ws_kwargs=kw, extra_headers=extra)
    issues, judged, unj = M.compare(pred, obs, per_fragment=pf)
    if pf:
        res.count("per_fragment_mode_cases")
    res.case(tag, nontrivial=True)
    if unj:
        res.count("unjudged")
        res.count("unjudged:" + str(unj))
    exp_reject = any(p["out"][0] == "exc" and p["out"][1] == "protocol" for p in pred)
    if exp_reject:
        res.count("must_reject_seen")
        why = [p["out"][2] for p in pred if p["out"][0] == "exc" and p["out"][1] == "protocol"][0]
        res.count("reject_reason:" + why)
    elif not unj:
        res.count("must_accept_seen")
    case = {"tag": tag, "stream": stream, "script": script[0], "response_extra_headers": list(extra)}
    for kind, detail, fields in issues:
        res.violation(kind, f"{tag}: {detail}", case, gen=tag[0], **fields)
    if exp_reject:
        res.sample(case, cap=3)
