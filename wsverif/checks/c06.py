"""C06 - text is delivered iff the whole payload is well-formed UTF-8.

Monitors
 1. automaton conformance of the public validate_utf8() against the Table 3-7
    reference (W-method: state cover x all 256 bytes x [extra byte] x
    distinguishing suffixes, plus the end-of-input acceptance rule),
 2. product walk over the implementation's transition function when it is
    exposed (_decode), every transition executed on the real function,
 3. all short strings over class-representative bytes,
 4. the receive path: corpus x fragmentations x validation on/off x
    text message / close reason.
"""
from __future__ import annotations

import itertools
import random

from .. import harness as H
from ..sim import net
from ..ref import rfc6455 as R
from ..ref import utf8 as U

SHARDS = {"quick": 5, "thorough": 17}
META = {
    "level": "exploration",
    "technique": "runtime monitoring: reference-automaton conformance test (W-method) of the real validator + receive-path oracle over fragmentations",
    "claim": "validate_utf8() and the receive path agreed with a Table 3-7 reference automaton on every generated string: W-method suite (decides equivalence for validators with <= |ref|+k states), exhaustive short strings over class boundary bytes, and recv()/recv_data()/close-reason delivery of a corpus under every 2- and 3-way fragmentation with validation on and off. Held on the executions observed, not a proof.",
    "trusted": "reference automaton (cross-checked against CPython's strict utf-8 codec each run); simulated socket; assumes the validator is a finite automaton of bounded size for the W-method argument",
    "rule": "W-method strings p.a[.x].w over the Table 3-7 reference automaton (p in state cover, a (and x) any byte, w in the distinguishing set), "
            "all strings of length<=3(4) over 24+ class boundary bytes, and recv()/recv_data() of corpus payloads under all 2/3-way fragmentations; "
            "a case is non-trivial when it contains at least one non-ASCII byte; distinct = distinct byte strings (x fragmentation x mode on the receive path)",
    "exhaustive": {"quick": False, "thorough": False},
    "bounds": "W-method decides equivalence only under the assumption that the validator is a DFA with <= |ref|+k states (k=0 quick, k=1 thorough)",
    "required_counters": ["validator_calls", "recv_cases"],
    "assumptions": [
        "reference automaton generated from Unicode Table 3-7 and cross-checked against CPython's strict codec in this run",
        "wsaccel absent (pure-Python validator)",
    ],
}
META["claim"] += " " + 'Also: long strings with an open multi-byte sequence ending at or next to k x 2^n, a run of whole ASCII blocks, then the continuation (validators with block-wise fast paths are not small DFAs); close reasons under codes 1000/1011/3000/4999.'
META["claim"] += " " + 'Round 3b: about half of the receive cases with trace logging on; after a rejected message the same connection receives further valid and invalid messages, each judged on its own.'
META["claim"] += " " + 'Round 4: the corpus through WebSocketApp with and without on_cont_message; texts with BOM etc.; ambient conditions drawn per connection on the receive path.'
META["claim"] += " " + 'Round 5: payloads beyond 16 MiB (truncated tail, surrogate at the end, overlong inside, well-formed); close reasons through WebSocketApp with four callback sets (incl. none that receives messages).'
META["claim"] += " " + 'Rounds 6-7: options after redirects, characters straddling every 2^n boundary, the wsaccel branch (stand-in); ill-formed text after a receive call that failed (timeout, failing pong, interrupt) through every receive call; a reader blocked in a receive call while another thread calls close() and the server answers with an ill-formed reason (all I/O-point interleavings, random line-level ones).'
META["claim"] += " " + "Round 8: WebSocketApp's per-fragment mode judged for fragmented well-formed text too (known finding: a character split across the first two fragments); constructor options by position."


def classify(data: bytes) -> str:
    st = U.run(data)
    if st == U.START:
        return "valid"
    if st == U.REJECT:
        return "invalid"
    return "truncated-tail"


def distinguishing_set():
    states = sorted(U.all_states(), key=repr)
    cands = [b""]
    for s in states:
        if s == U.REJECT:
            continue
        cands.append(bytes(lo for lo, hi in s))
        cands.append(bytes(hi for lo, hi in s))
        # partial completions (distinguish by remaining length)
        for k in range(1, len(s)):
            cands.append(bytes(lo for lo, hi in s[:k]))
    cands = sorted(set(cands), key=lambda b: (len(b), b))
    Wset = []
    pairs = [(a, b) for i, a in enumerate(states) for b in states[i + 1:]]
    for a, b in pairs:
        if any((U.run(w, a) == U.START) != (U.run(w, b) == U.START) for w in Wset):
            continue
        for w in cands:
            if (U.run(w, a) == U.START) != (U.run(w, b) == U.START):
                Wset.append(w)
                break
        else:
            raise AssertionError(("indistinguishable reference states", a, b))
    # keep every candidate: more suffixes only strengthen the test
    return sorted(set(Wset) | set(cands), key=lambda b: (len(b), b))


def check_validator(res, W, data: bytes, gen):
    exp = U.is_valid(data)
    try:
        got = W._utils.validate_utf8(data)
    except Exception as e:  # noqa
        res.violation("validator-raised", f"validate_utf8({data.hex()}) raised {type(e).__name__}", {"gen": gen, "data": data},
                      exc_type=type(e).__name__, input_class=classify(data))
        return
    res.count("validator_calls")
    res.case(data, nontrivial=any(b >= 0x80 for b in data))
    if bool(got) != exp:
        res.violation("validator-mismatch", f"validate_utf8({data.hex()}) = {got!r}, reference says {exp}",
                      {"gen": gen, "data": data}, expected=exp, input_class=classify(data))


def run(res, tier, seed, shard, nshards):
    # the last shard repeats the first shard's share of the work with a stand-in for the optional wsaccel extension on the import path,
    # so that the library's "if wsaccel is available" branch of the validator is executed at all (see wsverif/standins/wsaccel)
    wsaccel_shard = shard == nshards - 1
    nshards -= 1
    if wsaccel_shard:
        import os
        import sys
        sys.path.insert(0, os.path.join(os.path.dirname(os.path.dirname(os.path.abspath(__file__))), "standins"))
        shard = 0
    W = H.ws()
    if wsaccel_shard:
        if hasattr(W._utils, "_UTF8_ACCEPT") or "wsaccel" not in sys.modules:
            res.inconc("the wsaccel stand-in was not picked up by the library")
            return
        res.count("validator_calls_on_the_wsaccel_branch_marker")
        res.notes["wsaccel_branch"] = "shard run with wsverif/standins/wsaccel on the import path (stand-in following wsaccel's documented incremental contract)"
    rng = random.Random((seed << 8) ^ shard)
    # reference self-check against CPython (oracle vs oracle)
    for _ in range(2000):
        d = bytes(rng.choice([rng.randrange(256), rng.choice(b"\x7f\x80\xbf\xc0\xc2\xe0\xed\xf0\xf4\xf5\xa0\x9f\x90\x8f")]) for _ in range(rng.randrange(0, 6)))
        if U.is_valid(d) != U.is_valid_cpython(d):
            res.inconc(f"reference oracles disagree on {d.hex()}")
            return
    res.count("oracle_selfcheck", 2000)
    if shard == 0:
        H.contracts_workload(res, ["validate_utf8"])

    cover = U.state_cover()
    Wset = distinguishing_set()
    res.notes["ref_states"] = len(cover)
    res.notes["distinguishing_suffixes"] = len(Wset)

    # 1. W-method ----------------------------------------------------------
    extra = [b""] if tier == "quick" else [b""] + [bytes([x]) for x in range(256)]
    work = [(p, a) for p in cover.values() for a in range(256)]
    for i, (p, a) in enumerate(work):
        if i % nshards != shard:
            continue
        for x in extra:
            for w in Wset:
                check_validator(res, W, p + bytes([a]) + x + w, "wmethod")
    if shard == 0:
        for p in cover.values():
            for w in Wset:
                check_validator(res, W, p + w, "wmethod-cover")
    res.count("wmethod_strings", res.counters.get("validator_calls", 0))

    # 2. white-box product walk -----------------------------------------------
    if shard == 0:
        ut = W._utils
        if hasattr(ut, "_decode") and hasattr(ut, "_UTF8D"):
            pairs = {(ut._UTF8_ACCEPT, U.START)}
            todo = [(ut._UTF8_ACCEPT, U.START, b"")]
            impl_of = {}
            n = 0
            while todo:
                si, sr, path = todo.pop()
                for b in range(256):
                    ti = ut._decode(si, 0, b)[0]
                    tr = U.step(sr, b)
                    n += 1
                    if (ti == ut._UTF8_REJECT) != (tr == U.REJECT):
                        res.violation("dfa-transition-mismatch", f"after {path.hex()} byte {b:02x}: impl state {ti}, reference {tr}",
                                      {"gen": "product", "data": path + bytes([b])}, input_class=classify(path + bytes([b])))
                        continue
                    if tr == U.REJECT:
                        continue
                    if (ti, tr) not in pairs:
                        pairs.add((ti, tr))
                        todo.append((ti, tr, path + bytes([b])))
            res.count("product_transitions", n)
            res.notes["product_pairs"] = len(pairs)
        else:
            res.notes["product_walk"] = "skipped: _decode/_UTF8D not exposed"

    # 3. short strings over boundary bytes -------------------------------------
    reps = sorted({c[0] for c in U.byte_classes()} | {c[-1] for c in U.byte_classes()})
    res.notes["boundary_bytes"] = len(reps)
    L = 3 if tier == "quick" else 4
    idx = 0
    for n in range(0, L + 1):
        for t in itertools.product(reps, repeat=n):
            idx += 1
            if idx % nshards != shard:
                continue
            check_validator(res, W, bytes(t), "short")
    # random longer strings built from valid characters with one corruption
    for _ in range(3000 if tier == "quick" else 40000):
        s = "".join(chr(rng.choice([rng.randrange(0x80), rng.randrange(0x80, 0x800), rng.randrange(0x800, 0xD800), rng.randrange(0xE000, 0x10000), rng.randrange(0x10000, 0x110000)])) for _ in range(rng.randrange(1, 12)))
        d = bytearray(s.encode("utf-8"))
        m = rng.randrange(4)
        if m == 1 and d:
            d[rng.randrange(len(d))] = rng.randrange(256)
        elif m == 2 and d:
            del d[rng.randrange(len(d)):]
        elif m == 3:
            d.insert(rng.randrange(len(d) + 1), rng.randrange(0x80, 0x100))
        check_validator(res, W, bytes(d), "random")

    # 3b. long strings with structure at block boundaries: an incomplete sequence ending exactly at (or next to) a
    #     multiple of a power of two, a long ASCII run, then the continuation bytes.  A validator that processes the
    #     input in blocks (fast paths for ASCII runs) is not a small DFA; the W-method does not cover it.
    blocks = [64, 1024, 4096] if tier == "quick" else [16, 64, 256, 1024, 2048, 4096, 8192, 16384, 65536]
    leads = [(b"\xc3", b"\xa9"), (b"\xe2\x82", b"\xac"), (b"\xe2", b"\x82\xac"), (b"\xf0\x9f", b"\x98\x80"), (b"\xf0", b"\x9f\x98\x80")]
    li = 0
    for B in blocks:
        for head, tail in leads:
            for off in (-1, 0, 1):
                for run_blocks in (1, 2):
                    li += 1
                    if li % nshards != shard:
                        continue
                    pre = b"a" * (B + off - len(head))
                    if len(pre) < 0:
                        continue
                    gap = b"b" * (B * run_blocks + (0 if off == 0 else -off))
                    # ill-formed: ASCII bytes interrupt the sequence
                    check_validator(res, W, pre + head + gap + tail, "block-structure")
                    # well-formed control: the same bytes with the sequence kept together
                    check_validator(res, W, pre + head + tail + gap, "block-structure")
                    res.count("block_structure_strings", 2)
    # 3a'. a well-formed multi-byte character straddling a block boundary at every possible split (k of its bytes before the
    #      boundary), with and without further text behind it, and the same with one byte damaged
    sblocks = [64, 4096, 65536] if tier == "quick" else [16, 64, 256, 1024, 4096, 16384, 65536, 131072, 1 << 20]
    chars = [b"\xc3\xa9", b"\xe2\x82\xac", b"\xf0\x9f\x98\x80", b"\xf4\x8f\xbf\xbf", b"\xef\xbb\xbf"]
    si = 0
    for B in sblocks:
        for mult in (1, 2):
            for ch in chars:
                for k in range(0, len(ch) + 1):
                    si += 1
                    if si % nshards != shard:
                        continue
                    pre = b"a" * (B * mult - k)
                    for post in (b"", b"z" * 5, ch + b"z" * (B // 2)):
                        check_validator(res, W, pre + ch + post, "straddling-character")
                    if 0 < k < len(ch):
                        bad = bytearray(pre + ch + b"zz")
                        bad[len(pre) + k] = 0x41  # the byte right after the boundary is no continuation byte
                        check_validator(res, W, bytes(bad), "straddling-character")
                    res.count("straddling_character_strings", 4)
    # 3b. very long payloads (a validator may switch strategy above some size): the last code point cut short, an ill-formed sequence
    # deep inside, and well-formed controls.  The reference for these is CPython's strict decoder (agrees with the DFA, see self-check).
    sizes = [(1 << 24) + 3] if tier == "quick" else [(1 << 20) + 1, (1 << 22) + 1, (1 << 24) + 1, (1 << 24) + 3, (1 << 25) + 5]
    bigs = []
    for n in sizes:
        body = ("abcdefghij€Ω😀" * (n // 19 + 1)).encode()[: n - 4]
        while (body[-1] & 0xC0) == 0x80 or body[-1] >= 0xC0:  # end on a character boundary
            body = body[:-1]
        for tail, tag in ((b"z\xe2\x82", "truncated-3"), (b"zz\xf0\x9f", "truncated-4"), ("z€".encode(), "valid"), (b"\xed\xa0\x80z", "surrogate-at-end")):
            bigs.append((body + tail, tag))
        mid = len(body) // 2
        while (body[mid] & 0xC0) == 0x80:
            mid += 1
        bigs.append((body[:mid] + b"\xc0\xaf" + body[mid:], "overlong-inside"))
    for bi, (data, tag) in enumerate(bigs):
        if bi % nshards != shard:
            continue
        exp = U.is_valid_cpython(data)
        try:
            got = W._utils.validate_utf8(data)
        except Exception as e:  # noqa
            res.violation("validator-raised", f"validate_utf8(<{len(data)} bytes, {tag}>) raised {type(e).__name__}", {"gen": "very-long", "len": len(data), "tag": tag},
                          exc_type=type(e).__name__, input_class=tag)
            continue
        res.count("validator_calls")
        res.count("very_long_payloads_validated")
        res.case(("very-long", len(data), tag), nontrivial=True)
        if bool(got) != exp:
            res.violation("validator-mismatch", f"validate_utf8(<{len(data)} bytes ending in {data[-4:].hex()}, {tag}>) = {got!r}, reference says {exp}",
                          {"gen": "very-long", "len": len(data), "tag": tag}, expected=exp, input_class=tag)
    # 4. receive path -----------------------------------------------------------
    with H.ambient((shard, "C06"), res, dims=("multithread", "tls", "dispatcher", "high_fd", "warn_error", "thread_hop", "truthy")):
        recv_path(res, W, tier, rng, shard, nshards)
    if shard == 1 % nshards:
        H.in_sim(lambda: redirect_option_cases(res, W, rng), watchdog=120)
    if shard == 2 % nshards:
        H.in_sim(lambda: after_failed_call_cases(res, W, rng, tier), watchdog=300)
        concurrent_close_cases(res, W, tier, seed=shard)
    # 5. through WebSocketApp ---------------------------------------------------
    app_path(res, W, tier, rng, shard, nshards)


CORPUS = [
    b"", b"a", "é".encode(), "€".encode(), "\U0001f600".encode(), "aé€\U0001f600z".encode(),
    b"\xc2", b"\xe2\x82", b"\xf0\x9f\x98", b"ab\xe2\x82", b"\xf0\x9f",  # truncated tails
    b"\xc0\xaf", b"\xe0\x80\xaf", b"\xf0\x80\x80\xaf",  # overlong
    b"\xed\xa0\x80", b"\xed\xbf\xbf",  # surrogates
    b"\xf4\x90\x80\x80", b"\xf5\x80\x80\x80",  # > U+10FFFF
    b"\x80", b"\xbf", b"\xff", b"\xfe", b"a\x80b", b"\xe2\x28\xa1", b"\xc2\x41",
    b"\xef\xbf\xbd", b"\xf4\x8f\xbf\xbf", b"\xed\x9f\xbf", b"\xee\x80\x80", b"\x00", "\u0000\u007f\u0080".encode(),
]


def after_failed_call_cases(res, W, rng, tier):
    """A receive call that ended with an exception (nothing arrived within the timeout; a failing automatic pong; an interrupted call)
    leaves the validation of what arrives afterwards as it was: ill-formed text is still rejected by every receive call."""
    bad = [b"caf\xc3", b"\xed\xa0\x80", b"\xc0\xaf", b"\xf4\x90\x80\x80", b"ab\xff"]
    for i in range(60 if tier == "quick" else 1200):
        data = bad[i % len(bad)]
        failure = ["timeout", "timeout-twice", "pong-failure", "interrupt"][(i // len(bad)) % 4]
        first_api = ["recv", "recv_data", "recv_data_frame", "next"][(i // 3) % 4]
        second_api = ["recv_data", "recv_data_frame", "recv", "recv_data"][(i // 7) % 4]
        frag = (i // 11) % 2
        w, conn, peer = H.connected_ws(timeout=1)
        case = {"gen": "after-failed-call", "data": data, "failure": failure, "failed_call": first_api, "then": second_api, "fragmented": bool(frag)}
        res.case(("after-failed", data, failure, first_api, second_api, frag), nontrivial=True)
        res.count("after_failed_call_cases")

        def call(name):
            if name == "recv":
                return (R.TEXT, w.recv())
            if name == "next":
                return (R.TEXT, next(w))
            if name == "recv_data":
                return w.recv_data()
            op, fr = w.recv_data_frame()
            return (op, fr.data)
        failed = 0
        for _ in range(2 if failure == "timeout-twice" else 1):
            if failure == "pong-failure":
                conn.deliver(R.encode(R.PING, b"x"))
                conn.send_error = ConnectionResetError(104, "reset")
                conn.write_plan = iter([0])
            elif failure == "interrupt":
                conn.deliver_segments([(net.ERROR, KeyboardInterrupt())])
            try:
                call(first_api)
            except BaseException as e:  # noqa
                from ..sim import sched as _s
                if isinstance(e, _s.SimAbort):
                    raise
                failed += 1
        conn.send_error = None
        conn.write_plan = None
        if not failed or not w.connected:
            res.count("after_failed_call_setup_did_not_fail" if not failed else "after_failed_call_connection_gone")
            continue
        if frag:
            conn.deliver(R.encode(R.TEXT, data[:1], fin=0) + R.encode(R.CONT, data[1:]))
        else:
            conn.deliver(R.encode(R.TEXT, data))
        try:
            got = ("value", call(second_api))
        except Exception as e:  # noqa
            got = ("exc", e)
        if got[0] == "value":
            res.violation("recv-mismatch", f"after a {first_api}() call that failed ({failure}), ill-formed text {data.hex()} ({classify(data)}) was delivered by {second_api}: {got[1]!r}",
                          case, input_class=classify(data), skip=False, path="after-failed-call", outcome="delivered")
        elif not isinstance(got[1], (W.WebSocketProtocolException, W.WebSocketPayloadException)):
            res.count("after_failed_call_other_exception:" + type(got[1]).__name__)
        else:
            res.count("after_failed_call_rejected")
        try:
            w.shutdown()
        except Exception:  # noqa
            pass


def concurrent_close_cases(res, W, tier, seed):
    """One thread sits in a receive call, another calls close(): the server's close reply with an ill-formed reason is rejected whichever
    thread reads it (every interleaving of the two at I/O points, and random ones at line level)."""
    from ..sim import sched, shim
    from . import c12
    sched.install_line_monitor(shim.PREFIX)
    for reason, api in [(b"bye \xed\xa0\x80", "recv_data"), (b"\xff\xfe", "recv"), (b"caf\xc3", "recv_data_frame")]:
        def factory(reason=reason, api=api, line=False):
            def scen():
                S = sched.CURRENT

                seen = bytearray()
                state = {}

                def on_bytes(conn_, data_):
                    seen.extend(data_)
                    frames, _ = R.decode_all(bytes(seen))
                    if any(f.opcode == R.CLOSE for f in frames) and not state.get("answered"):
                        state["answered"] = True
                        conn_.deliver(R.encode(R.CLOSE, b"\x03\xe8" + reason))
                w, conn, peer = H.connected_ws(timeout=2, on_bytes=on_bytes)
                out = {"reader": None, "closer": None}

                def reader():
                    try:
                        if api == "recv":
                            out["reader"] = ("value", w.recv())
                        elif api == "recv_data":
                            out["reader"] = ("value", w.recv_data())
                        else:
                            op, fr = w.recv_data_frame(True)
                            out["reader"] = ("value", (op, bytes(fr.data)))
                    except BaseException as e:  # noqa
                        if isinstance(e, sched.SimAbort):
                            raise
                        out["reader"] = ("exc", e)

                def closer():
                    try:
                        w.close(timeout=1)
                        out["closer"] = ("value", None)
                    except BaseException as e:  # noqa
                        if isinstance(e, sched.SimAbort):
                            raise
                        out["closer"] = ("exc", e)
                a1 = S.spawn(reader, name="reader")
                S.block(lambda: a1.state in (sched.BLOCKED, sched.DONE), 0.5, why="let the reader enter its call")
                a2 = S.spawn(closer, name="closer")
                S.arm(line_points=line)
                S.block(lambda: a1.state == sched.DONE and a2.state == sched.DONE, None, why="join")
                S.disarm()
                return out
            return scen

        def judge_(obs, S, reason=reason, api=api):
            issues = []
            r = obs["reader"]
            if r and r[0] == "value" and r[1] not in (None, ""):
                v = r[1]
                if (isinstance(v, tuple) and v[0] == R.CLOSE and reason in bytes(v[1])) or (isinstance(v, str) and v):
                    issues.append(("recv-mismatch", f"a reader in {api}() while another thread called close(): the server's close frame with the ill-formed reason {reason.hex()} "
                                   f"was delivered to the reader: {v!r}", {"input_class": classify(reason), "path": "concurrent-close", "outcome": "delivered", "skip": False}))
            elif r and r[0] == "value" and api == "recv" and r[1] == "":
                issues.append(("recv-mismatch", f"a reader in recv() while another thread called close(): the close frame with the ill-formed reason {reason.hex()} was accepted "
                               f"(recv() returned '')", {"input_class": classify(reason), "path": "concurrent-close", "outcome": "delivered", "skip": False}))
            case = {"gen": "concurrent-close", "reason": reason, "api": api, "decisions": list(S.decisions)[:200]}
            kind = (r[0] if r else None, type(r[1]).__name__ if r and r[0] == "exc" else None)
            return issues, case, kind, S.switches > 0

        tag = ("concurrent-close", reason, api)
        c12.explore(res, lambda: factory(line=False), judge_, tag, "dfs", 60 if tier == "quick" else 3000, seed, "concurrent_close_schedules")
        c12.explore(res, lambda: factory(line=True), judge_, tag, "random", 25 if tier == "quick" else 1500, seed, "concurrent_close_schedules")


def fragmentations(data, maxparts):
    n = len(data)
    yield [data]
    if maxparts >= 2:
        for i in range(0, n + 1):
            yield [data[:i], data[i:]]
    if maxparts >= 3:
        for i in range(0, n + 1):
            for j in range(i, n + 1):
                yield [data[:i], data[i:j], data[j:]]


def recv_path(res, W, tier, rng, shard, nshards):
    corpus = list(CORPUS)
    for _ in range(10 if tier == "quick" else 60):
        s = "".join(chr(rng.choice([rng.randrange(0x80), rng.randrange(0x80, 0x800), rng.randrange(0x800, 0xD800), rng.randrange(0x10000, 0x110000)])) for _ in range(rng.randrange(1, 6)))
        corpus.append(s.encode())
    tricky = {t.encode() for t in H.TRICKY_TEXTS}
    corpus += sorted(tricky)
    idx = 0
    for data in corpus:
        valid = U.is_valid(data)
        cls = classify(data)
        for frags in fragmentations(data, 2 if data in tricky else 3):
            for skip in (False, True):
                for path in ("text", "text-recv_data", "close", "close-3000", "close-4999", "close-1011"):
                    idx += 1
                    if idx % nshards != shard:
                        continue
                    if path.startswith("close") and (len(frags) > 1 or len(data) > 123):
                        continue
                    one_recv_case(res, W, data, frags, skip, path, valid, cls)


import logging as _logging

_NULL = _logging.NullHandler()


def app_path(res, W, tier, rng, shard, nshards):
    """The same question through WebSocketApp (with and without on_cont_message, which switches the connection to per-fragment
    delivery): an ill-formed text message never reaches on_message / on_data, a well-formed one arrives as the str."""
    from .. import appsim
    corpus = list(CORPUS) + [t.encode() for t in H.TRICKY_TEXTS[:6]]
    idx = 0
    for data in corpus:
        valid = U.is_valid(data)
        cls = classify(data)
        for frags in fragmentations(data, 2):
            for cont_cb in (False, True):
                for skip in (False, True):
                    idx += 1
                    if idx % nshards != shard or (tier == "quick" and idx % 3):
                        continue
                    app_case(res, W, appsim, data, frags, cont_cb, skip, valid, cls)
        if len(data) <= 123:
            for cbs_kind in ("all", "no-message-callbacks", "only-on_close", "with-cont"):
                idx += 1
                if idx % nshards == shard:
                    app_close_reason_case(res, W, appsim, data, cbs_kind, valid, cls)


def redirect_option_cases(res, W, rng):
    """The receive options given to create_connection() / connect() are those of the connection that is finally established, also when
    it was reached through a redirect: with validation off ill-formed text passes through unchanged, with per-fragment delivery on the
    fragments come one by one."""
    bad = b"caf\xe9 \xff"
    for nred in (0, 1, 2):
        for via in ("create_connection", "connect"):
            for opts in ({"skip_utf8_validation": True}, {"skip_utf8_validation": True, "fire_cont_frame": True}, {"fire_cont_frame": True}):
                conns = []

                def on_conn(conn, nred=nred):
                    conns.append(conn)
                    i = len(conns)
                    if i <= nred:
                        H.HandshakePeer(conn, response=lambda req, i=i: f"HTTP/1.1 302 Found\r\nLocation: ws://hop{i}.test/n{i}\r\n\r\n".encode())
                    else:
                        stream = R.encode(R.TEXT, bad[:3], fin=0) + R.encode(R.CONT, bad[3:]) + R.encode(R.CLOSE, b"\x03\xe8" + bad)
                        H.HandshakePeer(conn, after=stream)
                H.reset_process_state()
                H.make_net(on_conn)
                case = {"gen": "redirect-options", "redirects": nred, "via": via, "options": opts}
                res.case(("redirect-options", nred, via, tuple(sorted(opts))), nontrivial=True)
                res.count("redirect_option_cases")
                try:
                    if via == "create_connection":
                        w = W.create_connection("ws://start.test/", timeout=2, **opts)
                    else:
                        w = W.WebSocket(**opts)
                        w.settimeout(2)
                        w.connect("ws://start.test/")
                except Exception as e:  # noqa
                    res.violation("recv-mismatch", f"{via} with {opts} through {nred} redirect(s): {type(e).__name__}: {e}", case, input_class="invalid", skip=True,
                                  path="redirect", outcome=type(e).__name__)
                    continue
                got = []
                try:
                    for _ in range(3):
                        op, fr = w.recv_data_frame(True)
                        got.append((op, bytes(fr.data), fr.fin))
                        if op == R.CLOSE:
                            break
                except Exception as e:  # noqa
                    got.append(("exc", type(e).__name__, str(e)[:60]))
                skip = bool(opts.get("skip_utf8_validation"))
                pf = bool(opts.get("fire_cont_frame"))
                if skip:
                    exp = ([(R.TEXT, bad[:3], 0), (R.CONT, bad[3:], 1)] if pf else [(R.TEXT, bad, 1)]) + [(R.CLOSE, b"\x03\xe8" + bad, 1)]
                    if got != exp:
                        res.violation("recv-mismatch", f"{via} with {opts} through {nred} redirect(s): validation is off, yet got {got}, expected {exp}", case,
                                      input_class="invalid", skip=True, path="redirect", outcome="options-lost")
                else:
                    # validation on, per-fragment delivery on: the fragments come one by one (the text itself is ill-formed: what happens to it is
                    # the app path's question), and the close frame's reason is refused
                    if not got or got[0][:2] != (R.TEXT, bad[:3]):
                        res.violation("recv-mismatch", f"{via} with {opts} through {nred} redirect(s): per-fragment delivery is on, first result {got[:1]}", case,
                                      input_class="invalid", skip=False, path="redirect", outcome="options-lost")
                try:
                    w.shutdown()
                except Exception:  # noqa
                    pass


def app_close_reason_case(res, W, appsim, data, cbs_kind, valid, cls):
    """a close frame whose reason is `data`, received by a WebSocketApp with this or that set of callbacks (validation on)"""
    cbs = {"all": ["on_open", "on_message", "on_data", "on_error", "on_close"], "no-message-callbacks": ["on_open", "on_error", "on_close"],
           "only-on_close": ["on_close"], "with-cont": ["on_open", "on_message", "on_cont_message", "on_error", "on_close"]}[cbs_kind]
    script = [(0.5, "frames", R.encode(R.TEXT, b"hi")), (1.0, "close", b"\x03\xe8" + data)]

    def scen():
        H.reset_process_state()
        run = appsim.AppRun([dict(outcome="ok", script=script)], callbacks=cbs, last_repeats=False)
        run.run_forever()
        return run

    run, _ = H.in_sim(scen, horizon=200, watchdog=60)
    res.count("app_close_reason_cases")
    res.case(("app-close", data, cbs_kind), nontrivial=True)
    case = {"gen": "app-close-reason", "reason": data, "callbacks": cbs_kind}
    closes = [a for (t, n, a, ci, ac) in run.trace if n == "on_close"]
    if valid:
        if closes != [(1000, data.decode("utf-8"))]:
            res.violation("recv-mismatch", f"app path ({cbs_kind}): close frame 1000 with well-formed reason {data.hex()} ({cls}): on_close got {closes!r}", case,
                          input_class=cls, skip=False, path="app-close", outcome="not-delivered")
    else:
        if any(len(a) == 2 and a[0] == 1000 for a in closes):
            res.violation("recv-mismatch", f"app path ({cbs_kind}): close frame with ill-formed reason {data.hex()} ({cls}) was accepted: on_close{closes[0]!r}", case,
                          input_class=cls, skip=False, path="app-close", outcome="delivered")
        else:
            res.count("app_ill_formed_not_delivered")


def app_case(res, W, appsim, data, frags, cont_cb, skip, valid, cls):
    frames = b"".join(R.encode(R.TEXT if i == 0 else R.CONT, f, fin=1 if i == len(frags) - 1 else 0) for i, f in enumerate(frags))
    script = [(0.5, "frames", frames), (1.0, "frames", R.encode(R.TEXT, b"after")), (1.5, "close", b"\x03\xe8")]
    cbs = ["on_open", "on_message", "on_data", "on_error", "on_close"] + (["on_cont_message"] if cont_cb else [])
    case = {"gen": "app", "data": data, "frags": [len(f) for f in frags], "on_cont_message": cont_cb, "skip_utf8_validation": skip}

    def scen():
        H.reset_process_state()
        run = appsim.AppRun([dict(outcome="ok", script=script)], callbacks=cbs, last_repeats=False)
        run.run_forever(skip_utf8_validation=skip)
        return run

    run, _ = H.in_sim(scen, horizon=200, watchdog=60)
    res.count("app_cases")
    res.case(("app", data, tuple(len(f) for f in frags), cont_cb, skip), nontrivial=any(b >= 0x80 for b in data))
    msgs = [a[0] for (t, n, a, ci, ac) in run.trace if n == "on_message"]
    datas = [a for (t, n, a, ci, ac) in run.trace if n == "on_data"]
    conts = [a for (t, n, a, ci, ac) in run.trace if n == "on_cont_message"]
    errors = [a[0] for (t, n, a, ci, ac) in run.trace if n == "on_error"]
    whole = len(frags) == 1
    if valid:
        if skip:
            return  # with validation off the application gets bytes or str depending on the path: not part of the statement
        if cont_cb and not whole:
            # per-fragment delivery: the fragments arrive one by one (how each is typed is that mode's business); what the statement
            # does say is that a code point split across fragments is accepted - the message must not be answered with an error and
            # the connection must go on to the next message
            etypes = [type(e).__name__ for e in errors]
            if errors or "after" not in msgs:
                res.violation("recv-mismatch", f"app path, per-fragment mode (on_cont_message): well-formed text {data.hex()} ({cls}) in fragments {case['frags']} was answered "
                              f"with errors {etypes} and the following message {'was' if 'after' in msgs else 'was not'} delivered", case, input_class=cls, skip=skip,
                              path="app-cont-mode", outcome="not-delivered", exc_type=etypes[0] if etypes else None,
                              split_inside_character=any(not U.is_valid(f) for f in frags))
            else:
                res.count("app_cont_mode_fragmented_accepted")
            return
        if data.decode("utf-8") not in msgs:
            res.violation("recv-mismatch", f"app path: well-formed text {data.hex()} ({cls}) frags={case['frags']} on_cont_message={cont_cb}: on_message got {msgs!r}, errors {errors!r}",
                          case, input_class=cls, skip=skip, path="app", outcome="not-delivered")
        return
    if skip:
        return
    # ill-formed, validation on: neither the whole payload nor (for a single frame) anything else of it may be handed over as a message
    leaked = [m for m in msgs if (m.encode("utf-8", "surrogateescape") if isinstance(m, str) else bytes(m)) == data and data != b"after"]
    leaked_data = [a for a in datas if a and (a[0].encode("utf-8", "surrogateescape") if isinstance(a[0], str) else bytes(a[0])) == data and (len(a) < 3 or a[2])]
    if whole and (leaked or leaked_data):
        res.violation("recv-mismatch", f"app path: ill-formed text {data.hex()} ({cls}) on_cont_message={cont_cb}: delivered to on_message {leaked!r} / on_data {leaked_data!r}; errors {errors!r}",
                      case, input_class=cls, skip=skip, path="app", outcome="delivered")
    elif not cont_cb and (leaked or leaked_data):
        res.violation("recv-mismatch", f"app path: ill-formed fragmented text {data.hex()} ({cls}): delivered to on_message {leaked!r} / on_data {leaked_data!r}",
                      case, input_class=cls, skip=skip, path="app", outcome="delivered")
    else:
        res.count("app_ill_formed_not_delivered")


def one_recv_case(res, W, data, frags, skip, path, valid, cls):
    # the process-wide trace switch adds a formatting path over every received frame: half of the cases run with it on
    trace_on = (len(data) + len(frags) + (1 if skip else 0)) % 2 == 0
    W.enableTrace(trace_on, handler=_NULL)
    if trace_on:
        res.count("recv_cases_with_trace_on")
    code = b"\x03\xe8"
    if path.startswith("close"):
        code = {"close": b"\x03\xe8", "close-3000": b"\x0b\xb8", "close-4999": b"\x13\x87", "close-1011": b"\x03\xf3"}[path]
        stream = R.encode(R.CLOSE, code + data)
    else:
        stream = b""
        for i, f in enumerate(frags):
            stream += R.encode(R.TEXT if i == 0 else R.CONT, f, fin=1 if i == len(frags) - 1 else 0)
    # what follows a (possibly rejected) message is judged on its own: a continuation byte that would complete the rejected
    # tail, a plain text, a binary message
    follow = [(R.TEXT, b"\xac"), (R.TEXT, b"hello"), (R.BINARY, b"sentinel")]
    for op, body in follow:
        stream += R.encode(op, body)
    case = {"gen": "recv", "data": data, "frags": [len(f) for f in frags], "skip_utf8_validation": skip, "path": path, "trace": trace_on}

    def scen():
        w, conn, peer = H.connected_ws(after=stream, ws_kwargs={"skip_utf8_validation": skip}, timeout=1)
        try:
            if path == "text":
                first = ("value", w.recv())
            else:
                op, d = w.recv_data()
                first = ("value", (op, d))
        except BaseException as e:  # noqa
            first = ("exc", e)
        after = []
        if not path.startswith("close") and w.connected:
            for _ in follow:
                try:
                    after.append(("value", w.recv_data()))
                except BaseException as e:  # noqa
                    after.append(("exc", e))
        return first, after

    ((kind, val), after), _ = H.in_sim(scen)
    W.enableTrace(False)
    res.count("recv_cases")
    res.case(("recv", data, tuple(len(f) for f in frags), skip, path), nontrivial=any(b >= 0x80 for b in data))
    exc_name = type(val).__name__ if kind == "exc" else None
    if path.startswith("close"):
        must_accept = valid or skip
        if must_accept:
            ok = kind == "value" and val[0] == R.CLOSE and bytes(val[1]) == code + data
        else:
            ok = kind == "exc" and isinstance(val, (W.WebSocketProtocolException, W.WebSocketPayloadException))
    elif path == "text":
        if valid:
            ok = kind == "value" and val == data.decode("utf-8")
        elif skip:
            # recv() has to build a str: "bytes pass through unchanged" is judged on recv_data();
            # an internal error here belongs to C17 and is only recorded.
            res.count("unjudged_recv_skip_invalid")
            res.count("unjudged_recv_skip_invalid:" + (exc_name or "value"))
            return
        else:
            ok = kind == "exc" and isinstance(val, (W.WebSocketProtocolException, W.WebSocketPayloadException))
    else:
        if valid or skip:
            ok = kind == "value" and val[0] == R.TEXT and bytes(val[1]) == data
        else:
            ok = kind == "exc" and isinstance(val, (W.WebSocketProtocolException, W.WebSocketPayloadException))
    if ok and after:
        # the next messages on the same connection: b"\xac" alone is ill-formed (rejected unless validation is off), then "hello", then binary
        exp_after = [("exc",) if not skip else ("value", (R.TEXT, b"\xac")), ("value", (R.TEXT, b"hello")), ("value", (R.BINARY, b"sentinel"))]
        for (ek, *ev), (ak, av) in zip(exp_after, after):
            good = (ek == "exc" and ak == "exc" and isinstance(av, (W.WebSocketProtocolException, W.WebSocketPayloadException))) or \
                   (ek == "value" and ak == "value" and (av[0], bytes(av[1])) == ev[0])
            res.count("followup_messages_checked")
            if not good:
                res.violation("recv-after-rejection", f"payload {data.hex()} ({cls}) frags={case['frags']} skip={skip}: the message after it: expected {ek} {ev}, got {ak} {repr(av)[:80]}",
                              case, input_class=cls, skip=skip, first_outcome=("rejected" if kind == "exc" else "delivered"))
                break
    if not ok:
        res.violation("recv-mismatch",
                      f"payload {data.hex()} ({cls}) frags={case['frags']} skip={skip} path={path}: got {('exception ' + exc_name + ': ' + str(val)[:80]) if kind == 'exc' else repr(val)[:80]}",
                      case, input_class=cls, skip=skip, path=path, outcome=exc_name or "delivered")
    res.sample(case)
