"""C07 - every ping is answered exactly once, same payload, before any
further read; nothing is written for pongs or data frames."""
from __future__ import annotations

import itertools
import random

from .. import harness as H
from .. import monitors as M
from ..ref import rfc6455 as R

SHARDS = {"quick": 10, "thorough": 18}  # the last two shards repeat shard 0's share under special interpreter conditions (see run())


def shard_pyflags(tier, shard, nshards):
    return ["-b"] if shard == nshards - 2 else []
META = {
    "level": "exploration",
    "technique": "runtime monitoring: interleaved transport log (reads and writes in program order) checked by an ordering oracle against ping positions computed by an independent decoder",
    "claim": "For every ping payload length 0..125 and for generated streams with 0-6 pings before, between and inside fragmented messages (consecutive pings, pongs and data interleaved, control-frame reporting on and off, recv/recv_data/recv_data_frame, whole and chunked delivery), the transport log showed exactly one well-formed masked pong with the identical payload after the read that completed each ping and before the next read, in ping order, and no other write. Held on the executions observed.",
    "trusted": "reference decoder; simulated socket's log records reads and writes in program order (single thread)",
    "rule": "case = stream + call mode + control_frame flag + segmentation; distinct by stream hash/mode/cuts; non-trivial when the stream contains at least one ping",
    "exhaustive": {"quick": False, "thorough": False},
    "exhaustive_space": {"quick": "ping payload lengths 0..125 (content sampled)", "thorough": "ping payload lengths 0..125 x 4 modes x 3 positions"},
    "bounds": "<= 6 pings per stream in the random part; read-ahead implementations would need a looser ordering oracle",
    "required_counters": ["pongs_checked", "order_windows_checked"],
    "assumptions": [],
}
META["claim"] += " " + 'Also: the same WebSocket object closed (five different ways) and connected again on a new transport still answers every ping.'
META["claim"] += " " + 'Round 3b: floods of 1030-5000 pings/pongs without a data frame in between (every ping answered); about a third of the cases with trace logging on.'
META["claim"] += " " + 'Round 4: 20 MiB (quick) / up to 300 MiB (thorough) of ordinary messages on one connection with pings strewn in - nothing but the pongs is written; pongs through the dispatcher write path over a transport taking 1-64 bytes per write; ambient conditions drawn per connection.'
META["claim"] += " " + 'Round 5: the client busy with its own traffic (half-way through sending a fragmented message, own pings and texts) while server pings arrive - the complete written stream is compared.'
META["claim"] += " " + "Rounds 6-7: server pongs around client pings; the client's own sends refused by the transport before the first byte, key sources bytes / str / default, then pings answered as ever."
META["claim"] += " " + 'Round 8: one shard under python -b with BytesWarning raised inside the library an error, one shard whose library was imported without the ssl module.'

MODES = [("recv", False), ("recv_data", False), ("recv_data", True), ("recv_data_frame", False), ("recv_data_frame", True)]


def run(res, tier, seed, shard, nshards):
    import os
    import sys
    import warnings
    # last shard: an interpreter without the ssl module (ws:// only); the one before: started with -b, BytesWarning raised inside the
    # library is an error (str() / formatting of a bytes payload, e.g. in a log line)
    special = "no-ssl" if shard == nshards - 1 else "bytes-warning" if shard == nshards - 2 else None
    nshards -= 2
    if special:
        shard = 0
    if special == "no-ssl":
        os.environ["WSVERIF_NO_SSL"] = "1"
    W = H.ws()
    if special == "no-ssl":
        if W._http.HAVE_SSL:
            res.inconc("the no-ssl shard got a library with ssl")
            return
        res.count("shard_without_ssl_module")
    if special == "bytes-warning":
        if not sys.flags.bytes_warning:
            res.inconc("the bytes-warning shard was not started with -b")
            return
        warnings.filterwarnings("error", category=BytesWarning, module=r"websocket(\..*)?$")
        res.count("shard_with_bytes_warnings_as_errors")
    amb_dims = tuple(d for d in ("multithread", "tls", "dispatcher", "high_fd", "warn_error", "thread_hop", "truthy") if not (special == "no-ssl" and d == "tls"))
    rng = random.Random((seed << 8) ^ shard ^ 0xC07)
    cases = []
    for n in range(126):
        for mi, mode in enumerate(MODES):
            if tier == "quick" and (n + mi) % 2:
                continue
            for pos in ("before", "inside", "after"):
                cases.append(("len", n, mode, pos))
    for i in range(800 if tier == "quick" else 150000):
        cases.append(("rand", i))
    for where in ("before", "between-messages", "inside-message"):
        for mi, mode in enumerate(MODES):
            for n in ((1500,) if tier == "quick" else (1030, 1500, 5000)):
                if tier == "quick" and (mi + len(where)) % 2:
                    continue
                cases.append(("flood", n, mode, where))

    def scen():
        for i, c in enumerate(cases):
            if i % nshards != shard:
                continue
            if c[0] == "len":
                _, n, mode, pos = c
                payload = rng.randbytes(n)
                ping = R.encode(R.PING, payload)
                a = R.encode(R.TEXT, b"he", fin=0)
                b = R.encode(R.CONT, b"llo", fin=1)
                stream = {"before": ping + a + b, "inside": a + ping + b, "after": a + b + ping}[pos] + R.encode(R.BINARY, b"SENT")
                judge(res, W, rng, stream, mode, ("len", n, mode, pos), None)
            elif c[0] == "flood":
                # a quiet connection on which the server's keep-alive pings (and stray pongs) pile up: every single one is answered
                _, n, mode, where = c
                run_ = b"".join(R.encode(R.PING, b"k%d" % j) if j % 7 else R.encode(R.PONG, b"") for j in range(n))
                a = R.encode(R.TEXT, b"he", fin=0)
                b = R.encode(R.CONT, b"llo", fin=1)
                stream = {"before": run_ + a + b, "between-messages": a + b + run_ + R.encode(R.TEXT, b"x"), "inside-message": a + run_ + b}[where] + R.encode(R.BINARY, b"SENT")
                judge(res, W, rng, stream, mode, ("flood", n, mode, where), None)
            else:
                stream, npings = rand_stream(rng)
                mode = rng.choice(MODES)
                cuts = rng.choice([None, sorted({rng.randrange(1, len(stream)) for _ in range(rng.choice([2, 10, 60]))})])
                judge(res, W, rng, stream, mode, ("rand", npings, mode), cuts)

    with H.ambient((seed, shard, "C07"), res, dims=amb_dims):
        H.in_sim(scen, watchdog=3000)

    def scen2():
        ways = ["close", "shutdown", "server-close", "eof", "send_close+close"]
        for i in range(10 if tier == "quick" else 100):
            if i % nshards == shard:
                reuse_case(res, W, rng, ways[i % len(ways)])
    H.in_sim(scen2, watchdog=3000)

    def scen3():
        # long-lived connection: a large cumulative volume of ordinary data (many messages, fragmented ones, a few big ones) with
        # pings strewn in; nothing but the pongs is ever written
        vols = [(20 << 20, 512 << 10)] if tier == "quick" else [(20 << 20, 512 << 10), (70 << 20, 1 << 20), (300 << 20, 4 << 20), (40 << 20, 3000)]
        for i, (total, msg) in enumerate(vols):
            if i % nshards == shard % max(1, min(nshards, len(vols))) and shard < len(vols):
                volume_case(res, W, rng, total, msg)
        # the client is busy with traffic of its own (half-way through sending a fragmented message, right after a ping or a data frame
        # of its own): pings are answered all the same, and the client's own frames stay intact around the pongs
        for i in range(160 if tier == "quick" else 3000):
            if i % nshards == shard:
                busy_client_case(res, W, rng)
        # pongs written through a dispatcher object (as on every WebSocketApp connection) over a transport that takes a few bytes
        # at a time
        for i in range(24 if tier == "quick" else 400):
            if i % nshards == shard:
                shortwrite_pong_case(res, W, rng)
    H.in_sim(scen3, watchdog=3000)


def volume_case(res, W, rng, total, msg):
    w, conn, peer = H.connected_ws(timeout=5)
    mode = rng.choice(MODES)
    body = (b"0123456789abcdef" * (msg // 16 + 1))[:msg]
    whole = R.encode(R.BINARY, body)
    half = len(body) // 2
    fragged = R.encode(R.BINARY, body[:half], fin=0) + R.encode(R.CONT, body[half:], fin=1)
    sent = 0
    pings = []
    got_msgs = 0
    k = 0
    case = {"gen": "volume", "total": total, "message_size": msg, "mode": mode}
    before = len(peer.client_stream)
    while sent < total:
        k += 1
        stream = b""
        if k % 5 == 0:
            p = b"v%d" % k
            pings.append(p)
            stream += R.encode(R.PING, p)
        stream += fragged if k % 3 == 0 else whole
        conn.deliver(stream)
        sent += len(body)
        try:
            while True:
                name, cf = mode
                if name == "recv":
                    v = w.recv()
                    d = v
                elif name == "recv_data":
                    op, d = w.recv_data(cf)
                    if op in (R.PING, R.PONG):
                        continue  # control frames are reported to the caller in this mode
                else:
                    op, fr = w.recv_data_frame(cf)
                    d = fr.data
                    if op in (R.PING, R.PONG):
                        continue
                break
        except Exception as e:  # noqa
            res.violation("legal-rejected", f"after {sent - len(body)} bytes of ordinary data on one connection (messages of {msg} bytes), message {k} raised "
                          f"{type(e).__name__}: {e}", case, exc_type=type(e).__name__, gen="volume")
            break
        if bytes(d) != body:
            res.violation("value-mismatch", f"volume run: message {k} damaged", case, gen="volume")
            break
        got_msgs += 1
    written = bytes(peer.client_stream[before:])
    frames, rest = R.decode_all(written)
    res.case(("volume", total, msg, mode), nontrivial=True)
    res.count("volume_bytes_received", sent)
    res.count("pongs_checked", len(pings))
    got = [(f.opcode, f.payload) for f in frames]
    exp = [(R.PONG, p) for p in pings]
    if got != exp or rest != len(written):
        extra = [(op, pl[:8]) for op, pl in got if (op, pl) not in exp][:3]
        res.violation("writes-mismatch", f"volume run ({sent} bytes in {k} messages of {msg} bytes, {len(pings)} pings): client wrote {len(got)} frames, expected exactly the "
                      f"{len(exp)} pongs; unexpected: {extra}", case, gen="volume")


def busy_client_case(res, W, rng):
    import socket as _socket
    # the mask keys come from the default source or from one given by the application (bytes or, as in the library's own tests, str)
    ks = rng.choice(["default", "default", "bytes", "str"])
    keyfn = {"default": None, "bytes": lambda n: bytes(rng.randrange(256) for _ in range(n)),
             "str": lambda n: "".join(chr(rng.randrange(0x21, 0x7F)) for _ in range(n))}[ks]
    w, conn, peer = H.connected_ws(timeout=5, ws_kwargs={"get_mask_key": keyfn} if keyfn and rng.random() < 0.5 else None)
    if keyfn and w.get_mask_key is None:
        w.set_mask_key(keyfn)
    res.count("busy_client_keysrc:" + ks)
    mode = rng.choice(MODES)
    before = len(peer.client_stream)
    expected = []  # frames the client is expected to write, in order
    case = {"gen": "busy-client", "mode": mode, "steps": [], "keysrc": ks}
    in_msg = False
    try:
        for step in range(rng.randrange(3, 9)):
            act = rng.choice(["frag-start", "frag-cont", "frag-end", "own-ping", "own-text", "server-ping", "server-ping", "server-text", "server-pong", "own-pong",
                              "own-send-fails"])
            if act == "own-send-fails" and not in_msg:
                # a send of the client's own that the transport refuses before taking a single byte (a full buffer for longer than the
                # timeout): the stream is intact, later pings are answered as ever
                conn.send_error = _socket.timeout("timed out")
                conn.write_plan = iter([0])
                try:
                    rng.choice([lambda: w.send("never written"), lambda: w.ping(b"np"), lambda: w.send_binary(b"n" * 300)])()
                except Exception:  # noqa
                    pass
                conn.send_error = None
                conn.write_plan = None
                res.count("busy_client_failed_own_sends")
            elif act == "own-send-fails":
                continue
            elif act == "frag-start" and not in_msg:
                b = rng.randbytes(rng.choice([0, 3, 200]))
                w.send_frame(W.ABNF.create_frame(b, W.ABNF.OPCODE_BINARY, 0)); expected.append((R.BINARY, b, 0)); in_msg = True
            elif act == "frag-cont" and in_msg:
                b = rng.randbytes(rng.choice([0, 5]))
                w.send_frame(W.ABNF.create_frame(b, W.ABNF.OPCODE_CONT, 0)); expected.append((R.CONT, b, 0))
            elif act == "frag-end" and in_msg:
                b = rng.randbytes(rng.choice([0, 5]))
                w.send_frame(W.ABNF.create_frame(b, W.ABNF.OPCODE_CONT, 1)); expected.append((R.CONT, b, 1)); in_msg = False
            elif act == "own-ping":
                w.ping(b"mine"); expected.append((R.PING, b"mine", 1))
            elif act == "own-text" and not in_msg:
                w.send("own"); expected.append((R.TEXT, b"own", 1))
            elif act == "server-ping":
                p = rng.randbytes(rng.choice([0, 1, 17, 125]))
                conn.deliver(R.encode(R.PING, p) + R.encode(R.TEXT, b"x"))
                expected.append((R.PONG, p, 1))
                name, cf = mode
                # one message-level receive that gets past the ping to the text message
                for _ in range(2):
                    if name == "recv":
                        w.recv(); break
                    op, _d = (w.recv_data(cf) if name == "recv_data" else w.recv_data_frame(cf))
                    if op == R.TEXT:
                        break
            elif act == "server-text":
                conn.deliver(R.encode(R.TEXT, b"y"))
                w.recv()
            elif act == "server-pong":
                # a pong nobody asked for, or one that answers an earlier ping of ours with whatever payload: nothing is written for it
                conn.deliver(R.encode(R.PONG, rng.choice([b"", b"mine", b"server-heartbeat", b"x" * 125])) + R.encode(R.TEXT, b"z"))
                name, cf = mode
                for _ in range(2):
                    if name == "recv":
                        w.recv(); break
                    op, _d = (w.recv_data(cf) if name == "recv_data" else w.recv_data_frame(cf))
                    if op == R.TEXT:
                        break
            elif act == "own-pong":
                w.pong(b"hb"); expected.append((R.PONG, b"hb", 1))
            else:
                continue
            case["steps"].append(act)
    except Exception as e:  # noqa
        res.violation("legal-rejected", f"client busy with its own traffic {case['steps']} (mode {mode}): {type(e).__name__}: {e}", case, gen="busy-client")
        return
    frames, rest = R.decode_all(bytes(peer.client_stream[before:]))
    res.case(("busy", tuple(case["steps"]), mode), nontrivial=True)
    npings = sum(1 for e in expected if e[0] == R.PONG)
    res.count("pongs_checked", npings)
    res.count("pongs_amid_own_traffic", npings)
    got = [(f.opcode, f.payload, f.fin) for f in frames]
    if got != expected or rest != len(peer.client_stream) - before:
        res.violation("writes-mismatch", f"client busy with its own traffic {case['steps']} (mode {mode}): wrote {[(o, len(p), f) for o, p, f in got]}, expected "
                      f"{[(o, len(p), f) for o, p, f in expected]}", case, gen="busy-client")


def shortwrite_pong_case(res, W, rng):
    D = W._dispatcher
    app = type("A", (), {"keep_running": True})()
    kind = rng.choice(["base", "plain", "ssl", "none"])
    d = {"base": lambda: D.DispatcherBase(app, 5), "plain": lambda: D.Dispatcher(app, 5), "ssl": lambda: D.SSLDispatcher(app, 5), "none": lambda: None}[kind]()
    w, conn, peer = H.connected_ws(ws_kwargs={"dispatcher": d} if d is not None else None, timeout=5)
    piece = rng.choice([1, 2, 3, 5, 7, 64])
    conn.write_plan = itertools.cycle([piece])
    mode = rng.choice(MODES)
    pings = [rng.randbytes(rng.choice([0, 1, 23, 125])) for _ in range(rng.randrange(1, 5))]
    stream = b"".join(R.encode(R.PING, p) for p in pings) + R.encode(R.BINARY, b"SENT")
    before = len(peer.client_stream)
    conn.deliver(stream)
    case = {"gen": "shortwrite-pong", "dispatcher": kind, "piece": piece, "mode": mode, "pings": pings}
    try:
        for _ in range(len(pings) + 1):
            name, cf = mode
            if name == "recv":
                w.recv()
                break
            elif name == "recv_data":
                op, dd = w.recv_data(cf)
            else:
                op, fr = w.recv_data_frame(cf)
            if op == R.BINARY:
                break
    except Exception as e:  # noqa
        res.violation("legal-rejected", f"pings answered through {kind} dispatcher, {piece} bytes per write: {type(e).__name__}: {e}", case, gen="shortwrite-pong")
        return
    written = bytes(peer.client_stream[before:])
    frames, rest = R.decode_all(written)
    res.case(("swpong", kind, piece, mode, tuple(pings)), nontrivial=True)
    res.count("pongs_checked", len(pings))
    res.count("pongs_over_short_writes", len(pings))
    if [(f.opcode, f.payload, f.masked) for f in frames] != [(R.PONG, p, 1) for p in pings] or rest != len(written):
        res.violation("writes-mismatch", f"pings answered through {kind} dispatcher with the transport taking {piece} byte(s) per write: wire holds {len(frames)} whole frames "
                      f"+ {len(written) - rest} stray bytes, expected {len(pings)} pongs", case, gen="shortwrite-pong")


def rand_stream(rng):
    parts = []
    npings = 0
    in_msg = False
    for _ in range(rng.randrange(1, 12)):
        r = rng.random()
        if r < 0.4:
            k = rng.choice([1, 1, 2, 3])
            for _ in range(k):
                if npings < 6:
                    parts.append(R.encode(R.PING, rng.randbytes(rng.choice([0, 1, 4, 125, rng.randrange(126)]))))
                    npings += 1
        elif r < 0.55:
            parts.append(R.encode(R.PONG, rng.randbytes(rng.randrange(0, 126))))
        else:
            fin = rng.randrange(2)
            op = R.CONT if in_msg else rng.choice([R.TEXT, R.BINARY])
            parts.append(R.encode(op, bytes(rng.randrange(0x20, 0x7f) for _ in range(rng.choice([0, 1, 5, 200]))), fin=fin))
            in_msg = not fin
    if in_msg:
        parts.append(R.encode(R.CONT, b"", fin=1))
    if rng.random() < 0.3:
        parts.append(R.encode(R.CLOSE, b"\x03\xe8"))
    else:
        parts.append(R.encode(R.BINARY, b"SENT"))
    return b"".join(parts), npings


import logging as _logging

_NULL = _logging.NullHandler()


def judge(res, W, rng, stream, mode, tag, cuts):
    name, cf = mode
    trace_on = (len(stream) + len(cuts or ())) % 3 == 0
    W.enableTrace(trace_on, handler=_NULL)
    if trace_on:
        res.count("cases_with_trace_on")
    nframes = len(R.decode_all(stream)[0])
    script = [(name, cf)] * (nframes + 1)
    segs = None
    if cuts:
        segs = [stream[a:b] for a, b in zip([0] + cuts, cuts + [len(stream)])]
    pred, model = M.predict(stream, script, ending="eof")
    obs = H.run_recv_script(stream, script, segs=segs, ending="eof")
    issues, judged, unj = M.compare(pred, obs)
    oissues, checked = M.write_order_monitor(obs, model)
    from ..core import h64
    npings = len(model.ping_offsets)
    res.case((h64(stream), mode, tuple(cuts or ())), nontrivial=npings > 0)
    res.count("pongs_checked", sum(1 for p in pred for w in p["writes"] if w[0] == "pong"))
    res.count("order_windows_checked", checked)
    res.count("pings_in_streams", npings)
    res.count(f"mode:{name}:{cf}")
    W.enableTrace(False)
    case = {"tag": tag, "stream": stream, "mode": mode, "cuts": cuts, "trace": trace_on}
    for kind, detail, fields in issues + oissues:
        res.violation(kind, f"{tag}: {detail}", case, **fields)
    if npings:
        res.sample(case, cap=3)


def reuse_case(res, W, rng, how):
    """the same WebSocket object, closed and connected again on a new transport, still answers every ping"""
    from ..sim import net
    w = W.WebSocket()
    so1, c1 = net.pair()
    H.HandshakePeer(c1, on_bytes=lambda c, d: None)
    so1.settimeout(1)
    w.connect("ws://sim.test/", socket=so1)
    try:
        if how == "close":
            c1.deliver(R.encode(R.CLOSE, b"\x03\xe8"))
            w.close(timeout=0.1)
        elif how == "shutdown":
            w.shutdown()
        elif how == "server-close":
            c1.deliver(R.encode(R.CLOSE, b"\x03\xe8bye"))
            w.recv()
            w.close()
        elif how == "eof":
            c1.peer_close()
            try:
                w.recv()
            except W.WebSocketConnectionClosedException:
                pass
        else:
            w.send_close()
            w.close()
    except Exception as e:  # noqa
        res.violation("reuse-setup-raised", f"{how}: {type(e).__name__}: {e}", {"how": how}, how=how)
        return
    payload = rng.randbytes(rng.choice([0, 3, 125]))
    stream = R.encode(R.TEXT, b"a", fin=0) + R.encode(R.PING, payload) + R.encode(R.CONT, b"b") + R.encode(R.PING, b"second") + R.encode(R.BINARY, b"SENT")
    so2, c2 = net.pair()
    p2 = H.HandshakePeer(c2, after=stream)
    so2.settimeout(1)
    res.case(("reuse", how, len(payload)), nontrivial=True)
    res.count("object_reuse_cases")
    case = {"gen": "object-reuse", "first_connection_ended_by": how, "ping_payload": payload}
    try:
        w.connect("ws://sim.test/", socket=so2)
        got = [w.recv(), w.recv()]
    except Exception as e:  # noqa
        res.violation("reuse-recv-raised", f"second connection of the same object (first ended by {how}): {type(e).__name__}: {e}", case, how=how)
        return
    frames, pos = R.decode_all(bytes(p2.client_stream))
    pongs = [f.payload for f in frames if f.opcode == R.PONG]
    res.count("pongs_checked", 2)
    if got != ["ab", b"SENT"] or pongs != [payload, b"second"] or len(frames) != 2:
        res.violation("writes-mismatch", f"second connection of the same object (first ended by {how}): received {got!r}, pongs written {pongs!r} (frames {[f.opcode for f in frames]})",
                      case, how=how, call="recv")
