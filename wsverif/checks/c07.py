"""C07 - every ping is answered exactly once, same payload, before any
further read; nothing is written for pongs or data frames."""
from __future__ import annotations

import random

from .. import harness as H
from .. import monitors as M
from ..ref import rfc6455 as R

SHARDS = {"quick": 8, "thorough": 16}
META = {
    "level": "exploration",
    "technique": "runtime monitoring: interleaved transport log (reads and writes in program order) checked by an ordering oracle against ping positions computed by an independent decoder",
    "claim": "For every ping payload length 0..125 and for generated streams with 0-6 pings before, between and inside fragmented messages (consecutive pings, pongs and data interleaved, control-frame reporting on and off, recv/recv_data/recv_data_frame, whole and chunked delivery), the transport log showed exactly one well-formed masked pong with the identical payload after the read that completed each ping and before the next read, in ping order, and no other write. Held on the executions observed.",
    "trusted": "reference decoder; simulated socket's log records reads and writes in program order (single thread)",
    "rule": "case = stream + call mode + control_frame flag + segmentation; distinct by stream hash/mode/cuts; non-trivial when the stream contains at least one ping",
    "exhaustive": {"quick": False, "thorough": False},
    "exhaustive_space": {"quick": "ping payload lengths 0..125 (content sampled)", "thorough": "ping payload lengths 0..125 x 4 modes x 3 positions"},
    "bounds": "<= 6 pings per stream in the random part; read-ahead implementations would need a looser ordering oracle",
    "required_counters": ["pongs_checked", "order_windows_checked"],
    "assumptions": [],
}
META["claim"] += " " + 'Also: the same WebSocket object closed (five different ways) and connected again on a new transport still answers every ping.'
META["claim"] += " " + 'Round 3b: floods of 1030-5000 pings/pongs without a data frame in between (every ping answered); about a third of the cases with trace logging on.'

MODES = [("recv", False), ("recv_data", False), ("recv_data", True), ("recv_data_frame", False), ("recv_data_frame", True)]


def run(res, tier, seed, shard, nshards):
    W = H.ws()
    rng = random.Random((seed << 8) ^ shard ^ 0xC07)
    cases = []
    for n in range(126):
        for mi, mode in enumerate(MODES):
            if tier == "quick" and (n + mi) % 2:
                continue
            for pos in ("before", "inside", "after"):
                cases.append(("len", n, mode, pos))
    for i in range(800 if tier == "quick" else 150000):
        cases.append(("rand", i))
    for where in ("before", "between-messages", "inside-message"):
        for mi, mode in enumerate(MODES):
            for n in ((1500,) if tier == "quick" else (1030, 1500, 5000)):
                if tier == "quick" and (mi + len(where)) % 2:
                    continue
                cases.append(("flood", n, mode, where))

    def scen():
        for i, c in enumerate(cases):
            if i % nshards != shard:
                continue
            if c[0] == "len":
                _, n, mode, pos = c
                payload = rng.randbytes(n)
                ping = R.encode(R.PING, payload)
                a = R.encode(R.TEXT, b"he", fin=0)
                b = R.encode(R.CONT, b"llo", fin=1)
                stream = {"before": ping + a + b, "inside": a + ping + b, "after": a + b + ping}[pos] + R.encode(R.BINARY, b"SENT")
                judge(res, W, rng, stream, mode, ("len", n, mode, pos), None)
            elif c[0] == "flood":
                # a quiet connection on which the server's keep-alive pings (and stray pongs) pile up: every single one is answered
                _, n, mode, where = c
                run_ = b"".join(R.encode(R.PING, b"k%d" % j) if j % 7 else R.encode(R.PONG, b"") for j in range(n))
                a = R.encode(R.TEXT, b"he", fin=0)
                b = R.encode(R.CONT, b"llo", fin=1)
                stream = {"before": run_ + a + b, "between-messages": a + b + run_ + R.encode(R.TEXT, b"x"), "inside-message": a + run_ + b}[where] + R.encode(R.BINARY, b"SENT")
                judge(res, W, rng, stream, mode, ("flood", n, mode, where), None)
            else:
                stream, npings = rand_stream(rng)
                mode = rng.choice(MODES)
                cuts = rng.choice([None, sorted({rng.randrange(1, len(stream)) for _ in range(rng.choice([2, 10, 60]))})])
                judge(res, W, rng, stream, mode, ("rand", npings, mode), cuts)

    H.in_sim(scen, watchdog=3000)

    def scen2():
        ways = ["close", "shutdown", "server-close", "eof", "send_close+close"]
        for i in range(10 if tier == "quick" else 100):
            if i % nshards == shard:
                reuse_case(res, W, rng, ways[i % len(ways)])
    H.in_sim(scen2, watchdog=3000)


def rand_stream(rng):
    parts = []
    npings = 0
    in_msg = False
    for _ in range(rng.randrange(1, 12)):
        r = rng.random()
        if r < 0.4:
            k = rng.choice([1, 1, 2, 3])
            for _ in range(k):
                if npings < 6:
                    parts.append(R.encode(R.PING, rng.randbytes(rng.choice([0, 1, 4, 125, rng.randrange(126)]))))
                    npings += 1
        elif r < 0.55:
            parts.append(R.encode(R.PONG, rng.randbytes(rng.randrange(0, 126))))
        else:
            fin = rng.randrange(2)
            op = R.CONT if in_msg else rng.choice([R.TEXT, R.BINARY])
            parts.append(R.encode(op, bytes(rng.randrange(0x20, 0x7f) for _ in range(rng.choice([0, 1, 5, 200]))), fin=fin))
            in_msg = not fin
    if in_msg:
        parts.append(R.encode(R.CONT, b"", fin=1))
    if rng.random() < 0.3:
        parts.append(R.encode(R.CLOSE, b"\x03\xe8"))
    else:
        parts.append(R.encode(R.BINARY, b"SENT"))
    return b"".join(parts), npings


import logging as _logging

_NULL = _logging.NullHandler()


def judge(res, W, rng, stream, mode, tag, cuts):
    name, cf = mode
    trace_on = (len(stream) + len(cuts or ())) % 3 == 0
    W.enableTrace(trace_on, handler=_NULL)
    if trace_on:
        res.count("cases_with_trace_on")
    nframes = len(R.decode_all(stream)[0])
    script = [(name, cf)] * (nframes + 1)
    segs = None
    if cuts:
        segs = [stream[a:b] for a, b in zip([0] + cuts, cuts + [len(stream)])]
    pred, model = M.predict(stream, script, ending="eof")
    obs = H.run_recv_script(stream, script, segs=segs, ending="eof")
    issues, judged, unj = M.compare(pred, obs)
    oissues, checked = M.write_order_monitor(obs, model)
    from ..core import h64
    npings = len(model.ping_offsets)
    res.case((h64(stream), mode, tuple(cuts or ())), nontrivial=npings > 0)
    res.count("pongs_checked", sum(1 for p in pred for w in p["writes"] if w[0] == "pong"))
    res.count("order_windows_checked", checked)
    res.count("pings_in_streams", npings)
    res.count(f"mode:{name}:{cf}")
    W.enableTrace(False)
    case = {"tag": tag, "stream": stream, "mode": mode, "cuts": cuts, "trace": trace_on}
    for kind, detail, fields in issues + oissues:
        res.violation(kind, f"{tag}: {detail}", case, **fields)
    if npings:
        res.sample(case, cap=3)


def reuse_case(res, W, rng, how):
    """the same WebSocket object, closed and connected again on a new transport, still answers every ping"""
    from ..sim import net
    w = W.WebSocket()
    so1, c1 = net.pair()
    H.HandshakePeer(c1, on_bytes=lambda c, d: None)
    so1.settimeout(1)
    w.connect("ws://sim.test/", socket=so1)
    try:
        if how == "close":
            c1.deliver(R.encode(R.CLOSE, b"\x03\xe8"))
            w.close(timeout=0.1)
        elif how == "shutdown":
            w.shutdown()
        elif how == "server-close":
            c1.deliver(R.encode(R.CLOSE, b"\x03\xe8bye"))
            w.recv()
            w.close()
        elif how == "eof":
            c1.peer_close()
            try:
                w.recv()
            except W.WebSocketConnectionClosedException:
                pass
        else:
            w.send_close()
            w.close()
    except Exception as e:  # noqa
        res.violation("reuse-setup-raised", f"{how}: {type(e).__name__}: {e}", {"how": how}, how=how)
        return
    payload = rng.randbytes(rng.choice([0, 3, 125]))
    stream = R.encode(R.TEXT, b"a", fin=0) + R.encode(R.PING, payload) + R.encode(R.CONT, b"b") + R.encode(R.PING, b"second") + R.encode(R.BINARY, b"SENT")
    so2, c2 = net.pair()
    p2 = H.HandshakePeer(c2, after=stream)
    so2.settimeout(1)
    res.case(("reuse", how, len(payload)), nontrivial=True)
    res.count("object_reuse_cases")
    case = {"gen": "object-reuse", "first_connection_ended_by": how, "ping_payload": payload}
    try:
        w.connect("ws://sim.test/", socket=so2)
        got = [w.recv(), w.recv()]
    except Exception as e:  # noqa
        res.violation("reuse-recv-raised", f"second connection of the same object (first ended by {how}): {type(e).__name__}: {e}", case, how=how)
        return
    frames, pos = R.decode_all(bytes(p2.client_stream))
    pongs = [f.payload for f in frames if f.opcode == R.PONG]
    res.count("pongs_checked", 2)
    if got != ["ab", b"SENT"] or pongs != [payload, b"second"] or len(frames) != 2:
        res.violation("writes-mismatch", f"second connection of the same object (first ended by {how}): received {got!r}, pongs written {pongs!r} (frames {[f.opcode for f in frames]})",
                      case, how=how, call="recv")
