"""C08 - closing handshake and connection state follow one consistent state
machine."""
from __future__ import annotations

import itertools
import random
import struct

from .. import harness as H
from ..ref import rfc6455 as R
from ..sim import net, sched

SHARDS = {"quick": 8, "thorough": 16}
META = {
    "level": "fault_enumeration",
    "technique": "runtime monitoring: every step of enumerated call/event histories is observed (frames written, return/exception, connected flag, transport closed flag, transport log growth, virtual time spent in close()) and checked online against a reference connection state machine",
    "claim": "Over all histories up to length 4 (quick) / 5 (thorough, plus random histories up to length 30) of send / recv / ping / close() / close(code, reason) / close(out-of-range) / send_close / shutdown calls interleaved with server text, ping, close frame with and without body, and end of stream, against silent and answering peers: at most one close frame was written on the client's own initiative per connection, close(code, reason) in the open state wrote exactly the RFC encoding, out-of-range statuses wrote nothing (ValueError in the open state), after close()/shutdown()/reported end of stream the transport was closed and every later send/recv/ping/send_close raised WebSocketConnectionClosedException without a further transport call, and close(timeout=t) returned within t of virtual time.",
    "trusted": "reference state machine in this file (rules R1-R6 of DESIGN.md section 4/C08); simulated transport log",
    "rule": "case = (history, peer mode); distinct by that; non-trivial when the history contains at least one closing action (close/send_close/shutdown/server close/EOF) followed by another step",
    "exhaustive": {"quick": True, "thorough": True},
    "exhaustive_space": {"quick": "all 14^k histories, k<=4, peer mode alternating (both modes for k<=3)", "thorough": "all 14^k histories, k<=5, both peer modes"},
    "bounds": "single-threaded; sends between an explicit send_close() and release are not judged; reset (ECONNRESET) only recorded",
    "required_counters": ["post_release_calls_checked", "close_calls_checked", "own_close_frames_seen"],
    "assumptions": [],
}
META["claim"] += " " + "Also: a third of the histories without the thread-safety locks (enable_multithread=False); reset as a transport fault for the release rules; close(timeout) against peers that stream for ever / answer late / end the stream, with socket timeouts None/0.3/1/5; close() racing with a reader thread that receives the server's close frame (DFS + random schedules at sync/IO granularity); close(timeout) on a real TLS connection against a peer that never reacts."
META["claim"] += " " + "Round 4: the transport fails (timeout / reset / EIO) after 1-7 bytes of the client's own close frame under send_close(), close() and the automatic reply; a later close() starts no second close frame and releases the transport."
META["claim"] += " " + 'Round 5: close(timeout=0 / 0.0); two objects in one process - a thread in a receive call on a silent connection while close() runs on the other.'
META["claim"] += " " + 'Rounds 6-7: leftover bytes after close, real TCP with queued data; close() after send_close(), after an answered server close and after a rejected frame (timing, release, and five later calls raising the connection-closed exception).'
META["claim"] += " " + 'Round 8: close() interrupted by a non-Exception while writing / waiting; real TCP with a reader thread blocked in recv() while close(timeout=0 / 0.3) is called (known finding for the waiting close).'

CLIENT = ["send", "recv", "ping", "close", "close_code", "close_bad", "send_close", "shutdown"]
SERVER = ["s_text", "s_ping", "s_close_body", "s_close", "s_eof", "s_reset"]
ALPHA = CLIENT + SERVER
CLOSING = {"close", "close_code", "send_close", "shutdown", "s_close_body", "s_close", "s_eof"}


def run(res, tier, seed, shard, nshards):
    W = H.ws()
    rng = random.Random((seed << 8) ^ shard ^ 0xC08)
    maxk = 4 if tier == "quick" else 5
    if shard == 0:
        crossing_closes(res, W, tier, seed)
    if shard == 1 % nshards:
        real_tls_close(res, W)
    if shard == 3 % nshards:
        real_tcp_close_with_queued_data(res, W)
    if shard == 4 % nshards:
        real_tcp_close_with_blocked_reader(res, W)
    if shard == 2 % nshards:
        for peer2 in ("silent", "answers"):
            for sock_to1 in (None, 30):
                for close_to in (0.5, 2):
                    for reader_api in ("recv", "recv_frame", "recv_data"):
                        two_objects_case(res, W, rng, peer2, sock_to1, close_to, reader_api)

    def scen():
        idx = 0
        for k in range(1, maxk + 1):
            for hist in itertools.product(ALPHA, repeat=k):
                idx += 1
                if idx % nshards != shard:
                    continue
                if tier == "thorough" or k <= 3:
                    modes = ("silent", "answers")
                else:
                    modes = (("silent", "answers")[(idx // nshards) % 2],)
                for mode in modes:
                    history_case(res, W, rng, hist, mode, exhaustive=True)
        n_rand = (2000 if tier == "quick" else 60000) // nshards
        for _ in range(n_rand):
            k = rng.randrange(5, 31)
            # bias towards clients calls; closing symbols rarer so that histories stay alive
            hist = tuple(rng.choice(ALPHA if rng.random() < 0.25 else ["send", "recv", "ping", "s_text", "s_ping", "recv", "send_close", "close_bad"]) for _ in range(k))
            history_case(res, W, rng, hist, rng.choice(["silent", "answers", "chatty"]), exhaustive=False)
        # R6: close(timeout=t) returns within t whatever the socket timeout and however the peer behaves
        ti = 0
        for sock_to in (None, 0.3, 1, 5):
            for close_to in (0, 0.0, 0.5, 2, 3):
                for peer in ("silent", "answers", "answers-late", "stream-0.05", "stream-0.4", "stream-pings", "eof"):
                    ti += 1
                    if ti % nshards == shard:
                        close_timing_case(res, W, sock_to, close_to, peer)
                        # the same when close() is not the first thing that ended the conversation: the client has sent its close
                        # frame with send_close() already, has answered the server's close frame in a receive call, or a receive
                        # call has just rejected a frame (an unknown opcode with an empty payload, a non-final ping)
                        prior = ["send_close", "server-close-answered", "rejected-empty-frame", "rejected-ping-frame"][ti % 4]
                        if close_to or ti % 3 == 0:
                            close_timing_case(res, W, sock_to, close_to, peer, prior=prior)
        ii = 0
        for when in ("waiting", "waiting-after-data", "writing"):
            for sock_to in (None, 1):
                for close_to in (0.5, 3, None):
                    ii += 1
                    if ii % nshards == shard:
                        close_interrupted_case(res, W, when, sock_to, close_to)
        # the transport fails in the middle of the client's own close frame (a few bytes accepted, then a timeout / reset / I/O
        # error): whatever is called next, close() does not start a second close frame, and it releases the transport
        wi = 0
        for api in ("send_close", "close", "recv-reply"):
            for k in (1, 2, 3, 5, 7):
                for err in ("timeout", "reset", "eio"):
                    for nolock in (False, True):
                        wi += 1
                        if wi % nshards == shard:
                            write_failure_case(res, W, rng, api, k, err, nolock)
        # a receive call timed out in the middle of a frame whose payload bytes, taken by themselves, look like complete little frames; then
        # the connection is closed / shut down: later receive calls raise the connection-closed exception, they do not dig in leftovers
        li = 0
        for got in (8, 24, 40):
            for closer in ("close", "shutdown", "close-then-shutdown"):
                for api in ("recv", "recv_data", "recv_frame"):
                    li += 1
                    if li % nshards == shard:
                        leftover_case(res, W, got, closer, api)
        # statuses and reasons for R5
        if shard == 0:
            for status in (-1, 0, 999, 1000, 1001, 3000, 4999, 65535, 65536, 1 << 20):
                for rl in (0, 1, 50, 123):
                    for api in ("close", "send_close"):
                        encoding_case(res, W, rng, api, status, rl)

    H.in_sim(scen, watchdog=3000)


class Peer:
    """Answers the opening handshake; in 'answers' mode replies to the first
    client close frame with a close frame; 'chatty' keeps sending text."""

    def __init__(self, conn, mode):
        self.mode = mode
        self.buf = bytearray()
        self.hs = H.HandshakePeer(conn, on_bytes=self.on_bytes)
        self.replied = False

    def on_bytes(self, conn, data):
        self.buf += data
        frames, pos = R.decode_all(bytes(self.buf))
        del self.buf[:pos]
        for f in frames:
            if f.opcode == R.CLOSE and not self.replied:
                if self.mode == "answers":
                    self.replied = True
                    conn.deliver(R.encode(R.CLOSE, f.payload[:2]))
                elif self.mode == "chatty":
                    self.replied = True
                    for i in range(5):
                        conn.deliver(R.encode(R.TEXT, b"still talking %d" % i))


def history_case(res, W, rng, hist, mode, exhaustive):
    so, conn = net.pair()
    peer = Peer(conn, mode)
    # every third history runs without the thread-safety locks (enable_multithread=False): same state machine
    nolock = (len(hist) + sum(map(len, hist))) % 3 == 0
    w = W.WebSocket(enable_multithread=not nolock)
    if nolock:
        res.count("histories_without_locks")
    so.settimeout(1)
    w.sock_opt.timeout = 1
    w.connect("ws://sim.test/", socket=so)
    hs = peer.hs
    st = {
        "released": False,        # transport must be gone; R1 applies
        "own_close": 0,           # close frames written on the client's own initiative
        "explicit_close": 0,
        "server_close_seen": False,
        "eof_queued": False,
        "reset": False,
    }
    nontrivial = any(s in CLOSING for s in hist[:-1])
    res.case((hist, mode), nontrivial=nontrivial)
    case = {"history": hist, "peer": mode}
    S = sched.CURRENT

    def bad(kind, step, detail, **kw):
        res.violation(kind, f"history {list(hist)} peer={mode} step {step} ({hist[step]}): {detail}", case, step_call=hist[step], **kw)

    for i, sym in enumerate(hist):
        if sym in SERVER:
            if st["eof_queued"] or conn.client_closed:
                continue
            if sym == "s_text":
                conn.deliver(R.encode(R.TEXT, b"msg%d" % i))
            elif sym == "s_ping":
                conn.deliver(R.encode(R.PING, b"p%d" % i))
            elif sym == "s_close_body":
                conn.deliver(R.encode(R.CLOSE, b"\x03\xe9going"))
            elif sym == "s_close":
                conn.deliver(R.encode(R.CLOSE, b""))
            elif sym == "s_reset":
                # outside the property's quantifier for send/recv (only recorded), but close()/shutdown() must still release the transport
                conn.peer_reset()
                st["eof_queued"] = True
                st["reset"] = True
            else:
                conn.peer_close()
                st["eof_queued"] = True
            continue
        # ---- client call ----
        log_before = len(conn.log)
        after_close_before = len(conn.calls_after_close)
        sent_before = len(hs.client_stream)
        t0 = S.now
        # after an injected reset only the release rules (R1/R2) are judged: every write fails, so encoding/refusal clauses are moot
        open_state = (not st["released"] and st["own_close"] == 0 and st["explicit_close"] == 0 and not st["server_close_seen"] and not st["reset"])
        was_connected = w.connected
        exc = None
        ret = None
        try:
            if sym == "send":
                ret = w.send("data%d" % i)
            elif sym == "recv":
                ret = w.recv() if i % 2 else w.recv_data_frame(True)
            elif sym == "ping":
                ret = w.ping(b"hb")
            elif sym == "close":
                ret = w.close(timeout=2)
            elif sym == "close_code":
                ret = w.close(1001, b"bye now", timeout=2)
            elif sym == "close_bad":
                ret = w.close(rng.choice([-1, 65536, 70000]), b"x", timeout=2)
            elif sym == "send_close":
                ret = w.send_close(1000, b"expl")
            elif sym == "shutdown":
                ret = w.shutdown()
        except BaseException as e:  # noqa
            if isinstance(e, (KeyboardInterrupt, sched.SimAbort)):
                raise
            exc = e
        dt = S.now - t0
        written = bytes(hs.client_stream[sent_before:])
        frames, pos = R.decode_all(written)
        closes = [f for f in frames if f.opcode == R.CLOSE]
        log_growth = len(conn.log) - log_before
        ename = type(exc).__name__ if exc else None

        # ---- R1: after release ----
        if st["released"]:
            res.count("post_release_calls_checked")
            if log_growth or len(conn.calls_after_close) > after_close_before:
                bad("transport-touched-after-release", i, f"transport log gained {log_growth} entries / {conn.calls_after_close[after_close_before:]}")
            if sym in ("send", "recv", "ping", "send_close") and not isinstance(exc, W.WebSocketConnectionClosedException):
                bad("no-closed-exception-after-release", i, f"got {ename or repr(ret)[:40]} instead of WebSocketConnectionClosedException", got=ename or "returned")
            if sym in ("close", "close_code", "shutdown", "close_bad") and exc is not None and not isinstance(exc, (W.WebSocketConnectionClosedException, ValueError)):
                bad("close-after-release-raised", i, f"{ename}: {exc}", got=ename)
            continue

        # ---- R4: close frames written ----
        if sym in ("close", "close_code", "close_bad", "recv", "send", "ping", "shutdown"):
            if closes:
                st["own_close"] += len(closes)
                res.count("own_close_frames_seen", len(closes))
                if sym == "recv":
                    st["server_close_seen"] = True
            if st["own_close"] > 1:
                bad("second-own-close-frame", i, f"{st['own_close']} close frames written on the client's own initiative on this connection", via=sym)
                st["own_close"] = 1  # report once per additional frame
        if sym == "send_close":
            if exc is None:
                st["explicit_close"] += 1
                if len(closes) != 1 or len(frames) != 1:
                    bad("send_close-frame-count", i, f"send_close() wrote {len(closes)} close frames / {len(frames)} frames")
                elif closes[0].payload != struct.pack("!H", 1000) + b"expl":
                    bad("close-encoding", i, f"send_close payload {closes[0].payload!r}")
            elif not isinstance(exc, (W.WebSocketException, OSError)):
                bad("send_close-raised", i, f"{ename}: {exc}", got=ename)
            else:
                # the transport failed under send_close(): the closing handshake was attempted, the state is no longer "open"
                st["explicit_close"] += 1

        # ---- R5: close(code, reason) ----
        if sym in ("close", "close_code"):
            res.count("close_calls_checked")
            if exc is not None:
                bad("close-raised", i, f"{ename}: {exc}", got=ename)
            if open_state:
                want = struct.pack("!H", 1000) if sym == "close" else struct.pack("!H", 1001) + b"bye now"
                if len(closes) != 1 or closes[0].payload != want or not closes[0].masked or not closes[0].fin:
                    bad("close-encoding", i, f"close() in the open state wrote {[c.payload for c in closes]!r}, expected one frame {want!r}")
            # R6 timing
            limit = 2.0 + (1.0 if mode == "chatty" else 0.0) + 1e-9
            if dt > limit:
                bad("close-timeout-exceeded", i, f"close(timeout=2) took {dt} virtual seconds (limit {limit})", peer=mode)
            res.count("close_durations_checked")
        if sym == "close_bad":
            if written:
                bad("bad-status-wrote-bytes", i, f"{len(written)} bytes written for an out-of-range status")
            if open_state:
                if not isinstance(exc, ValueError):
                    bad("bad-status-not-refused", i, f"open state: got {ename or 'return'} instead of ValueError")
                elif not w.connected or conn.client_closed:
                    bad("bad-status-changed-state", i, f"connected={w.connected} closed={conn.client_closed} after a refused status")
            res.count("bad_status_checked")

        # ---- R2/R3: release ----
        releasing = False
        if sym in ("close", "close_code", "shutdown") and exc is None:
            releasing = True
        if sym == "close_bad" and exc is None and not open_state:
            releasing = True  # close() returned normally: "closed by close()"
        if isinstance(exc, W.WebSocketConnectionClosedException):
            releasing = True  # end of stream (or lost connection) reported to the caller
        if releasing:
            st["released"] = True
            res.count("releases")
            if not conn.client_closed:
                how = "close()" if sym.startswith("close") else sym
                bad("transport-not-released", i, f"after {how} {'raised ' + ename if exc else 'returned'} the transport is still open (connected={w.connected})",
                    via=sym, prior="server-close" if st["server_close_seen"] else "explicit-send_close" if st["explicit_close"] else "other")
                # keep judging R1 only if the transport really is closed; otherwise one report is enough
                return
            if w.connected:
                bad("connected-after-release", i, f"connected flag still True after {sym}")
        elif exc is not None and st["reset"] and isinstance(exc, OSError):
            res.count("reset_errors_recorded")
        elif exc is not None and not isinstance(exc, (W.WebSocketException, OSError, ValueError)):
            bad("internal-exception", i, f"{ename}: {exc}", got=ename)
    res.sample(case, cap=3) if nontrivial else None


def leftover_case(res, W, got, closer, api):
    inner = R.encode(R.TEXT, b"hello") + R.encode(R.TEXT, b"abc") + R.encode(R.BINARY, b"\x01\x02\x03\x04\x05\x06") + R.encode(R.PING, b"p")
    payload = (inner * 4)[:64]
    frame = R.encode(R.BINARY, payload)
    so, conn = net.pair()
    hs = H.HandshakePeer(conn)
    w = W.WebSocket()
    so.settimeout(0.5)
    w.sock_opt.timeout = 0.5
    w.connect("ws://sim.test/", socket=so)
    conn.deliver(frame[:2 + got])  # header + part of the payload, then silence
    case = {"gen": "leftover", "payload_bytes_received": got, "closed_by": closer, "call": api}
    res.case(("leftover", got, closer, api), nontrivial=True)
    res.count("leftover_cases")
    try:
        getattr(w, api)()
        return  # (cannot happen: the frame is incomplete)
    except W.WebSocketTimeoutException:
        pass
    except Exception as e:  # noqa
        res.violation("internal-exception", f"receive on a half-arrived frame: {type(e).__name__}: {e}", case, step_call=api, got=type(e).__name__)
        return
    try:
        if closer.startswith("close"):
            w.close(timeout=0.2)
        if closer.endswith("shutdown"):
            w.shutdown()
    except Exception as e:  # noqa
        res.violation("close-raised", f"{closer} after a receive timeout inside a frame: {type(e).__name__}: {e}", case, step_call="close", got=type(e).__name__)
        return
    if not conn.client_closed:
        res.violation("transport-not-released", f"{closer} after a receive timeout inside a frame left the transport open", case, step_call="close", via=closer, prior="timeout-mid-frame")
        return
    log_before = len(conn.log)
    for i in range(3):
        try:
            v = getattr(w, api)()
            res.violation("no-closed-exception-after-release", f"after {closer}, {api}() #{i + 1} returned {repr(v)[:60]} (bytes left over from the frame that was being "
                          f"received when the connection was closed) instead of raising WebSocketConnectionClosedException", case, step_call=api, got="returned")
            return
        except W.WebSocketConnectionClosedException:
            res.count("post_release_calls_checked")
        except Exception as e:  # noqa
            res.violation("no-closed-exception-after-release", f"after {closer}, {api}() #{i + 1} raised {type(e).__name__}: {e} instead of WebSocketConnectionClosedException",
                          case, step_call=api, got=type(e).__name__)
            return
    if len(conn.log) != log_before or conn.calls_after_close:
        res.violation("transport-touched-after-release", f"after {closer}, {api}() touched the transport: {conn.calls_after_close[:3]}", case, step_call=api)


def write_failure_case(res, W, rng, api, k, err, nolock):
    import errno
    import socket as _socket
    so, conn = net.pair()
    hs = H.HandshakePeer(conn)
    w = W.WebSocket(enable_multithread=not nolock)
    so.settimeout(1)
    w.sock_opt.timeout = 1
    w.connect("ws://sim.test/", socket=so)
    e = {"timeout": lambda: _socket.timeout("timed out"), "reset": lambda: ConnectionResetError(errno.ECONNRESET, "Connection reset by peer"),
         "eio": lambda: OSError(errno.EIO, "Input/output error")}[err]()

    def plan():
        conn.send_error = e  # consulted at the start of the *next* write
        yield k

    case = {"gen": "write-failure", "api": api, "accepted": k, "error": err, "enable_multithread": not nolock}
    res.case(("wf", api, k, err, nolock), nontrivial=True)
    if api == "recv-reply":
        conn.deliver(R.encode(R.CLOSE, b"\x03\xe8"))
    conn.write_plan = plan()
    before = len(hs.client_stream)
    first_exc = None
    try:
        if api == "send_close":
            w.send_close(1000, b"going away")
        elif api == "close":
            w.close(1000, b"going away", timeout=1)
        else:
            w.recv()
    except BaseException as x:  # noqa
        if isinstance(x, (KeyboardInterrupt, sched.SimAbort)):
            raise
        first_exc = x
    partial = bytes(hs.client_stream[before:])
    if len(partial) != k:
        res.count("write_failure_not_partial")
        return  # the injection did not land inside the close frame (nothing to judge)
    res.count("mid_close_frame_write_failures")
    if first_exc is not None and not isinstance(first_exc, (W.WebSocketException, OSError)):
        res.violation("internal-exception", f"write failure ({err}) after {k} bytes of the close frame under {api}: {type(first_exc).__name__}: {first_exc}", case, step_call=api,
                      got=type(first_exc).__name__)
        return
    # whatever the application does next ends with close()
    follow = rng.choice([("close",), ("recv", "close"), ("ping", "close"), ("close", "close")])
    conn.write_plan = None
    for sym in follow:
        mark = len(hs.client_stream)
        exc = None
        try:
            if sym == "close":
                w.close(timeout=1)
            elif sym == "recv":
                w.recv()
            else:
                w.ping(b"x")
        except BaseException as x:  # noqa
            if isinstance(x, (KeyboardInterrupt, sched.SimAbort)):
                raise
            exc = x
        wrote = bytes(hs.client_stream[mark:])
        if sym == "close":
            if wrote:
                res.violation("second-own-close-frame", f"the transport failed ({err}) after {k} bytes of the client's close frame under {api}; a later close() wrote "
                              f"{len(wrote)} more bytes ({wrote[:6].hex()}): a second close frame started on this connection", case, step_call=api, via="close-after-failed-write")
                return
            if exc is not None:
                res.violation("close-raised", f"close() after a failed close-frame write ({err}, {api}): {type(exc).__name__}: {exc}", case, step_call=api, got=type(exc).__name__)
                return
            if not conn.client_closed or w.connected:
                res.violation("transport-not-released", f"close() after a failed close-frame write ({err}, {api}) left the transport open (connected={w.connected})", case,
                              step_call=api, via="close-after-failed-write", prior="failed-own-close")
                return
        elif exc is not None and not isinstance(exc, (W.WebSocketException, OSError)):
            res.violation("internal-exception", f"{sym} after a failed close-frame write: {type(exc).__name__}: {exc}", case, step_call=sym, got=type(exc).__name__)
            return


def encoding_case(res, W, rng, api, status, rl):
    reason = bytes(rng.randrange(0x20, 0x7f) for _ in range(rl))
    so, conn = net.pair()
    peer = Peer(conn, "answers")
    w = W.WebSocket()
    so.settimeout(1)
    w.connect("ws://sim.test/", socket=so)
    res.case(("enc", api, status, rl), nontrivial=True)
    case = {"api": api, "status": status, "reason_len": rl}
    exc = None
    try:
        if api == "close":
            w.close(status, reason, timeout=1)
        else:
            w.send_close(status, reason)
    except Exception as e:  # noqa
        exc = e
    written = bytes(peer.hs.client_stream)
    frames, _ = R.decode_all(written)
    legal_range = 0 <= status < 65536
    res.count("encoding_cases")
    if not legal_range:
        if written or not isinstance(exc, ValueError):
            res.violation("bad-status-not-refused", f"{api}({status}): wrote {len(written)} bytes, exception {type(exc).__name__ if exc else None}", case, step_call=api)
        elif not w.connected and api == "close":
            res.violation("bad-status-changed-state", f"{api}({status}) left connected={w.connected}", case, step_call=api)
    else:
        want = struct.pack("!H", status) + reason
        if exc is not None or len(frames) != 1 or frames[0].opcode != R.CLOSE or frames[0].payload != want:
            res.violation("close-encoding", f"{api}({status}, {rl} bytes): frames {[(f.opcode, f.payload[:8]) for f in frames]} exc={exc!r}", case, step_call=api)


def close_timing_case(res, W, sock_to, close_to, peer, prior="none"):
    """R6.  The peer never answers the close (or answers late / streams other
    frames for ever / ends the stream); close(timeout=close_to) must return by
    close_to (+ one gap of the stream, since the deadline is checked between
    frames) and leave the transport released."""
    so, conn = net.pair()
    hs = H.HandshakePeer(conn)
    w = W.WebSocket()
    so.settimeout(sock_to)
    w.sock_opt.timeout = sock_to
    w.connect("ws://sim.test/", socket=so)
    S = sched.CURRENT
    gap = 0.0
    if prior != "none":
        res.count("close_durations_checked_after:" + prior)
        try:
            if prior == "send_close":
                w.send_close()
            elif prior == "server-close-answered":
                conn.deliver(R.encode(R.CLOSE, b"\x03\xe9bye"))
                w.recv()
            else:
                conn.deliver(b"\x83\x00" if prior == "rejected-empty-frame" else b"\x09\x00")
                w.recv()
        except BaseException as e:  # noqa
            if isinstance(e, (KeyboardInterrupt, sched.SimAbort)):
                raise
    if peer.startswith("stream"):
        gap = {"stream-0.05": 0.05, "stream-0.4": 0.4, "stream-pings": 0.1}[peer]
        frame = R.encode(R.PING, b"k") if peer == "stream-pings" else R.encode(R.TEXT, b"still here")

        def tick():
            if not conn.client_closed:
                conn.deliver(frame)
                S.after(gap, tick)
        S.after(gap, tick)
    elif peer == "eof":
        S.after(0.2, conn.peer_close)
    elif peer in ("answers", "answers-late"):
        delay = 0.1 if peer == "answers" else close_to + 5

        def on_bytes(c, data):
            S.after(delay, lambda: (not c.client_closed) and c.deliver(R.encode(R.CLOSE, b"\x03\xe8")))
        hs.on_bytes = on_bytes
    t0 = S.now
    exc = None
    try:
        w.close(timeout=close_to)
    except BaseException as e:  # noqa
        if isinstance(e, (KeyboardInterrupt, sched.SimAbort)):
            raise
        exc = e
    dt = S.now - t0
    res.case(("close-timing", sock_to, close_to, peer, prior), nontrivial=True)
    res.count("close_durations_checked")
    case = {"gen": "close-timing", "socket_timeout": sock_to, "close_timeout": close_to, "peer": peer, "before_close": prior}
    if prior != "none":
        peer = f"{peer} (after {prior})"
    limit = close_to + gap + 1e-6
    if exc is not None:
        res.violation("close-raised", f"close(timeout={close_to}) sock_timeout={sock_to} peer={peer}: {type(exc).__name__}: {exc}", case, step_call="close", got=type(exc).__name__)
    if dt > limit:
        res.violation("close-timeout-exceeded", f"close(timeout={close_to}) with socket timeout {sock_to} against peer '{peer}' took {dt:.3f} virtual seconds (limit {limit:.3f})",
                      case, step_call="close", peer=peer, socket_timeout=repr(sock_to))
    if not conn.client_closed:
        res.violation("transport-not-released", f"close(timeout={close_to}) sock_timeout={sock_to} peer={peer}: transport still open", case, step_call="close", via="close", prior="timing")
    if prior != "none" and exc is None:
        # closed is closed: every later call raises the connection-closed exception, without touching a transport
        n_ev = len(so.events) if hasattr(so, "events") else None
        for name, fn in (("recv", w.recv), ("recv_data", w.recv_data), ("recv_frame", w.recv_frame), ("send", lambda: w.send("x")), ("ping", w.ping)):
            try:
                fn()
                got = "returned"
            except BaseException as e:  # noqa
                if isinstance(e, (KeyboardInterrupt, sched.SimAbort)):
                    raise
                got = type(e).__name__
            res.count("calls_after_close_checked")
            if got != "WebSocketConnectionClosedException":
                res.violation("after-close", f"{name}() after close() (before it: {prior}; peer {peer}): {got}, expected WebSocketConnectionClosedException", case,
                              step_call=name, got=got, prior=prior)


def close_interrupted_case(res, W, when, sock_to, close_to):
    """close() is interrupted by something that is not an Exception (Ctrl-C, a green-thread Timeout) while it writes its close frame or
    waits for the server's: whether the interruption is passed on or swallowed, the transport is released and the connection is closed
    for good - no later call writes behind the close frame."""
    so, conn = net.pair()
    H.HandshakePeer(conn)
    w = W.WebSocket()
    so.settimeout(sock_to)
    w.sock_opt.timeout = sock_to
    w.connect("ws://sim.test/", socket=so)
    before = len(conn.sent)
    if when == "waiting":
        conn.deliver_segments([(net.ERROR, H.InjectedInterrupt())])
    elif when == "waiting-after-data":
        conn.deliver(R.encode(R.TEXT, b"still talking"))
        conn.deliver_segments([(net.ERROR, H.InjectedInterrupt())])
    else:
        conn.send_error = H.InjectedInterrupt()
    raised = None
    try:
        w.close(timeout=close_to)
    except H.InjectedInterrupt as e:
        raised = e
    case = {"gen": "close-interrupted", "interrupted_while": when, "socket_timeout": sock_to, "close_timeout": close_to, "interrupt_passed_on": raised is not None}
    res.case(("close-interrupted", when, sock_to, close_to), nontrivial=True)
    res.count("close_interrupted_cases")
    if raised is not None and when != "writing":
        res.count("close_interrupt_passed_on")
    if raised is None and not conn.client_closed:
        res.violation("transport-not-released", f"close() interrupted while {when} (interrupt swallowed): transport still open afterwards", case,
                      step_call="close", via="close", prior="interrupted")
        return
    n_sent = len(conn.sent)
    for name, fn in (("send", lambda: w.send("x")), ("recv", w.recv), ("ping", w.ping)):
        try:
            fn()
            got = "returned"
        except BaseException as e:  # noqa
            if isinstance(e, (KeyboardInterrupt, sched.SimAbort)) and not isinstance(e, H.InjectedInterrupt):
                raise
            got = type(e).__name__
        if got != "WebSocketConnectionClosedException" or len(conn.sent) != n_sent:
            res.violation("after-close", f"{name}() after an interrupted close() ({when}): {got}; {len(conn.sent) - n_sent} bytes written behind the close", case,
                          step_call=name, got=got, prior="interrupted")
            return
    if raised is not None:
        # passed on to the application: it closes again (the documented way out), which must release the transport
        try:
            w.close(timeout=0)
        except Exception:  # noqa
            pass
        if not conn.client_closed:
            res.violation("transport-not-released", f"close() interrupted while {when} (interrupt passed on), then close() again: transport still open", case,
                          step_call="close", via="close", prior="interrupted")
            return
    frames, _ = R.decode_all(bytes(conn.sent[before:]))
    if sum(1 for f in frames if f.opcode == R.CLOSE) > 1:
        res.violation("close-frames", f"interrupted close() ({when}): {sum(1 for f in frames if f.opcode == R.CLOSE)} close frames written", case, step_call="close")


def two_objects_case(res, W, rng, peer2, sock_to1, close_to, reader_api):
    """Two connections in one process: a thread sits in a receive call on the first (its server is silent) while close() is called
    on the second.  The second closes within its timeout and releases its transport; the first goes on undisturbed."""
    out = {}

    def scen():
        S = sched.CURRENT
        w1, c1, p1 = H.connected_ws(timeout=sock_to1)
        w2, c2, p2 = H.connected_ws(timeout=None)
        if peer2 == "answers":
            p2.on_bytes = lambda c, d: S.after(0.1, lambda: (not c.client_closed) and c.deliver(R.encode(R.CLOSE, b"\x03\xe8")))
        got = []

        def reader():
            try:
                got.append(("value", getattr(w1, reader_api)()))
            except BaseException as e:  # noqa
                if isinstance(e, sched.SimAbort):
                    raise
                got.append(("exc", e))
        a = S.spawn(reader, name="reader1")
        S.sleep(0.5)
        t0 = S.now
        try:
            w2.close(timeout=close_to)
            out["exc"] = None
        except BaseException as e:  # noqa
            if isinstance(e, sched.SimAbort):
                raise
            out["exc"] = e
        out["dt"] = S.now - t0
        out["released"] = c2.client_closed
        c1.deliver(R.encode(R.TEXT, b"later"))
        S.block(lambda: a.state == sched.DONE, 30, why="join reader")
        out["got"] = got

    S = sched.Sched(horizon=120, watchdog=60)
    case = {"gen": "two-objects", "peer_of_closing_connection": peer2, "reader_socket_timeout": sock_to1, "close_timeout": close_to, "reader_call": reader_api}
    res.case(("two-objects", peer2, sock_to1, close_to, reader_api), nontrivial=True)
    res.count("two_object_cases")
    try:
        S.run(scen)
    except sched.SimFailure as e:
        if isinstance(e, sched.WatchdogExpired):
            res.inconc("two-objects case: watchdog")
        else:
            res.violation("close-timeout-exceeded", f"close(timeout={close_to}) on one connection while a thread is in {reader_api}() on another (silent) connection: "
                          f"{type(e).__name__}: {str(e)[:160]}", case, step_call="close", peer=peer2, socket_timeout=repr(sock_to1))
        return
    limit = close_to + 1e-6
    if out.get("exc") is not None:
        res.violation("close-raised", f"two objects: close() raised {type(out['exc']).__name__}: {out['exc']}", case, step_call="close", got=type(out["exc"]).__name__)
    elif out["dt"] > limit:
        res.violation("close-timeout-exceeded", f"close(timeout={close_to}) took {out['dt']:.3f} virtual seconds while a thread sat in {reader_api}() on another connection "
                      f"(limit {limit:.3f})", case, step_call="close", peer=peer2, socket_timeout=repr(sock_to1))
    elif not out["released"]:
        res.violation("transport-not-released", "two objects: transport of the closed connection still open", case, step_call="close", via="close", prior="two-objects")
    g = out.get("got") or []
    if g and g[0][0] == "exc" and not isinstance(g[0][1], W.WebSocketTimeoutException):
        res.violation("internal-exception", f"two objects: the reader on the other connection got {type(g[0][1]).__name__}: {g[0][1]}", case, step_call=reader_api,
                      got=type(g[0][1]).__name__)


def crossing_closes(res, W, tier, seed):
    """R4 under the default thread-safe configuration: the application's close() and the reply to the server's
    close frame (sent from a thread sitting in recv()) are both 'own initiative' - together at most one close frame.
    Interleavings are explored at synchronisation / IO granularity (lock operations and transport calls), where the
    library's own ordering (mark closed, then write) is what makes it hold."""
    def scenario(write_piece):
        def scen():
            S = sched.CURRENT
            w, conn, peer = H.connected_ws(timeout=2)
            conn.write_plan = itertools.cycle([write_piece]) if write_piece else None
            conn.deliver(R.encode(R.TEXT, b"m") + R.encode(R.CLOSE, b"\x03\xe9srv"))
            out = {"errors": []}

            def closer():
                try:
                    w.close(1001, b"bye", timeout=1)
                except BaseException as e:  # noqa
                    if isinstance(e, sched.SimAbort):
                        raise
                    out["errors"].append(("close", e))

            def reader():
                try:
                    while True:
                        w.recv()
                        if not w.connected:
                            return
                except W.WebSocketException:
                    return
                except OSError:
                    return
                except BaseException as e:  # noqa
                    if isinstance(e, sched.SimAbort):
                        raise
                    out["errors"].append(("recv", e))

            actors = [S.spawn(closer, name="closer"), S.spawn(reader, name="reader")]
            S.arm(line_points=False)
            S.block(lambda: all(a.state == sched.DONE for a in actors), None, why="join")
            out["conn"], out["peer"] = conn, peer
            return out
        return scen

    def judge(out, S, tag):
        frames, pos = R.decode_all(bytes(out["peer"].client_stream))
        closes = [f for f in frames if f.opcode == R.CLOSE]
        case = {"gen": "crossing-closes", "tag": tag, "decisions": list(S.decisions)[:200]}
        res.case(("crossing", tag, tuple(S.decisions)), nontrivial=S.switches > 0)
        res.count("crossing_close_schedules")
        res.count("own_close_frames_seen", len(closes))
        if pos != len(out["peer"].client_stream):
            tail = bytes(out["peer"].client_stream[pos:])
            # what the stray bytes are: the beginning of one masked close frame that was never finished, or something else
            what = "truncated-close-frame" if tail[0] == 0x88 and (len(tail) < 2 or tail[1] & 0x80) and len(tail) < 6 + (tail[1] & 0x7F if len(tail) > 1 else 125) else "other"
            res.violation("wire-garbage", f"crossing closes {tag}: {len(tail)} stray bytes on the wire ({what}: {tail[:8].hex()}) behind "
                          f"{[(f.opcode, f.length) for f in frames]}", case, step_call="close", scenario="crossing-closes", stray=what,
                          whole_close_frames=len(closes))
        if len(closes) > 1:
            res.violation("second-own-close-frame", f"crossing closes {tag}: the client wrote {len(closes)} close frames {[c.payload for c in closes]}", case, via="threads")
        if not out["conn"].client_closed:
            res.violation("transport-not-released", f"crossing closes {tag}: transport still open after close() returned", case, step_call="close", via="threads", prior="crossing")
        for who, e in out["errors"]:
            if not isinstance(e, (W.WebSocketException, OSError)):
                res.violation("internal-exception", f"crossing closes {tag}: {who} raised {type(e).__name__}: {e}", case, got=type(e).__name__)

    # a schedule recorded once by the random exploration (thorough tier, seed 2), replayed on every run: the reader thread is three bytes
    # into its reply to the server's close frame when the application's close() releases the socket (known finding
    # C08-close-cuts-the-close-reply-another-thread-is-writing)
    S = sched.Sched(strategy=sched.ReplayStrategy([2, 2, 2, 2, 2, 2, 2, 2, 2, 2, 2, 2, 2, 2, 1, 2, 1]), horizon=600, watchdog=60)
    try:
        judge(S.run(scenario(3)), S, "recorded piece=3")
    except sched.SimFailure as e:
        res.violation("hang", f"crossing closes (recorded schedule): {type(e).__name__}: {e}", {"gen": "crossing-closes"}, how=type(e).__name__)
    for piece in (None, 3):
        prefix, n = [], 0
        budget = 400 if tier == "quick" else 6000
        while prefix is not None and n < budget:
            st = sched.DFSStrategy(prefix)
            S = sched.Sched(strategy=st, horizon=600, watchdog=60)
            try:
                out = S.run(scenario(piece))
                judge(out, S, f"dfs piece={piece}")
            except sched.SimFailure as e:
                res.violation("hang", f"crossing closes: {type(e).__name__}: {e}", {"gen": "crossing-closes", "decisions": list(S.decisions)[:200]}, how=type(e).__name__)
            n += 1
            prefix = sched.dfs_next_prefix(st.trace)
        res.notes[f"crossing_closes_dfs_complete:piece={piece}"] = prefix is None
        for i in range(100 if tier == "quick" else 2000):
            S = sched.Sched(strategy=sched.RandomStrategy((seed << 16) ^ i, p_switch=0.5), horizon=600, watchdog=60)
            try:
                out = S.run(scenario(piece))
                judge(out, S, f"random piece={piece}")
            except sched.SimFailure as e:
                res.violation("hang", f"crossing closes: {type(e).__name__}: {e}", {"gen": "crossing-closes", "decisions": list(S.decisions)[:200]}, how=type(e).__name__)


def real_tcp_close_with_blocked_reader(res, W):
    """Real TCP: a second thread sits in recv() (no timeout) while close(timeout=...) is called.  The transport is released for real: the
    server sees the close frame and then the end of the stream, and the blocked reader comes back with the connection-closed exception
    (closing a descriptor alone does neither while a recv() on it is in flight).  Generous limits; has to reproduce twice."""
    import socket
    import threading
    import time
    for close_to in (0, 0.3):
        for attempt in range(2):
            lsock = socket.socket()
            lsock.setsockopt(socket.SOL_SOCKET, socket.SO_REUSEADDR, 1)
            lsock.bind(("127.0.0.1", 0))
            lsock.listen(1)
            port = lsock.getsockname()[1]
            seen = {"bytes": bytearray(), "eof_at": None}
            t0 = time.monotonic()

            def server(lsock=lsock, seen=seen):
                try:
                    lsock.settimeout(10)
                    c, _ = lsock.accept()
                    c.settimeout(8)
                    buf = b""
                    while b"\r\n\r\n" not in buf:
                        d = c.recv(4096)
                        if not d:
                            return
                        buf += d
                    c.sendall(H.response_101(H.request_key(buf) or ""))
                    while True:
                        d = c.recv(4096)  # never answers the close frame
                        if not d:
                            seen["eof_at"] = time.monotonic()
                            break
                        seen["bytes"].extend(d)
                    c.close()
                except OSError:
                    pass
                finally:
                    lsock.close()
            st = threading.Thread(target=server, daemon=True)
            st.start()
            box = {}
            try:
                w = W.create_connection(f"ws://127.0.0.1:{port}/", timeout=None)
            except Exception as e:  # noqa
                res.notes["real_tcp_close_with_blocked_reader"] = f"could not connect: {e}"
                return

            def reader(w=w, box=box):
                try:
                    box["got"] = w.recv()
                except BaseException as e:  # noqa
                    box["exc"] = e
                box["reader_done"] = time.monotonic()
            rt = threading.Thread(target=reader, daemon=True)
            rt.start()
            time.sleep(0.3)  # let the reader block
            tc = time.monotonic()
            try:
                w.close(timeout=close_to)
            except Exception as e:  # noqa
                box["close_exc"] = e
            rt.join(4.0)
            st.join(6.0)
            res.count("real_tcp_close_with_blocked_reader_runs")
            frames, _ = R.decode_all(bytes(seen["bytes"]))
            problems = []
            if seen["eof_at"] is None or seen["eof_at"] - tc > 3.0 + close_to:
                problems.append("the server did not see the end of the stream within 3 s of close()")
            if rt.is_alive():
                problems.append("the reader blocked in recv() never came back")
            elif not isinstance(box.get("exc"), W.WebSocketConnectionClosedException):
                problems.append(f"the blocked reader came back with {box.get('exc')!r} / {box.get('got')!r}")
            if sum(1 for f in frames if f.opcode == R.CLOSE) != 1:
                problems.append(f"{sum(1 for f in frames if f.opcode == R.CLOSE)} close frames reached the server")
            if not problems:
                break
            if attempt == 1:
                res.violation("transport-not-released", f"real TCP, a thread blocked in recv() while close(timeout={close_to}) is called: " + "; ".join(problems),
                              {"gen": "real-tcp-blocked-reader", "close_timeout": close_to}, step_call="close", via="close", prior="blocked-reader",
                              close_waits_for_reply=bool(close_to), reader_came_back=not rt.is_alive())


def real_tcp_close_with_queued_data(res, W):
    """R6 on a real TCP connection whose peer has stopped reading while earlier messages of the client still sit in the kernel's send
    queue: close(timeout=0.5) and shutdown() return promptly all the same (they must not wait for the queue to drain).  Generous
    limit (5 s); has to reproduce twice before it is reported."""
    import socket
    import threading
    import time
    for what in ("close", "shutdown"):
        for attempt in range(2):
            lsock = socket.socket()
            lsock.setsockopt(socket.SOL_SOCKET, socket.SO_REUSEADDR, 1)
            lsock.setsockopt(socket.SOL_SOCKET, socket.SO_RCVBUF, 4096)
            lsock.bind(("127.0.0.1", 0))
            lsock.listen(1)
            port = lsock.getsockname()[1]
            stop = threading.Event()

            def server(lsock=lsock, stop=stop):
                try:
                    lsock.settimeout(10)
                    c, _ = lsock.accept()
                    buf = b""
                    while b"\r\n\r\n" not in buf:
                        d = c.recv(4096)
                        if not d:
                            return
                        buf += d
                    c.sendall(H.response_101(H.request_key(buf) or ""))
                    stop.wait(20)  # ... and never read again
                    c.close()
                except OSError:
                    pass
                finally:
                    lsock.close()
            th = threading.Thread(target=server, daemon=True)
            th.start()
            box = {}

            def client(port=port, box=box, what=what):
                try:
                    w = W.create_connection(f"ws://127.0.0.1:{port}/", timeout=0.3)
                    try:
                        for _ in range(6):
                            w.send_binary(b"q" * 65536)
                    except Exception:  # noqa
                        pass  # the queue is full: exactly the situation wanted
                    t0 = time.monotonic()
                    if what == "close":
                        w.close(timeout=0.5)
                    else:
                        w.shutdown()
                    box["dt"] = time.monotonic() - t0
                except BaseException as e:  # noqa
                    box["exc"] = e
            ct = threading.Thread(target=client, daemon=True)
            ct.start()
            ct.join(8.0)
            slow = ct.is_alive() or box.get("dt", 0) > 5.0
            stop.set()
            if slow and attempt == 0:
                ct.join(15)
                continue
            res.case(("real-tcp-close-queued", what), nontrivial=True)
            res.count("real_tcp_close_runs")
            res.count("close_durations_checked")
            case = {"gen": "real-tcp-close-queued", "call": what}
            if slow:
                res.violation("close-timeout-exceeded", f"real TCP connection whose peer stopped reading, unsent data queued: {what}() had not returned after "
                              f"{'8' if ct.is_alive() else round(box['dt'], 2)} s", case, step_call=what, peer="tcp-not-reading", socket_timeout="0.3")
            elif "exc" in box and "dt" not in box:
                res.notes[f"real_tcp_close:{what}"] = f"skipped: {box['exc']!r}"
            ct.join(15)
            break


def real_tls_close(res, W):
    """R6 on a real ssl.SSLSocket: close(timeout=0.3) against a TLS server that never answers (and one that answers)
    returns promptly and releases the socket.  The limit is generous (5 s) and only an unbounded wait can exceed it."""
    import shutil
    import threading
    import time
    from .. import realtls
    try:
        d, P = realtls.minted("c08")
    except Exception as e:  # noqa
        res.notes["real_tls_close"] = f"skipped: certificates could not be minted ({e})"
        return
    try:
        for peer in ("silent", "answers"):
            for sock_to in (None, 2):
              for attempt in range(2):
                def script(srv, conn, resp, peer=peer):
                    conn.sendall(resp)
                    if peer == "answers":
                        conn.settimeout(5)
                        try:
                            conn.recv(64)
                            conn.sendall(R.encode(R.CLOSE, b"\x03\xe8"))
                        except OSError:
                            pass
                    srv.drain(conn, 7.0 if peer == "silent" else 1.0, stay_open=(peer == "silent"))
                    conn.close()
                srv = realtls.ScriptedTLSServer(P["leaf-A-local"], script)
                srv.start()
                box = {}

                def client():
                    try:
                        w = W.create_connection(f"wss://localhost:{srv.port}/", timeout=4, sslopt={"ca_certs": P["caA"]})
                        w.settimeout(sock_to)
                        box["raw"] = w.sock
                        t0 = time.monotonic()
                        w.close(timeout=0.3)
                        box["dt"] = time.monotonic() - t0
                        box["sock_after"] = w.sock
                    except BaseException as e:  # noqa
                        box["exc"] = e
                th = threading.Thread(target=client, daemon=True)
                th.start()
                th.join(6.5)
                slow = th.is_alive() or box.get("dt", 0) > 5.0
                if slow and attempt == 0:
                    continue  # wall clock: must reproduce
                res.case(("real-tls-close", peer, sock_to), nontrivial=True)
                res.count("real_tls_close_runs")
                res.count("close_durations_checked")
                case = {"gen": "real-tls-close", "peer": peer, "socket_timeout": sock_to}
                if slow:
                    res.violation("close-timeout-exceeded", f"real TLS connection, peer {peer}, socket timeout {sock_to}: close(timeout=0.3) had not returned after {'6.5' if th.is_alive() else round(box['dt'], 2)} s",
                                  case, step_call="close", peer="tls-" + peer, socket_timeout=repr(sock_to))
                elif "exc" in box and "dt" not in box:
                    res.notes[f"real_tls_close:{peer}:{sock_to}"] = f"connect failed: {box['exc']!r} (skipped)"
                elif box.get("sock_after") is not None:
                    res.violation("transport-not-released", f"real TLS connection, peer {peer}: socket still attached after close()", case, step_call="close", via="close", prior="tls")
                srv.join(0.1)
                break
    finally:
        shutil.rmtree(d, ignore_errors=True)
