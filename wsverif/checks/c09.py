"""C09 - a connection is reported established only after a valid upgrade
response; redirects are bounded and never success."""
from __future__ import annotations

import random

from .. import harness as H
from ..sim import sched, shim

SHARDS = {"quick": 8, "thorough": 16}
META = {
    "level": "fault_enumeration",
    "technique": "runtime monitoring with fault injection: scripted server responses (response-head grammar, redirect chains, EOF/timeout at every byte) on a simulated network; outcome of connect()/create_connection(), connected flag, status and every transport's closed flag compared with a reference acceptance predicate",
    "claim": "For every generated response head (status codes, Upgrade/Connection present/absent/other/token lists/odd case/padded, accept value right/for another key/for the previous connection's key/truncated/extended/empty/missing, subprotocol offered/selected combinations, header-name case, duplicate unrelated headers), every redirect chain length 0..5 against every limit 0..5, and EOF or silence at every byte offset of a valid response, connect() returned a connected object exactly when the reference predicate accepts; otherwise it raised, every transport created was closed and the object stayed unconnected.",
    "trusted": "reference acceptance predicate in this file (written from RFC 6455 section 4.1 and the property text); simulated network",
    "rule": "case = response description / (L, N, final) / (cut offset, fault); distinct by that tuple; non-trivial when the response deviates from the canonical valid one in at least one field, or a redirect/fault is involved",
    "exhaustive": {"quick": False, "thorough": False},
    "exhaustive_space": {"quick": "all (L,N) in 0..5x0..5 x {valid,invalid final}; EOF and timeout at every byte offset of the canonical response",
                         "thorough": "same + all 5 redirect statuses; EOF/timeout at every offset of 4 response variants"},
    "bounds": "accept values differing only in letter case, subprotocol differing only in case, and duplicated Upgrade/Connection headers are recorded but not judged",
    "required_counters": ["must_accept", "must_reject", "redirect_cases", "truncation_cases"],
    "assumptions": [],
}
META["claim"] += " " + "Also: status tokens that merely begin with 101, interim 1xx heads carrying the upgrade headers, a required header's text smuggled into an over-long unrelated line at power-of-two offsets, and the wait for the response ended from outside (KeyboardInterrupt) at every byte."
META["claim"] += " " + 'Round 4: offered subprotocols as list, tuple, iterator and generator (one-shot iterables judged in the reject direction only).'
META["claim"] += " " + 'Round 5: the right accept value with characters a lenient base64 decoder skips (. - blank quotes), a suffix after the padding, doubled, extra padding, folded; Upgrade / Connection tokens broken across a continuation line.'
META["claim"] += " " + "Rounds 6-7: casefold look-alikes, negative limits; a second status line inside the header block (first line 403/404/200/500/400/0); required headers that exist only behind VT, FF, FS, GS, RS, NEL, U+2028, U+2029, a lone CR or NUL inside another header's value."
META["claim"] += " " + 'Round 8: subprotocols given as one plain string; one of Upgrade / Connection carrying both tokens while the other is missing or wrong.'

STATUSES = [100, 101, 101, 101, 101, 200, 204, 300, 304, 400, 401, 403, 404, 426, 500, 503, 999, "1015", "1010", "101x", "0101", "101.0", "10", "1101", "102", "103"]
UPGRADE = [("websocket", True), ("WebSocket", True), ("websocket, foo", True), ("foo,websocket", True), ("  websocket  ", True),
           ("h2c", False), ("websockets", False), ("web socket", False), (None, False), ("", False),
           # a continuation line (obsolete line folding) in the middle of the token: never the token "websocket"
           ("web\r\n socket", False), ("websoc\r\n\tket", False),
           # characters that only Unicode *full* case folding maps onto ASCII letters (long s, ligatures): not the token "websocket"
           ("web\u017focket", False), ("WEB\u017fOCKET", False), ("web\ufb06ocket"[:3] + "socket\u200b", False)]
CONNECTION = [("Upgrade", True), ("upgrade", True), ("keep-alive, Upgrade", True), ("UPGRADE,keep-alive", True),
              ("close", False), ("keep-alive", False), ("Upgrades", False), (None, False), ("", False),
              ("Up\r\n grade", False), ("keep-alive, Up\r\n  grade", False), ("\uff35pgrade", False), ("Upgrad\u212f", False)]
ACCEPT = ["right", "right", "right", "right", "prev-key", "random-key", "truncated", "extended", "empty", "missing", "case-flipped",
          # the right value with characters mixed in / appended that a lenient base64 decoder would skip
          "with-dot", "with-dash", "with-space", "quoted", "suffix-after-padding", "doubled", "extra-padding", "with-newline-fold", "long-s-for-s", "kelvin-for-k"]


def rand_case(rng, s):
    return "".join(ch.upper() if rng.random() < 0.5 else ch.lower() for ch in s)


def build_response(rng, d, key, prev_key):
    if d.get("interim"):
        # the interim head carries everything a valid upgrade needs; the final 101 head then depends on the variant
        right = H.accept_for(key)
        ist = d.get("interim_status", 100)
        interim = (f"HTTP/1.1 {ist} Continue\r\nUpgrade: websocket\r\nConnection: Upgrade\r\nSec-WebSocket-Accept: {right}\r\n"
                   + (f"Sec-WebSocket-Protocol: {d['offered'][0]}\r\n" if d.get("offered") else "") + "\r\n").encode()
        if d["interim"] == "carries-the-headers":
            return interim + b"HTTP/1.1 101 Switching Protocols\r\n\r\n"
        d2 = dict(d)
        d2["interim"] = None
        return interim + build_response(rng, d2, key, prev_key)
    lines = [f"HTTP/1.1 {d['status']} {d.get('reason', 'X')}"]
    hn = (lambda s: rand_case(rng, s)) if d.get("name_case") else (lambda s: s)
    hdrs = []
    if d["upgrade"] is not None:
        hdrs.append(f"{hn('Upgrade')}: {d['upgrade']}")
    if d["connection"] is not None:
        hdrs.append(f"{hn('Connection')}: {d['connection']}")
    a = d["accept"]
    right = H.accept_for(key)
    if a == "right":
        v = right
    elif a == "prev-key":
        v = H.accept_for(prev_key or "AAAAAAAAAAAAAAAAAAAAAA==")
    elif a == "random-key":
        v = H.accept_for("dGhlIHNhbXBsZSBub25jZQ==")
    elif a == "truncated":
        v = right[:-2]
    elif a == "extended":
        v = right + "A"
    elif a == "empty":
        v = ""
    elif a == "case-flipped":
        v = right.swapcase()
    elif a == "with-dot":
        v = right[:7] + "." + right[7:]
    elif a == "with-dash":
        v = right[:3] + "-" + right[3:11] + "_" + right[11:]
    elif a == "with-space":
        v = right[:9] + " " + right[9:]
    elif a == "quoted":
        v = '"' + right + '"'
    elif a == "suffix-after-padding":
        v = right + "garbage"
    elif a == "doubled":
        v = right + right
    elif a == "extra-padding":
        v = right + "=="
    elif a == "long-s-for-s":
        v = right.replace("s", "\u017f").replace("S", "\u017f") if ("s" in right or "S" in right) else right + "\u017f"
    elif a == "kelvin-for-k":
        v = right.replace("k", "\u212a").replace("K", "\u212a") if ("k" in right or "K" in right) else right + "\u212a"
    elif a == "with-newline-fold":
        v = right[:10] + "\r\n " + right[10:]
    else:
        v = None
    if v is not None:
        hdrs.append(f"{hn('Sec-WebSocket-Accept')}: {v}")
    if d.get("selected") is not None:
        hdrs.append(f"{hn('Sec-WebSocket-Protocol')}: {d['selected']}")
    if d.get("dup"):
        hdrs.append("X-Dup: 1")
        hdrs.append("X-Dup: 2")
    if d.get("shuffle"):
        rng.shuffle(hdrs)
    if d.get("location"):
        hdrs.append(f"Location: {d['location']}")
    sm = d.get("smuggle")
    if sm and sm[0] == "inner-status-line":
        # a second status line further down in the header block (what a confused gateway or a hostile server may produce)
        hdrs.insert(sm[1] % (len(hdrs) + 1), "HTTP/1.1 101 Switching Protocols")
    elif sm and sm[0] == "hidden":
        # the header the response lacks appears only as text inside another header's value, behind a character that is no line end
        # in HTTP (vertical tab, form feed, FS/GS/RS, NEL, LINE/PARAGRAPH SEPARATOR, a lone CR, NUL)
        _, sep, which = sm
        missing = {"upgrade": "Upgrade: websocket", "connection": "Connection: Upgrade", "accept": f"Sec-WebSocket-Accept: {right}",
                   "selected": f"Sec-WebSocket-Protocol: {(d.get('offered') or ['chat'])[0]}"}[which]
        hdrs.insert(len(hdrs) // 2, f"X-Note: demo{sep}{missing}")
    text = "\r\n".join(lines + hdrs) + "\r\n\r\n"
    if sm:
        return text.encode("utf-8")
    try:
        return text.encode("latin-1")
    except UnicodeEncodeError:
        return text.encode("utf-8")


def verdict(d):
    """'accept' | 'reject' | 'unjudged' for a final (non-redirect) response"""
    if d.get("smuggle"):
        return "reject"  # built so: the status is not 101, or a required header exists only as text inside another header's value
    if d["status"] != 101:
        if isinstance(d["status"], str) and d["status"].strip().isdigit() and int(d["status"]) == 101:
            return "unjudged"  # not a 3-digit status-code, but numerically 101: the statement does not say
        return "reject"
    if d.get("interim"):
        # an interim 1xx head in front of the final one: only the final head counts.  If the final head is itself
        # complete either outcome is acceptable here (the library may refuse interim responses altogether).
        return "reject" if d["interim"] == "carries-the-headers" else "unjudged"
    up = d["upgrade"]
    if up is None or "\r\n" in up or "websocket" not in [t.strip().lower() for t in up.split(",")]:
        return "reject"
    cn = d["connection"]
    if cn is None or "\r\n" in cn or "upgrade" not in [t.strip().lower() for t in cn.split(",")]:
        return "reject"
    if d["accept"] in ("case-flipped", "kelvin-for-k"):
        # the library compares the accept value caselessly (str.lower() on both sides, which also maps the Kelvin sign to k); whether a
        # value that differs from the derived one only in case counts as "the value derived from the key" is left unjudged
        return "unjudged"
    if d["accept"] != "right":
        return "reject"
    off, sel = d.get("offered"), d.get("selected")
    if off:
        if sel is None:
            return "reject"
        if sel in off:
            return "accept"
        if sel.lower() in [o.lower() for o in off]:
            return "unjudged"
        return "reject"
    return "accept"


def run(res, tier, seed, shard, nshards):
    W = H.ws()
    rng = random.Random((seed << 8) ^ shard ^ 0xC09)
    H.scrub_env()
    jobs = []
    # (a) response head grammar
    for i in range(2500 if tier == "quick" else 250000):
        jobs.append(("head", i))
    # (b) redirect chains
    stats = [302] if tier == "quick" else [301, 302, 303, 307, 308]
    for st in stats:
        for L in range(6):
            for N in range(6):
                for final in ("valid", "404", "bad-accept", "eof"):
                    jobs.append(("redir", st, L, N, final))
    for B in (1024, 4096, 8192, 16384, 32768, 65536, 131072):
        for off in (-1, 0, 1):
            for hdr in ("Upgrade: websocket", "Connection: Upgrade", "Sec-WebSocket-Accept: @ACCEPT@"):
                jobs.append(("longline", B, off, hdr))
    # a negative limit allows no redirect at all
    for L in (0, 1, 2, 5):
        for N in (-1, -5):
            for final in ("valid", "404"):
                jobs.append(("redir", 302, L, N, final))
    jobs.append(("redir-noloc", 302, 1, 3, "valid"))
    jobs.append(("redir-default-limit", 302, 3, None, "valid"))
    jobs.append(("redir-default-limit", 302, 4, None, "valid"))
    # (c) truncation at every byte
    variants = 1 if tier == "quick" else 4
    for v in range(variants):
        for off in range(0, 140):
            for fault in ("eof", "timeout", "interrupt"):
                jobs.append(("trunc", v, off, fault))

    def scen():
        for i, j in enumerate(jobs):
            if i % nshards != shard:
                continue
            if j[0] == "head":
                head_case(res, W, rng)
            elif j[0] == "longline":
                longline_case(res, W, rng, j)
            elif j[0].startswith("redir"):
                redirect_case(res, W, rng, j)
            else:
                trunc_case(res, W, rng, j)

    H.in_sim(scen, watchdog=3000)


def attempt(W, url, use_create, opts):
    """-> (kind, ws_or_exc)"""
    try:
        if use_create:
            try:
                w = W.create_connection(url, timeout=2, **opts)
            except KeyboardInterrupt as e:
                return "raised", e, None
        else:
            w = W.WebSocket()
            w.settimeout(2)
            try:
                w.connect(url, **opts)
            except BaseException as e:  # noqa
                if isinstance(e, sched.SimAbort):
                    raise
                return "raised", e, w
        return "returned", None, w
    except Exception as e:  # noqa
        return "raised", e, None


def check_outcome(res, W, exp, kind, exc, w, net_, case, gen, extra=None):
    """exp in accept/reject/unjudged"""
    extra = extra or {}
    res.case((gen, repr(case)), nontrivial=True)
    if exp == "unjudged":
        res.count("unjudged")
        return
    open_conns = [c for c in net_.conns if not c.client_closed]
    if exp == "accept":
        res.count("must_accept")
        if kind != "returned":
            res.violation("valid-response-rejected", f"{gen} {case}: raised {type(exc).__name__}: {exc}", case, gen=gen, exc_type=type(exc).__name__, **extra)
            return
        if not w.connected or w.status != 101 or len(open_conns) != 1:
            res.violation("accepted-state-wrong", f"{gen} {case}: connected={w.connected} status={w.status} open transports={len(open_conns)}", case, gen=gen, **extra)
        return
    res.count("must_reject")
    if kind == "returned":
        res.violation("invalid-response-accepted", f"{gen} {case}: connect() returned (connected={w.connected}, status={w.status})", case, gen=gen,
                      status=w.status, **extra)
        return
    res.count("reject_exc:" + type(exc).__name__)
    if w is not None and (w.connected or w.sock is not None):
        res.violation("rejected-but-connected", f"{gen} {case}: raised {type(exc).__name__} but connected={w.connected} sock={w.sock}", case, gen=gen, **extra)
    if open_conns:
        res.violation("transport-leaked", f"{gen} {case}: {len(open_conns)} of {len(net_.conns)} transports still open after {type(exc).__name__}", case, gen=gen,
                      exc_type=type(exc).__name__, **extra)


def head_case(res, W, rng):
    H.reset_process_state()
    off = rng.choice([None, None, ["chat", "v2"]])
    d = {
        "status": rng.choice(STATUSES),
        "reason": rng.choice(["Switching Protocols", "OK", "Not Found", "x y z"]),
        "upgrade": rng.choice(UPGRADE)[0],
        "connection": rng.choice(CONNECTION)[0],
        "accept": rng.choice(ACCEPT),
        "offered": off,
        "selected": rng.choice([None, "chat", "v2", "other", "CHAT", "\u212ahat".replace("\u212a", "c") + "\u200b", "c\u210eat", "\uff56\uff12"]) if off else rng.choice([None, None, None, "chat"]),
        "name_case": rng.random() < 0.3,
        "dup": rng.random() < 0.2,
        "shuffle": rng.random() < 0.3,
    }
    if rng.random() < 0.06:
        d.update(status=101, upgrade="websocket", connection="Upgrade", accept="right", selected=("chat" if off else None),
                 interim=rng.choice(["carries-the-headers", "carries-the-headers", "then-complete-final"]), interim_status=rng.choice([100, 102, 103]))
    # bias towards near-valid responses: one deviation from canonical
    if rng.random() < 0.55:
        base = {"status": 101, "upgrade": "websocket", "connection": "Upgrade", "accept": "right", "offered": off,
                "selected": ("chat" if off else None), "reason": "Switching Protocols", "name_case": False, "dup": False, "shuffle": False}
        k = rng.choice(["status", "upgrade", "connection", "accept", "selected", "name_case", "none"])
        if k != "none":
            base[k] = d[k]
        if d.get("interim"):
            base = d
        d = base
    if rng.random() < 0.06:
        # both tokens in one of the two headers while the other header is missing, empty or names something else: each header has to
        # make its own announcement
        d = {"status": 101, "accept": "right", "offered": off, "selected": ("chat" if off else None), "reason": "Switching Protocols",
             "name_case": rng.random() < 0.3, "dup": False, "shuffle": rng.random() < 0.3}
        both = rng.choice(["websocket, upgrade", "Upgrade, WebSocket", "upgrade,websocket", "websocket, Upgrade, keep-alive"])
        other = rng.choice([None, "", "close", "keep-alive", "h2c", "foo"])
        if rng.random() < 0.5:
            d.update(upgrade=both, connection=other)
        else:
            d.update(upgrade=other, connection=both)
        res.count("heads_with_both_tokens_in_one_header")
    if rng.random() < 0.1:
        d = {"status": 101, "upgrade": "websocket", "connection": "Upgrade", "accept": "right", "offered": off, "selected": ("chat" if off else None),
             "reason": "Switching Protocols", "name_case": rng.random() < 0.3, "dup": False, "shuffle": rng.random() < 0.3}
        if rng.random() < 0.35:
            d.update(status=rng.choice([403, 404, 200, 500, 400, 0]), reason="Forbidden", smuggle=("inner-status-line", rng.randrange(8)))
        else:
            which = rng.choice(["upgrade", "connection", "accept"] + (["selected"] if off else []))
            sep = rng.choice(["\x0b", "\x0c", "\x1c", "\x1d", "\x1e", "\x85", "\u2028", "\u2029", "\r", "\x00", "\u000b\u2028"])
            d["smuggle"] = ("hidden", sep, which)
            if which == "accept":
                d["accept"] = "absent"
            else:
                d[which] = None
        res.count("smuggled_heads:" + d["smuggle"][0])
    keys = []

    def on_conn(conn):
        def resp(req):
            key = H.request_key(req) or ""
            keys.append(key)
            return build_response(rng, d, key, keys[-2] if len(keys) > 1 else None)
        H.HandshakePeer(conn, response=resp)

    net_ = H.make_net(on_conn)
    # the offered subprotocols as a list, a tuple or a one-shot iterable (the request offers them all the same)
    container = rng.choice(["list", "list", "tuple", "iterator", "generator"]) if off else "list"
    opts = {"subprotocols": {"list": list, "tuple": tuple, "iterator": iter, "generator": lambda o: (x for x in o)}[container](off)} if off else {}
    str_sub = None
    if not d.get("smuggle") and not d.get("interim") and rng.random() < 0.05:
        # the option given as one plain string: whatever that is taken to offer (the name, or its letters), a server selecting a piece
        # of the name that is neither the whole name nor a single letter has selected nothing that was offered
        d = {"status": 101, "upgrade": "websocket", "connection": "Upgrade", "accept": "right", "offered": None, "reason": "Switching Protocols", "name_case": False,
             "dup": False, "shuffle": False, "selected": rng.choice(["chat", "super", "erch", "uperchat", "superchat", "s", "SUPER"])}
        str_sub = "superchat"
        opts = {"subprotocols": str_sub}
        container = "str"
        res.count("subprotocols_as:str")
    if off:
        res.count("subprotocols_as:" + container)
    # a previous connection, so that "prev-key" is a real earlier key
    if d["accept"] == "prev-key":
        keys.append(None)
        try:
            W.create_connection("ws://prev.test/", timeout=1).shutdown()
        except Exception:  # noqa
            pass
        net_.conns.clear()
    use_create = rng.random() < 0.5
    kind, exc, w = attempt(W, "ws://sim.test/x", use_create, opts)
    exp = verdict(d)
    if str_sub:
        exp = "unjudged" if (d["selected"] == str_sub or len(d["selected"]) == 1) else "reject"
    case = {k: v for k, v in d.items()}
    case["subprotocols_container"] = container
    if str_sub:
        case["subprotocols_option"] = str_sub
    if container in ("iterator", "generator") and exp == "accept":
        # a one-shot iterable is used up by writing the request; whether a right selection is then still recognised is not part of the
        # statement (only: never connected without one)
        res.count("unjudged_accept_with_one_shot_subprotocols")
        if w is not None:
            try:
                w.shutdown()
            except Exception:  # noqa
                pass
        return
    dev = "status" if d["status"] != 101 else "accept:" + d["accept"] if d["accept"] != "right" else "headers"
    if d.get("smuggle"):
        dev = "smuggled:" + d["smuggle"][0]
    check_outcome(res, W, exp, kind, exc, w, net_, case, "head", {"deviation": dev if exp == "reject" else "none"})
    if exp == "accept" and kind == "returned" and d.get("selected") and off:
        if (w.subprotocol or "").lower() != d["selected"].lower():
            res.violation("subprotocol-wrong", f"selected {d['selected']!r}, object reports {w.subprotocol!r}", case, gen="head")
    if exp == "reject":
        res.sample(case, cap=3)
    if w is not None:
        try:
            w.shutdown()
        except Exception:  # noqa
            pass


def redirect_case(res, W, rng, j):
    H.reset_process_state()
    gen, st, L, N, final = j
    count = [0]

    def on_conn(conn):
        idx = count[0]
        count[0] += 1

        def resp(req):
            key = H.request_key(req) or ""
            if idx < L:
                loc = None if gen == "redir-noloc" else f"ws://hop{idx + 1}.test/r{idx + 1}"
                hdr = f"Location: {loc}\r\n" if loc else ""
                return f"HTTP/1.1 {st} Moved\r\n{hdr}\r\n".encode()
            if final == "valid":
                return H.response_101(key)
            if final == "404":
                return b"HTTP/1.1 404 Not Found\r\n\r\n"
            if final == "bad-accept":
                return H.response_101("x" + key)
            return b""
        p = H.HandshakePeer(conn, response=resp)
        if idx >= L and final == "eof":
            p.on_open = lambda c: c.peer_close()
    net_ = H.make_net(on_conn)
    opts = {} if N is None else {"redirect_limit": N}
    limit = 3 if N is None else max(0, N)
    kind, exc, w = attempt(W, "ws://start.test/", rng.random() < 0.5, opts)
    res.count("redirect_cases")
    case = {"status": st, "redirects": L, "limit": N, "final": final, "gen": gen}
    if gen == "redir-noloc":
        exp = "reject"
    elif L <= limit and final == "valid":
        exp = "accept"
    else:
        exp = "reject"
    cls = "limit-exhausted" if L > limit else "final-" + final
    check_outcome(res, W, exp, kind, exc, w, net_, case, "redirect", {"redirect_class": cls})
    nconn = len(net_.conns)
    if gen != "redir-noloc":
        if L <= limit and nconn != L + 1:
            res.violation("redirect-connection-count", f"{case}: {nconn} connections, expected {L + 1}", case, gen="redirect", redirect_class=cls)
        if L > limit and nconn > limit + 1:
            res.violation("redirect-limit-exceeded", f"{case}: {nconn} connections made with limit {limit}", case, gen="redirect", redirect_class=cls)
    if exp == "accept" and kind == "returned":
        # the last hop's URL must be the one actually requested
        req = net_.conns[-1].hs.request.split(b"\r\n")[0]
        want = b"GET /r%d HTTP/1.1" % L if L else b"GET / HTTP/1.1"
        if req != want:
            res.violation("redirect-target", f"{case}: last request line {req!r}, expected {want!r}", case, gen="redirect", redirect_class=cls)
    if w is not None:
        try:
            w.shutdown()
        except Exception:  # noqa
            pass
    res.sample(case, cap=2)


def trunc_case(res, W, rng, j):
    H.reset_process_state()
    _, variant, off, fault = j

    def on_conn(conn):
        def resp(req):
            key = H.request_key(req) or ""
            extra = [[], ["X-Pad: " + "p" * 10], ["Set-Cookie: a=b"], ["Server: s", "Date: today"]][variant]
            full = H.response_101(key, extra)
            conn.full_len = len(full)
            return full[:off]
        p = H.HandshakePeer(conn, response=resp)
        if fault == "eof":
            p.on_open = lambda c: c.peer_close()
        elif fault == "interrupt":
            # the wait for the response is ended from outside (Ctrl-C / cancellation) at this byte offset
            p.on_open = lambda c: c.peer_error(KeyboardInterrupt())
    net_ = H.make_net(on_conn)
    kind, exc, w = attempt(W, "ws://sim.test/", rng.random() < 0.5, {})
    full_len = net_.conns[0].full_len if net_.conns else 0
    res.count("truncation_cases")
    case = {"variant": variant, "offset": off, "fault": fault, "response_len": full_len}
    exp = "accept" if off >= full_len else "reject"
    check_outcome(res, W, exp, kind, exc, w, net_, case, "trunc", {"fault": fault})
    if w is not None:
        try:
            w.shutdown()
        except Exception:  # noqa
            pass


def longline_case(res, W, rng, j):
    """a 101 response that lacks one required header but carries its text inside an over-long unrelated header line,
    placed so that it begins exactly at (or next to) a power-of-two offset of that line: must be rejected"""
    H.reset_process_state()
    _, B, off, hdr = j
    name = hdr.split(":")[0].lower()

    def on_conn(conn):
        def resp(req):
            key = H.request_key(req) or ""
            right = H.accept_for(key)
            lines = ["HTTP/1.1 101 Switching Protocols"]
            if name != "upgrade":
                lines.append("Upgrade: websocket")
            if name != "connection":
                lines.append("Connection: Upgrade")
            if name != "sec-websocket-accept":
                lines.append(f"Sec-WebSocket-Accept: {right}")
            prefix = "X-Trace: "
            filler = "a" * (B + off - len(prefix))
            lines.insert(2, prefix + filler + hdr.replace("@ACCEPT@", right))
            return ("\r\n".join(lines) + "\r\n\r\n").encode()
        H.HandshakePeer(conn, response=resp)
    net_ = H.make_net(on_conn)
    kind, exc, w = attempt(W, "ws://sim.test/", rng.random() < 0.5, {})
    res.count("long_line_cases")
    case = {"line_length_before_smuggled_header": B + off, "missing_header": name}
    check_outcome(res, W, "reject", kind, exc, w, net_, case, "longline", {"deviation": "missing:" + name})
    if w is not None:
        try:
            w.shutdown()
        except Exception:  # noqa
            pass
