"""C10 - the opening handshake request is well-formed and reflects URL and
options."""
from __future__ import annotations

import base64
import itertools
import random

from .. import harness as H
from ..ref import http as RH
from ..ref import url as RU
from ..sim import shim

SHARDS = {"quick": 8, "thorough": 16}
META = {
    "level": "exploration",
    "technique": "runtime monitoring: bytes written before the first read (transport log of the simulated network) parsed by a strict RFC 7230 request parser, compared with an executable model of the property, key compared with the os.urandom spy, request replayed into the independent `websockets` server",
    "claim": "For every generated URL x option combination (pairwise-covering random sample in quick, larger in thorough, all dimension pairs measured) the client wrote exactly one syntactically valid GET request ended by one empty line; target, Host, Upgrade, Connection, Sec-WebSocket-Version, Origin/suppress_origin, Host override, subprotocols, cookie and custom headers (list, dict, None values) matched the model; Sec-WebSocket-Key was the base64 of the single 16-byte os.urandom draw made for that request and distinct over >= 200 successive connections; the `websockets` ServerProtocol accepted each request with 101.",
    "trusted": "strict request parser wsverif/ref/http.py, URL model wsverif/ref/url.py, os.urandom spy, `websockets` 17 as second oracle",
    "rule": "case = URL components x options; distinct by the tuple; non-trivial when at least one option deviates from default or the port/host form is non-default (all compared)",
    "exhaustive": {"quick": False, "thorough": False},
    "bounds": "default Origin value is recorded, not judged (the property fixes it only through options); user-supplied Sec-WebSocket-Key not driven",
    "required_counters": ["requests_parsed", "keys_matched_to_draw"],
    "assumptions": [],
}
META["claim"] += " " + 'Also: mixed-case subprotocols; a shared header list reused across connections.'
META["claim"] += " " + 'Round 3b: WebSocketApp reconnect handshakes judged against the options current at that moment (callable header, app.cookie/app.header changed between attempts); jar cookies plus cookie option.'
META["claim"] += " " + 'Round 4: transport / TLS / receive-side options next to the request options (sslopt incl. server_hostname, sockopt, enable_multithread, fire_cont_frame, redirect_limit, HTTP proxy with and without credentials): the request - tunnelled when proxied - is unchanged by them.'
META["claim"] += " " + 'Round 5: the URL reached through a redirect from a URL of the same / of the other scheme; a default Origin, when one is sent, names the requested URL; dict headers with an empty-string value.'
META["claim"] += " " + 'Rounds 6-7: repeated custom header lines; tabs and quoted blanks in field values; requests of 30-40 KiB made of many headers with two- and three-byte characters.'
META["claim"] += " " + 'Round 8: IPv6 literal with a zone identifier as URL host; header names and values of a str subclass with a rendering of its own.'

try:
    from websockets.server import ServerProtocol as _WsServer
    HAVE_WS = True
except Exception:  # noqa
    HAVE_WS = False

class _Tagged(str):
    def __str__(self):
        return "********"

    def __format__(self, spec):
        return "********"

    def __repr__(self):
        return "<tagged>"


DIMS = {
    "scheme": ["ws", "wss"],
    # (the last one: a link-local IPv6 literal with a zone identifier, RFC 6874)
    "host": ["example.test", "Sub.Example.TEST", "10.1.2.3", "[2001:db8::1]", "[fe80::1%25eth0]"],
    "port": [None, 80, 443, 8080, 1, 65535],
    "path": ["", "/", "/a/b", "/a%20b", "/chat/"],
    "query": [None, "x=1", "x=1&y=2"],
    "o_host": [None, "override.test:99"],
    "o_origin": [None, "https://o.test"],
    "o_suppress": [False, True],
    "o_subproto": [None, ["chat"], ["chat", "v2.x"], ["Chat.V2", "MQTT"]],
    "o_cookie": [None, "k=v; k2=v2"],
    "o_header": [None, ["X-A: 1", "X-B: two words"], {"X-A": "1", "X-N": None}, {"X-N": None}, {"User-Agent": "ua/1.0"}, {"X-Empty": ""}, {"X-A": "1", "X-Empty": "", "X-N": None},
                 # the same line more than once (a list is sent as it is), a tuple instead of a list
                 ["X-Trace: on", "X-Trace: on"], ["Accept-Language: en", "X-Client: x", "Accept-Language: en"], ("X-T: 1", "X-T: 1", "X-U: 2"),
                 # horizontal tabs inside a value (legal in a field value), values with leading / trailing blanks inside quotes
                 ["X-Columns: id\tname\tprice"], {"X-Tab": "a\tb", "X-Quoted": '" padded "'},
                 # requests far beyond 16 KiB (many headers, each below the usual 8 KiB line limit), in ASCII and with non-ASCII text
                 # (one character is then several bytes on the wire)
                 [f"X-P{i}: " + "p" * 700 for i in range(40)], [f"X-U{i}: " + "\u00e9" * 500 for i in range(40)],
                 {f"X-D{i}": ("\u20ac" * 300 if i % 2 else "d" * 900) for i in range(30)}, {"X-One": "\u00e9" * 3000, "X-Two": "z" * 7000},
                 # names and values whose type is a str subclass with a rendering of its own (a str-mixin enum, a "secret" string that
                 # prints as stars): the text itself is what the option specifies
                 {"X-Api-Version": _Tagged("v2"), _Tagged("Authorization"): _Tagged("Bearer s3cr3t")}, [_Tagged("X-Tagged-Line: yes"), "X-Plain: 1"]],
    # the URL is reached through a redirect from another URL (of the other or of the same scheme): the request reflects the URL it is sent to
    "redirected": [None, None, None, "other-scheme", "same-scheme", "other-scheme-same-authority"],
    "o_connection": [None, "keep-alive, Upgrade"],
    # options that concern the transport, the TLS layer or the receive side: the request is the same with and without them
    "o_unrelated": [None, None, {"sslopt": {"server_hostname": "sni.other.test"}}, {"sslopt": {"check_hostname": False, "cert_reqs": 0}},
                    {"enable_multithread": False}, {"fire_cont_frame": True, "skip_utf8_validation": True}, {"sockopt": ((6, 1, 1),)},
                    {"redirect_limit": 0}, {"http_proxy_host": "proxy.test", "http_proxy_port": 3128},
                    {"http_proxy_host": "proxy.test", "http_proxy_port": 3128, "http_proxy_auth": ("u", "p"), "proxy_type": "http"},
                    {"http_proxy_host": "proxy.test", "http_proxy_port": 3128, "sslopt": {"server_hostname": "sni.other.test"}}],
}


def run(res, tier, seed, shard, nshards):
    W = H.ws()
    rng = random.Random((seed << 8) ^ shard ^ 0xC10)
    H.scrub_env()
    n = (1600 if tier == "quick" else 80000) // nshards
    names = list(DIMS)
    pair_seen = set()
    keys_seen = set()

    def scen():
        # a few fully-default and extreme cases first, then random combinations
        base = [{k: v[0] for k, v in DIMS.items()}]
        for d in base + [None] * n:
            combo = d or {k: rng.choice(v) for k, v in DIMS.items()}
            one(res, W, combo, keys_seen)
            for a, b in itertools.combinations(names, 2):
                pair_seen.add((a, repr(combo[a]), b, repr(combo[b])))
        # the request as WebSocketApp sends it (options split between the constructor and run_forever)
        for i in range(24 if tier == "quick" else 400):
            if (i + shard) % max(1, nshards // 2) == 0 or tier == "thorough":
                app_case(res, W, rng, keys_seen)
        # key freshness over successive connections to one URL
        before = len(keys_seen)
        for _ in range(220 // max(1, nshards // 4)):
            one(res, W, base[0], keys_seen, fresh=True)

    H.in_sim(scen, watchdog=3000)
    total_pairs = sum(len(DIMS[a]) * len(DIMS[b]) for a, b in itertools.combinations(names, 2))
    res.notes[f"pair_coverage_shard{shard}"] = f"{len(pair_seen)}/{total_pairs}"
    res.count("dimension_pairs_seen_sum_over_shards", len(pair_seen))
    res.notes["dimension_pairs_total"] = total_pairs


def one(res, W, c, keys_seen, fresh=False):
    H.reset_process_state()
    url = f"{c['scheme']}://{c['host']}" + (f":{c['port']}" if c["port"] is not None else "") + c["path"] + (f"?{c['query']}" if c["query"] is not None else "")
    opts = {}
    if c["o_host"]:
        opts["host"] = c["o_host"]
    if c["o_origin"]:
        opts["origin"] = c["o_origin"]
    if c["o_suppress"]:
        opts["suppress_origin"] = True
    if c["o_subproto"]:
        opts["subprotocols"] = list(c["o_subproto"])
    if c["o_cookie"]:
        opts["cookie"] = c["o_cookie"]
    if c["o_header"] is not None:
        opts["header"] = list(c["o_header"]) if isinstance(c["o_header"], list) else c["o_header"] if isinstance(c["o_header"], tuple) else dict(c["o_header"])
    if c["o_connection"]:
        opts["connection"] = c["o_connection"]
    unrelated = c.get("o_unrelated")
    if unrelated:
        opts.update({k: (dict(v) if isinstance(v, dict) else v) for k, v in unrelated.items()})
        res.count("with_unrelated_option:" + "+".join(sorted(unrelated)))
    proxied = bool(unrelated and "http_proxy_host" in unrelated)
    redirected = c.get("redirected")
    if redirected and (proxied or (unrelated and "redirect_limit" in unrelated)):
        redirected = None
    conns = []
    first_url = None
    if redirected:
        other = {"ws": "wss", "wss": "ws"}[c["scheme"]] if redirected.startswith("other-scheme") else c["scheme"]
        first_url = f"{other}://start.test/old?from=1"
        if redirected == "other-scheme-same-authority":
            # the redirect changes nothing but the scheme (an explicit port, so that host and port stay the same), and the server offers to keep the connection
            if c["port"] is None:
                redirected = "other-scheme"
            else:
                first_url = f"{other}://{c['host']}:{c['port']}/old?from=1"
        res.count("requests_after_redirect:" + redirected)

    def on_conn(conn):
        conns.append(conn)
        if redirected and len(conns) == 1:
            ka = "Connection: keep-alive\r\nContent-Length: 0\r\n" if redirected == "other-scheme-same-authority" else ""
            H.HandshakePeer(conn, response=lambda req: f"HTTP/1.1 302 Found\r\nLocation: {url}\r\n{ka}\r\n".encode())
            return
        if proxied:
            H.TunnelPeer(conn, serve)
        else:
            serve(conn)

    def serve(conn):
        def resp(req):
            key = H.request_key(req) or ""
            extra = []
            for ln in req.split(b"\r\n"):
                if ln.lower().startswith(b"sec-websocket-protocol:"):
                    extra.append("Sec-WebSocket-Protocol: " + ln.split(b":", 1)[1].decode().split(",")[0].strip())
            return H.response_101(key, extra)
        H.HandshakePeer(conn, response=resp)

    net_ = H.make_net(on_conn)
    u0 = len(shim.urandom_log)
    case = {"url": url, "options": opts}
    try:
        ws_ = W.create_connection(first_url or url, timeout=3, **opts)
    except Exception as e:  # noqa
        res.case(("fail", url, repr(opts)))
        res.violation("connect-failed", f"{url} {opts}: {type(e).__name__}: {e}", case, exc_type=type(e).__name__,
                      option=[k for k in opts][:1])
        return
    res.case((url, repr(sorted(opts.items(), key=str))), nontrivial=True)
    if len(conns) != (2 if redirected else 1):
        res.violation("connection-count", f"{url}: {len(conns)} transport connections for one connect()", case)
        return
    conn = conns[-1]
    if bool(conn.tls) != (c["scheme"] == "wss") and not proxied:
        res.violation("connection-count", f"{url} (reached {redirected or 'directly'}): the request went out {'over TLS' if conn.tls else 'in clear text'}", case)
        return
    sent = bytes(conn.sent)
    if proxied:
        t = getattr(conn, "tunnel", None)
        if t is None or t.tunnel_offset is None:
            res.violation("connect-failed", f"{url} {opts}: no CONNECT exchange seen on the proxy connection", case, exc_type="none", option=["http_proxy_host"])
            return
        sent = sent[t.tunnel_offset:]

    def bad(kind, detail, **kw):
        res.violation(kind, f"{url} {opts}: {detail}", case, **kw)

    try:
        method, target, version, headers, rest = RH.parse_request(sent)
    except RH.Malformed as e:
        opt = "connection" if c["o_connection"] else "other"
        return bad("malformed-request", str(e), option=opt)
    res.count("requests_parsed")
    if rest:
        bad("bytes-after-request", f"{len(rest)} bytes follow the empty line")
    host, port, resource, secure = RU.parse(url)
    if method != "GET":
        bad("method", method)
    if target != resource:
        bad("target", f"request target {target!r}, URL says {resource!r}")
    hv = RH.get_all(headers, "Host")
    hostform = c["host"][1:-1] if c["host"].startswith("[") else c["host"]
    exp_host = c["o_host"] or ((f"[{hostform}]" if ":" in hostform else hostform) + ("" if port in (80, 443) else f":{port}"))
    if len(hv) != 1 or hv[0].lower() != exp_host.lower() or (c["o_host"] and hv[0] != exp_host):
        bad("host-header", f"Host {hv!r}, expected {exp_host!r}")
    up = RH.get_all(headers, "Upgrade")
    if len(up) != 1 or up[0].lower() != "websocket":
        bad("upgrade-header", repr(up))
    cn = RH.get_all(headers, "Connection")
    if c["o_connection"]:
        if cn != [c["o_connection"]]:
            bad("connection-header", f"Connection {cn!r}, option says {c['o_connection']!r}", option="connection")
    elif len(cn) != 1 or "upgrade" not in RH.tokens(cn[0]):
        bad("connection-header", repr(cn))
    ver = RH.get_all(headers, "Sec-WebSocket-Version")
    if ver != ["13"]:
        bad("version-header", repr(ver))
    kv = RH.get_all(headers, "Sec-WebSocket-Key")
    draws = [(n_, v) for (n_, v, fn, fun) in shim.urandom_log[u0:] if fn == "_handshake.py"]
    if len(kv) != 1:
        bad("key-header", repr(kv))
    else:
        try:
            raw = base64.b64decode(kv[0], validate=True)
        except Exception:  # noqa
            raw = None
        if raw is None or len(raw) != 16:
            bad("key-not-16-bytes", kv[0])
        elif len(draws) != (2 if redirected else 1) or draws[-1][0] != 16 or draws[-1][1] != raw:
            bad("key-not-from-os-randomness", f"key {kv[0]} vs draws {[(n_, v.hex()) for n_, v in draws]}")
        else:
            res.count("keys_matched_to_draw")
        if kv[0] in keys_seen:
            bad("key-reused", kv[0])
        keys_seen.add(kv[0])
        if fresh:
            res.count("fresh_keys_successive")
    og = RH.get_all(headers, "Origin")
    if c["o_suppress"]:
        if og:
            bad("origin-not-suppressed", repr(og))
    elif c["o_origin"]:
        if og != [c["o_origin"]]:
            bad("origin-header", f"{og!r} vs option {c['o_origin']!r}")
    else:
        res.count("default_origin_recorded")
        if len(og) > 1:
            bad("origin-header", repr(og))
        elif og:
            # a default Origin, when one is sent, names the URL this request goes to: http for ws, https for wss, and the URL's host[:port]
            dflt = (f"[{hostform}]" if ":" in hostform else hostform) + ("" if port in (80, 443) else f":{port}")
            want = ("https://" if secure else "http://") + dflt
            if og[0].lower() != want.lower():
                bad("default-origin", f"default Origin {og[0]!r} does not name the requested URL (expected {want!r})", redirected=redirected or "no")
            else:
                res.count("default_origin_checked")
    sp = RH.get_all(headers, "Sec-WebSocket-Protocol")
    if c["o_subproto"]:
        if len(sp) != 1 or [t.strip() for t in sp[0].split(",")] != list(c["o_subproto"]):
            bad("subprotocol-header", f"{sp!r} vs {c['o_subproto']!r}")
    elif sp:
        bad("subprotocol-header", repr(sp))
    ck = RH.get_all(headers, "Cookie")
    if c["o_cookie"]:
        if ck != [c["o_cookie"]]:
            bad("cookie-header", f"{ck!r} vs {c['o_cookie']!r}")
    elif ck:
        bad("cookie-header", repr(ck))
    exp_custom = []
    h = c["o_header"]
    if isinstance(h, (list, tuple)):
        for line in h:
            k, v = line.split(":", 1)
            exp_custom.append((k, v.strip()))
    elif isinstance(h, dict):
        exp_custom = [(k, v) for k, v in h.items() if v is not None]
    # the request is written as UTF-8; the reference parser hands field values back as latin-1 text
    exp_custom = [(str.__str__(k) if False else "".join(k), "".join(v).encode("utf-8").decode("latin-1")) for k, v in exp_custom]
    std = {"host", "upgrade", "connection", "sec-websocket-version", "sec-websocket-key", "origin", "sec-websocket-protocol", "cookie"}
    custom_seen = [(k, v) for k, v in headers if k.lower() not in std]
    if sorted(custom_seen) != sorted(exp_custom):
        bad("custom-headers", f"custom headers on the wire {custom_seen!r}, options say {exp_custom!r}")
    for name in std:
        if len(RH.get_all(headers, name)) > 1:
            bad("duplicate-header", name)
    if HAVE_WS:
        try:
            p = _WsServer(subprotocols=c["o_subproto"])
            p.receive_data(sent)
            evs = p.events_received()
            resp = p.accept(evs[0]) if evs else None
            if resp is None or resp.status_code != 101:
                bad("second-oracle-rejects", f"websockets server answered {getattr(resp, 'status_code', None)} {getattr(resp, 'body', b'')[:80]!r}")
            else:
                res.count("second_oracle_accepts")
        except Exception as e:  # noqa
            bad("second-oracle-rejects", f"{type(e).__name__}: {e}")
    try:
        ws_.shutdown()
    except Exception:  # noqa
        pass
    res.sample(case, cap=3)


def app_case(res, W, rng, keys_seen):
    """WebSocketApp(url, header=, cookie=, subprotocols=).run_forever(host=, origin=, suppress_origin=): two connections
    (the second after a loss, reconnect=...) must each send the request the options describe - no header lost, duplicated
    or carried over."""
    from .. import appsim
    from ..ref import rfc6455 as R6
    from ..sim import sched as _s
    H.reset_process_state()
    hdr_kind = rng.choice(["none", "list", "dict", "callable-list", "callable-dict", "tuple"])
    calls = []
    base_list = ["X-A: 1", "X-B: two words"]
    if hdr_kind == "none":
        header = None
    elif hdr_kind == "list":
        header = list(base_list)
    elif hdr_kind == "tuple":
        header = tuple(base_list)
    elif hdr_kind == "dict":
        header = {"X-A": "1", "X-N": None}
    elif hdr_kind == "callable-list":
        def header():
            calls.append(1)
            return [f"X-Call: {len(calls)}", "X-A: 1"]
    else:
        def header():
            calls.append(1)
            return {"X-Call": str(len(calls)), "X-N": None}
    cookie = rng.choice([None, "k=v; k2=v2"])
    subp = rng.choice([None, ["chat"], ["Chat.V2", "MQTT"]])
    o_host = rng.choice([None, "override.test:99"])
    o_origin = rng.choice([None, "https://o.test"])
    suppress = rng.random() < 0.3
    app_kwargs = {}
    if header is not None:
        app_kwargs["header"] = header
    if cookie:
        app_kwargs["cookie"] = cookie
    if subp:
        app_kwargs["subprotocols"] = subp
    run_kwargs = dict(reconnect=0.5)
    if o_host:
        run_kwargs["host"] = o_host
    if o_origin:
        run_kwargs["origin"] = o_origin
    if suppress:
        run_kwargs["suppress_origin"] = True
    extra = ["Sec-WebSocket-Protocol: " + subp[0]] if subp else []
    plan = [dict(outcome="ok", script=[(0.2, "eof")], extra_headers=extra),
            dict(outcome="ok", script=[(0.2, "frames", R6.encode(R6.TEXT, b"x")), (0.4, "close", b"")], extra_headers=extra)]
    out = {}

    def scen():
        run = appsim.AppRun(plan, url="ws://app.test:8080/p?q=1", app_kwargs=app_kwargs, last_repeats=False)
        out["run"] = run
        run.run_forever(**run_kwargs)
    S = _s.Sched(horizon=200, watchdog=60)
    S.batch_horizon = None
    try:
        # app_case is called from inside the batch simulation of this check: run the app in it directly
        scen()
    except _s.SimFailure as e:
        out["failure"] = e
    run = out.get("run")
    case = {"path": "WebSocketApp", "header": hdr_kind, "cookie": cookie, "subprotocols": subp, "host": o_host, "origin": o_origin, "suppress_origin": suppress}
    res.case(("app", hdr_kind, cookie, repr(subp), o_host, o_origin, suppress), nontrivial=True)
    res.count("app_path_requests")
    if run is None or len(run.servers) != 2:
        res.violation("connect-failed", f"{case}: {len(run.servers) if run else 0} of 2 connections; errors {[repr(a[0])[:80] for (t, n, a, ci, ac) in (run.trace if run else []) if n == 'on_error']}", case, option=["app"])
        return
    for ci, srv in enumerate(run.servers):
        req = srv.hs.request
        try:
            method, target, version, headers, rest = RH.parse_request(req)
        except RH.Malformed as e:
            res.violation("malformed-request", f"{case} connection {ci}: {e}", case, option="app")
            return
        res.count("requests_parsed")

        def bad(kind, detail):
            res.violation(kind, f"{case} connection {ci}: {detail}", case, via="app")
        if target != "/p?q=1":
            bad("target", target)
        hv = RH.get_all(headers, "Host")
        if hv != [o_host or "app.test:8080"]:
            bad("host-header", repr(hv))
        og = RH.get_all(headers, "Origin")
        if suppress and og:
            bad("origin-not-suppressed", repr(og))
        if o_origin and not suppress and og != [o_origin]:
            bad("origin-header", repr(og))
        sp = RH.get_all(headers, "Sec-WebSocket-Protocol")
        if subp and (len(sp) != 1 or [t.strip() for t in sp[0].split(",")] != subp):
            bad("subprotocol-header", repr(sp))
        if not subp and sp:
            bad("subprotocol-header", repr(sp))
        ck = RH.get_all(headers, "Cookie")
        if ck != ([cookie] if cookie else []):
            bad("cookie-header", repr(ck))
        std = {"host", "upgrade", "connection", "sec-websocket-version", "sec-websocket-key", "origin", "sec-websocket-protocol", "cookie"}
        custom = sorted((k, v) for k, v in headers if k.lower() not in std)
        if hdr_kind == "none":
            want = []
        elif hdr_kind in ("list", "tuple"):
            want = [("X-A", "1"), ("X-B", "two words")]
        elif hdr_kind == "dict":
            want = [("X-A", "1")]
        elif hdr_kind == "callable-list":
            want = [("X-A", "1"), ("X-Call", str(ci + 1))]
        else:
            want = [("X-Call", str(ci + 1))]
        if custom != sorted(want):
            bad("custom-headers", f"{custom!r}, expected {sorted(want)!r}")
        for name in std:
            if len(RH.get_all(headers, name)) > 1:
                bad("duplicate-header", name)
        kv = RH.get_all(headers, "Sec-WebSocket-Key")
        if len(kv) == 1:
            if kv[0] in keys_seen:
                bad("key-reused", kv[0])
            keys_seen.add(kv[0])
