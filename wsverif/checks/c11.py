"""C11 - TLS peers are authenticated by default; only explicit options relax it.

Decided on REAL TLS over loopback (real ssl module, real sockets, real
threads).  Wall-clock timeouts only ever yield 'inconclusive'."""
from __future__ import annotations

import itertools
import os
import queue
import random
import shutil
import socket
import ssl
import subprocess
import threading
import time

from .. import core
from .. import harness as H
from ..sim import shim

SHARDS = {"quick": 8, "thorough": 16}
SHARD_TIMEOUT = {"quick": 600, "thorough": 3000}
META = {
    "level": "exploration",
    "technique": "runtime monitoring on real TLS over loopback: throw-away CAs and leaf certificates minted with openssl, TLS servers that record the first TCP bytes, whether the handshake completed and whether any application data was ever decrypted; a spy on SSLContext.wrap_socket records verify_mode/check_hostname/server_hostname of the context actually used; outcome of connect() compared with a reference trust/name predicate",
    "claim": "Over the option matrix cert_reqs {unset, CERT_NONE, CERT_REQUIRED} x check_hostname {unset, False, True} x trust source {none, ca_certs=A, ca_certs=B, ca_cert_path=A, WEBSOCKET_CLIENT_CA_BUNDLE file/dir A, custom context(A), SSL_CERT_FILE=A, ca_certs=B with bundle file A, ca_cert_path=B with bundle dir A} x server_hostname {unset, matching, other, IP literal} x URL host {localhost, 127.0.0.1} x server certificate {signed by A / by B / self-signed} x {SAN localhost+127.0.0.1 / SAN other.test / SAN localhost only} x {direct, through an HTTP CONNECT proxy} (pairwise-covering random sample in quick, full product in thorough) connect() succeeded exactly when the checks in force accept the certificate; every rejected server received zero application bytes; wss streams started with a TLS record (0x16) - after the CONNECT exchange when tunnelled -; ws streams started with 'GET ' and were never wrapped; the context used carried the expected verify_mode / check_hostname / server_hostname.",
    "trusted": "OpenSSL/ssl as the verification engine and oracle of what a certificate matches; certificates minted by the openssl CLI; loopback networking",
    "rule": "case = (sslopt combination, env, server certificate, route); distinct by that tuple; non-trivial when TLS was attempted (every wss case)",
    "exhaustive": {"quick": False, "thorough": True},
    "exhaustive_space": {"thorough": "3 x 3 x 10 x 4 x 7 x 2 x 2 = 10080 combinations (URL host name or IP literal)", "quick": "random sample of 400 combinations + 40 fixed essential ones"},
    "bounds": "ciphers/ecdh_curve options not driven (certfile: the client-bundle cases only); TLS through SOCKS is covered by C19's stand-in shard only; TLS backend = the installed OpenSSL",
    "required_counters": ["tls_cases", "accept_expected", "reject_expected", "server_records_checked"],
    "assumptions": ["loopback TCP and the openssl CLI are available in the sandbox"],
}
META["claim"] += " " + "Also: URL host and server_hostname as IP literals, a certificate with a DNS-only SAN, the ssl_version option, and the CA-bundle environment variable combined with the caller's own ca_certs / ca_cert_path."
META["claim"] += " " + 'Round 3b: one sslopt dict reused for a later connection after the CA-bundle environment variable changed; upper/mixed-case wss schemes against a real TLS listener (refused, or TLS from the first byte).'
META["claim"] += " " + 'Round 4: cert_reqs=CERT_OPTIONAL (for a client the same as CERT_REQUIRED); the Host header override next to every certificate (it has no say in whom the certificate must name).'
META["claim"] += " " + 'Rounds 6-7: cert_reqs=None; legacy ssl_version values (reject direction; no suite without authentication in the context used unless ciphers were configured); a URL host the resolver reports as an alias of another name when asked for the canonical name.'
META["claim"] += " " + "Round 8: a client certificate bundle (certfile) containing its issuing CA is no trust anchor for the server's chain."

OPENSSL = shutil.which("openssl")


def sh(*args, cwd=None, input=None):
    r = subprocess.run(list(args), cwd=cwd, capture_output=True, text=True, input=input, timeout=60)
    if r.returncode != 0:
        raise RuntimeError(f"{' '.join(args)}: {r.stderr[-400:]}")
    return r.stdout


def mint(d):
    """CA-A, CA-B and leaf certificates.  Returns dict of paths."""
    os.makedirs(d, exist_ok=True)
    P = {}
    for ca in ("A", "B"):
        sh(OPENSSL, "req", "-x509", "-newkey", "rsa:2048", "-nodes", "-keyout", f"ca{ca}.key", "-out", f"ca{ca}.pem", "-days", "3",
           "-subj", f"/CN=wsverif test CA {ca}", "-addext", "basicConstraints=critical,CA:TRUE", "-addext", "keyUsage=critical,keyCertSign,cRLSign", cwd=d)
        P[f"ca{ca}"] = os.path.join(d, f"ca{ca}.pem")
        cadir = os.path.join(d, f"cadir{ca}")
        os.makedirs(cadir, exist_ok=True)
        shutil.copy(P[f"ca{ca}"], os.path.join(cadir, f"ca{ca}.pem"))
        sh(OPENSSL, "rehash", cadir)
        P[f"cadir{ca}"] = cadir
    for issuer in ("A", "B", "self"):
        for san_name, san in (("local", "DNS:localhost,IP:127.0.0.1"), ("other", "DNS:other.test"), ("dnsonly", "DNS:localhost")):
            if san_name == "dnsonly" and issuer != "A":
                continue
            name = f"leaf-{issuer}-{san_name}"
            ext = os.path.join(d, name + ".ext")
            with open(ext, "w") as f:
                f.write(f"subjectAltName={san}\nbasicConstraints=CA:FALSE\nkeyUsage=digitalSignature,keyEncipherment\nextendedKeyUsage=serverAuth\n")
            if issuer == "self":
                sh(OPENSSL, "req", "-x509", "-newkey", "rsa:2048", "-nodes", "-keyout", name + ".key", "-out", name + ".pem", "-days", "3",
                   "-subj", f"/CN={name}", "-addext", f"subjectAltName={san}", cwd=d)
            else:
                sh(OPENSSL, "req", "-newkey", "rsa:2048", "-nodes", "-keyout", name + ".key", "-out", name + ".csr", "-subj", f"/CN={name}", cwd=d)
                sh(OPENSSL, "x509", "-req", "-in", name + ".csr", "-CA", f"ca{issuer}.pem", "-CAkey", f"ca{issuer}.key", "-CAcreateserial",
                   "-out", name + ".pem", "-days", "3", "-extfile", ext, cwd=d)
            P[name] = (os.path.join(d, name + ".pem"), os.path.join(d, name + ".key"))
    # a third CA that no trust option of any case names, a server certificate issued by it, and a client certificate bundle (client
    # leaf + that CA's certificate + key in one PEM file, as handed out by corporate PKIs) for sslopt["certfile"]
    sh(OPENSSL, "req", "-x509", "-newkey", "rsa:2048", "-nodes", "-keyout", "caC.key", "-out", "caC.pem", "-days", "3",
       "-subj", "/CN=wsverif test CA C", "-addext", "basicConstraints=critical,CA:TRUE", "-addext", "keyUsage=critical,keyCertSign,cRLSign", cwd=d)
    for name, san, eku in (("leaf-C-local", "DNS:localhost,IP:127.0.0.1", "serverAuth"), ("client-C", "DNS:client.test", "clientAuth")):
        ext = os.path.join(d, name + ".ext")
        with open(ext, "w") as f:
            f.write(f"subjectAltName={san}\nbasicConstraints=CA:FALSE\nkeyUsage=digitalSignature,keyEncipherment\nextendedKeyUsage={eku}\n")
        sh(OPENSSL, "req", "-newkey", "rsa:2048", "-nodes", "-keyout", name + ".key", "-out", name + ".csr", "-subj", f"/CN={name}", cwd=d)
        sh(OPENSSL, "x509", "-req", "-in", name + ".csr", "-CA", "caC.pem", "-CAkey", "caC.key", "-CAcreateserial", "-out", name + ".pem", "-days", "3", "-extfile", ext, cwd=d)
        P[name] = (os.path.join(d, name + ".pem"), os.path.join(d, name + ".key"))
    bundle = os.path.join(d, "client-bundle.pem")
    with open(bundle, "w") as f:
        for part in ("client-C.pem", "caC.pem", "client-C.key"):
            f.write(open(os.path.join(d, part)).read())
    P["client_bundle"] = bundle
    return P


class Server(threading.Thread):
    """Accepts connections one after the other; for each one records what it
    saw and (if it gets that far) answers the WebSocket upgrade."""

    def __init__(self, certkey=None):
        super().__init__(daemon=True)
        self.tls = certkey is not None
        self.ctx = None
        if self.tls:
            self.ctx = ssl.SSLContext(ssl.PROTOCOL_TLS_SERVER)
            self.ctx.load_cert_chain(*certkey)
        self.lsock = socket.socket(socket.AF_INET, socket.SOCK_STREAM)
        self.lsock.setsockopt(socket.SOL_SOCKET, socket.SO_REUSEADDR, 1)
        self.lsock.bind(("127.0.0.1", 0))
        self.lsock.listen(16)
        self.port = self.lsock.getsockname()[1]
        self.records = queue.Queue()
        self.stop = False

    def run(self):
        while not self.stop:
            try:
                conn, _ = self.lsock.accept()
            except OSError:
                return
            self.records.put(self.handle(conn))

    def handle(self, conn):
        rec = {"first": b"", "handshake": None, "app": b""}
        conn.settimeout(4)
        try:
            rec["first"] = conn.recv(5, socket.MSG_PEEK)
        except OSError as e:
            rec["peek_err"] = repr(e)
        if self.tls:
            try:
                conn = self.ctx.wrap_socket(conn, server_side=True)
                rec["handshake"] = True
            except (ssl.SSLError, OSError) as e:
                rec["handshake"] = False
                rec["hs_err"] = repr(e)[:120]
                try:
                    conn.close()
                except OSError:
                    pass
                return rec
        data = b""
        try:
            while b"\r\n\r\n" not in data and len(data) < 65536:
                d = conn.recv(4096)
                if not d:
                    break
                data += d
        except (ssl.SSLError, OSError) as e:
            rec["read_err"] = repr(e)[:120]
        rec["app"] = data
        if b"\r\n\r\n" in data:
            key = H.request_key(data) or ""
            try:
                conn.sendall(H.response_101(key))
                conn.settimeout(2)
                while conn.recv(4096):
                    pass
            except (ssl.SSLError, OSError):
                pass
        try:
            conn.close()
        except OSError:
            pass
        return rec

    def shutdown(self):
        self.stop = True
        try:
            self.lsock.close()
        except OSError:
            pass


class Proxy(threading.Thread):
    """HTTP CONNECT proxy to 127.0.0.1:<port>; records the first bytes the
    client sends through the tunnel."""

    def __init__(self):
        super().__init__(daemon=True)
        self.lsock = socket.socket(socket.AF_INET, socket.SOCK_STREAM)
        self.lsock.setsockopt(socket.SOL_SOCKET, socket.SO_REUSEADDR, 1)
        self.lsock.bind(("127.0.0.1", 0))
        self.lsock.listen(16)
        self.port = self.lsock.getsockname()[1]
        self.records = queue.Queue()
        self.stop = False

    def run(self):
        while not self.stop:
            try:
                conn, _ = self.lsock.accept()
            except OSError:
                return
            threading.Thread(target=self.handle, args=(conn,), daemon=True).start()

    def handle(self, conn):
        rec = {"connect": b"", "tunnel_first": b""}
        conn.settimeout(4)
        buf = b""
        try:
            while b"\r\n\r\n" not in buf:
                d = conn.recv(4096)
                if not d:
                    break
                buf += d
            head, _, rest = buf.partition(b"\r\n\r\n")
            rec["connect"] = head
            target = head.split(b" ")[1].decode()
            port = int(target.rsplit(":", 1)[1])
            up = socket.create_connection(("127.0.0.1", port), timeout=4)
            conn.sendall(b"HTTP/1.1 200 Connection established\r\n\r\n")
            first = [rest]

            def pump(a, b, note):
                try:
                    while True:
                        d = a.recv(65536)
                        if not d:
                            break
                        if note and len(b"".join(first)) < 5:
                            first.append(d)
                        b.sendall(d)
                except OSError:
                    pass
                try:
                    b.shutdown(socket.SHUT_WR)
                except OSError:
                    pass
            if rest:
                up.sendall(rest)
            t = threading.Thread(target=pump, args=(up, conn, False), daemon=True)
            t.start()
            pump(conn, up, True)
            t.join(3)
            rec["tunnel_first"] = b"".join(first)[:5]
            up.close()
        except Exception as e:  # noqa
            rec["err"] = repr(e)[:120]
        try:
            conn.close()
        except OSError:
            pass
        self.records.put(rec)

    def shutdown(self):
        self.stop = True
        try:
            self.lsock.close()
        except OSError:
            pass


CERT_REQS = ["unset", "none", "required", "optional", "None-value"]
CHECK_HOST = ["unset", False, True]
TRUST = ["none", "ca_certs=A", "ca_certs=B", "ca_cert_path=A", "env-file=A", "env-dir=A", "context(A)", "SSL_CERT_FILE=A", "ca_certs=B+env-file=A", "ca_cert_path=B+env-dir=A"]
SNI = ["unset", "localhost", "other.test", "127.0.0.1"]
CERTS = ["leaf-A-local", "leaf-A-other", "leaf-A-dnsonly", "leaf-B-local", "leaf-B-other", "leaf-self-local", "leaf-self-other"]
ROUTE = ["direct", "proxy"]
# alias.test: a name the resolver knows as an alias of localhost (canonical name "localhost", address 127.0.0.1); no certificate names it
URLHOST = ["localhost", "127.0.0.1", "alias.test"]
# the last two are legacy versions the installed OpenSSL may refuse to speak at all: only "never accepted unverified" is judged for them
SSLVER = ["unset", "PROTOCOL_TLS", "PROTOCOL_TLSv1_2", "PROTOCOL_TLS_CLIENT", "PROTOCOL_TLSv1_1", "PROTOCOL_TLSv1"]
LEGACY = ("PROTOCOL_TLSv1_1", "PROTOCOL_TLSv1")
SANS = {"local": {"localhost", "127.0.0.1"}, "other": {"other.test"}, "dnsonly": {"localhost"}}


def reference(cert_reqs, check_host, trust, sni, cert, urlhost="localhost"):
    """-> (expect_accept, chain_in_force, name_in_force, note)"""
    issuer = cert.split("-")[1]
    sans = SANS[cert.split("-")[2]]
    if trust == "context(A)":
        chain, name = True, True
        trusted = {"A"}
    else:
        chain = cert_reqs != "none"
        if cert_reqs == "none":
            if check_host is True:
                return False, False, True, "CERT_NONE with check_hostname=True is refused by ssl itself"
            name = False
        else:
            name = check_host is not False
        trusted = {"none": set(), "ca_certs=A": {"A"}, "ca_certs=B": {"B"}, "ca_cert_path=A": {"A"}, "env-file=A": {"A"}, "env-dir=A": {"A"},
                   "SSL_CERT_FILE=A": {"A"}, "ca_certs=B+env-file=A": {"B"}, "ca_cert_path=B+env-dir=A": {"B"}}[trust]
    eff_name = urlhost if sni == "unset" else sni
    ok = True
    if chain and issuer not in trusted:
        ok = False
    if name and eff_name not in sans:
        ok = False
    return ok, chain, name, ""


def run(res, tier, seed, shard, nshards):
    W = H.ws()
    if not OPENSSL:
        res.inconc("openssl CLI not found")
        return
    rng = random.Random((seed << 8) ^ shard ^ 0xC11)
    H.scrub_env()
    shim.real_aliases["alias.test"] = ("127.0.0.1", "localhost")
    os.environ.pop("SSL_CERT_FILE", None)
    os.environ.pop("SSL_CERT_DIR", None)
    d = os.path.join(core.OUT_DIR, "tls", f"{os.getpid()}-{shard}")
    shutil.rmtree(d, ignore_errors=True)
    t0 = time.time()
    try:
        P = mint(d)
    except Exception as e:  # noqa
        res.inconc(f"minting certificates failed: {e}")
        return
    res.notes["mint_seconds"] = round(time.time() - t0, 2)
    servers = {c: Server(P[c]) for c in CERTS}
    plain = Server(None)
    proxy = Proxy()
    for s in list(servers.values()) + [plain, proxy]:
        s.start()
    try:
        combos = list(itertools.product(CERT_REQS, CHECK_HOST, TRUST, SNI, CERTS, ROUTE, URLHOST, SSLVER))
        if tier == "thorough":
            # the ssl_version dimension is crossed fully only with the default route/url host
            combos = [c for c in combos if c[7] == "unset" or (c[5] == "direct" and c[6] == "localhost")]
        if tier == "quick":
            essential = []
            for cert in CERTS:
                for route in ROUTE:
                    for uh in URLHOST:
                        essential.append(("unset", "unset", "none", "unset", cert, route, uh, "unset"))
                        essential.append(("unset", "unset", "ca_certs=A", "unset", cert, route, uh, "unset"))
                        essential.append(("none", "unset", "none", "unset", cert, route, uh, "unset"))
                    essential.append(("unset", "unset", "ca_certs=B+env-file=A", "unset", cert, route, "localhost", "unset"))
                    essential.append(("unset", True, "ca_certs=A", "127.0.0.1", cert, route, "localhost", "unset"))
                    for sv in SSLVER[1:]:
                        essential.append(("unset", "unset", "ca_certs=A", "unset", cert, route, "localhost", sv))
            for cert in ("leaf-A-local", "leaf-A-dnsonly", "leaf-A-other"):
                for route in ROUTE:
                    essential.append(("unset", "unset", "ca_certs=A", "unset", cert, route, "alias.test", "unset"))
                    essential.append(("unset", "unset", "ca_certs=A", "localhost", cert, route, "alias.test", "unset"))
            for cert in CERTS:
                for route in ROUTE:
                    essential.append(("None-value", "unset", "ca_certs=A", "unset", cert, route, "localhost", "unset"))
                    essential.append(("None-value", "unset", "none", "unset", cert, route, "127.0.0.1", "unset"))
                    essential.append(("optional", "unset", "ca_certs=A", "unset", cert, route, "localhost", "unset"))
                    essential.append(("optional", False, "none", "unset", cert, route, "localhost", "unset"))
            r2 = random.Random(seed)
            sample = r2.sample(combos, 400)
            combos = essential + sample
        for ci, c in enumerate(combos):
            if ci % nshards != shard:
                continue
            tls_case(res, W, P, servers, proxy, *c)
        # the Host header override (virtual host) next to the TLS options
        hi = 0
        for cert in CERTS:
            for route in ROUTE:
                for hostopt in ("other.test", "other.test:8443", "localhost"):
                    for sni in ("unset", "other.test"):
                        for uh in (URLHOST if tier == "thorough" else ["localhost"]):
                            hi += 1
                            if hi % nshards == shard:
                                tls_case(res, W, P, servers, proxy, "unset", "unset", "ca_certs=A", sni, cert, route, uh, "unset", 0, hostopt)
        if shard == 1 % nshards:
            scheme_case_cases(res, W, servers)
            reuse_cases(res, W, P, servers)
        if shard == 2 % nshards:
            client_cert_cases(res, W, P, servers, proxy)
        # ws:// is never wrapped
        if shard == 0:
            for route in ROUTE:
                for opts in ({}, {"cert_reqs": ssl.CERT_NONE}, {"ca_certs": P["caA"]}):
                    plain_case(res, W, plain, proxy, route, opts)
    finally:
        for s in list(servers.values()) + [plain, proxy]:
            s.shutdown()
        shutil.rmtree(d, ignore_errors=True)
        os.environ.pop("SSL_CERT_FILE", None)
        H.scrub_env()


def tls_case(res, W, P, servers, proxy, cert_reqs, check_host, trust, sni, cert, route, urlhost="localhost", sslver="unset", _try=0, hostopt="unset"):
    H.scrub_env()
    os.environ.pop("SSL_CERT_FILE", None)
    sslopt = {}
    if cert_reqs == "none":
        sslopt["cert_reqs"] = ssl.CERT_NONE
    elif cert_reqs == "required":
        sslopt["cert_reqs"] = ssl.CERT_REQUIRED
    elif cert_reqs == "None-value":
        # the key is present with the value None (a dict built from optional configuration): never a way to switch verification off
        sslopt["cert_reqs"] = None
    elif cert_reqs == "optional":
        # for a client CERT_OPTIONAL means what CERT_REQUIRED means (the server's certificate is validated): not a documented relaxation
        sslopt["cert_reqs"] = ssl.CERT_OPTIONAL
    if check_host != "unset":
        sslopt["check_hostname"] = check_host
    if trust == "ca_certs=A":
        sslopt["ca_certs"] = P["caA"]
    elif trust == "ca_certs=B":
        sslopt["ca_certs"] = P["caB"]
    elif trust == "ca_cert_path=A":
        sslopt["ca_cert_path"] = P["cadirA"]
    elif trust == "env-file=A":
        os.environ["WEBSOCKET_CLIENT_CA_BUNDLE"] = P["caA"]
    elif trust == "env-dir=A":
        os.environ["WEBSOCKET_CLIENT_CA_BUNDLE"] = P["cadirA"]
    elif trust == "context(A)":
        sslopt["context"] = ssl.create_default_context(cafile=P["caA"])
    elif trust == "SSL_CERT_FILE=A":
        os.environ["SSL_CERT_FILE"] = P["caA"]
    elif trust == "ca_certs=B+env-file=A":
        # the caller's explicit CA file wins over the environment bundle
        sslopt["ca_certs"] = P["caB"]
        os.environ["WEBSOCKET_CLIENT_CA_BUNDLE"] = P["caA"]
    elif trust == "ca_cert_path=B+env-dir=A":
        sslopt["ca_cert_path"] = P["cadirB"]
        os.environ["WEBSOCKET_CLIENT_CA_BUNDLE"] = P["cadirA"]
    if sni != "unset":
        sslopt["server_hostname"] = sni
    if sslver != "unset" and trust != "context(A)":
        # the protocol-version option must not change what is verified
        sslopt["ssl_version"] = getattr(ssl, sslver)
    srv = servers[cert]
    while not srv.records.empty():
        srv.records.get()
    while not proxy.records.empty():
        proxy.records.get()
    kw = {}
    if route == "proxy":
        kw.update(http_proxy_host="127.0.0.1", http_proxy_port=proxy.port)
    if hostopt != "unset":
        # the Host header override names a virtual host for the HTTP request; it has no say in whom the certificate must name
        kw["host"] = hostopt
        res.count("tls_cases_with_host_header_override")
    del shim.wrap_log[:]
    exc = None
    w = None
    try:
        w = W.create_connection(f"wss://{urlhost}:{srv.port}/c11", timeout=5, sslopt=sslopt, **kw)
    except BaseException as e:  # noqa
        if isinstance(e, KeyboardInterrupt):
            raise
        exc = e
    finally:
        H.scrub_env()
        os.environ.pop("SSL_CERT_FILE", None)
    if w is not None:
        try:
            w.shutdown()
        except Exception:  # noqa
            pass
    # when the client never got as far as wrapping the socket there may be no server-side record at all
    wait = 8 if (exc is None or [r for r in shim.wrap_log if r["in_repo"]]) else (2 if route == "proxy" else 0.5)
    try:
        rec = srv.records.get(timeout=wait)
    except queue.Empty:
        rec = None
    prec = None
    if route == "proxy":
        try:
            prec = proxy.records.get(timeout=wait)
        except queue.Empty:
            prec = None
    exp, chain, name, note = reference(cert_reqs, check_host, trust, sni, cert, urlhost)
    case = {"cert_reqs": cert_reqs, "check_hostname": check_host, "trust": trust, "server_hostname": sni, "server_cert": cert, "route": route, "url_host": urlhost,
            "ssl_version": sslver, "host_option": hostopt}
    res.case(tuple(case.values()), nontrivial=True)
    res.count("tls_cases")
    res.count("accept_expected" if exp else "reject_expected")

    def bad(kind, detail, **kw_):
        res.violation(kind, f"{case}: {detail}", case, route=route, **kw_)

    if isinstance(exc, (TimeoutError, socket.timeout, W.WebSocketTimeoutException)):
        # real time: a loaded machine can make a loopback handshake miss its 5 s timeout; try again before giving up
        res.evaluations -= 1
        res.counters["tls_cases"] -= 1
        res.counters["accept_expected" if exp else "reject_expected"] -= 1
        if _try < 3:
            time.sleep(0.5)
            return tls_case(res, W, P, servers, proxy, cert_reqs, check_host, trust, sni, cert, route, urlhost, sslver, _try + 1, hostopt)
        res.count("tls_cases_skipped_after_repeated_wall_clock_timeouts")
        res.notes["wall_clock_timeouts"] = f"case {case} timed out 4 times in a row (machine overloaded?) and was skipped"
        return
    issuer = cert.split("-")[1]
    why = []
    if cert_reqs == "None-value":
        # only the reject direction is judged (the unchanged code refuses this sslopt outright, before any handshake)
        exp_strict, _, _, _ = reference("required", check_host, trust, sni, cert, urlhost)
        res.count("cert_reqs_None_value_cases")
        if exc is None and not exp_strict:
            bad("unauthenticated-peer-accepted", "connect() succeeded with sslopt cert_reqs=None although the certificate does not verify", which="chain",
                default_options=False)
        return
    if exp:
        if exc is not None and sslver in LEGACY:
            res.count("legacy_ssl_version_not_spoken_here")
        elif exc is not None:
            bad("valid-peer-rejected", f"{type(exc).__name__}: {str(exc)[:160]}", exc_type=type(exc).__name__)
    else:
        if exc is None:
            defect = "name" if (not chain or issuer in ("A", "B")) and name else "chain"
            bad("unauthenticated-peer-accepted", f"connect() succeeded although chain_in_force={chain} name_in_force={name} {note}", which=defect,
                default_options=(cert_reqs == "unset" and check_host == "unset"))
        elif rec is not None and rec.get("app"):
            bad("application-data-before-rejection", f"rejected with {type(exc).__name__} but the server decrypted {len(rec['app'])} application bytes")
    # what the server saw
    if rec is not None:
        res.count("server_records_checked")
        first = prec["tunnel_first"] if (route == "proxy" and prec is not None) else rec["first"]
        if note == "" or exc is None:
            if first[:1] == b"\x15" and first[1:2] == b"\x03" and exc is not None:
                # a TLS alert record: the client's TLS layer gave up before its first handshake message (e.g. a legacy protocol version
                # for which the installed OpenSSL has no cipher suite left) - TLS all the same, nothing of the application was sent
                res.count("first_byte_is_tls_alert_record")
            elif first[:1] != b"\x16" and first != b"":
                bad("stream-not-tls", f"first bytes on the {'tunnel' if route == 'proxy' else 'TCP stream'}: {first!r}")
            elif first[:1] == b"\x16":
                res.count("first_byte_is_tls_record")
    elif note == "":
        res.count("server_saw_no_connection")
    if route == "proxy" and prec is not None:
        if not prec["connect"].startswith(b"CONNECT %s:%d " % (urlhost.encode(), srv.port)):
            bad("connect-line", f"{prec['connect'][:60]!r}")
    # the context actually used
    wl = [r for r in shim.wrap_log if r["in_repo"]]
    if note == "" and trust != "context(A)":
        if len(wl) != 1:
            if not (exc is not None and len(wl) == 0):
                bad("wrap-count", f"wrap_socket called {len(wl)} times")
        else:
            r = wl[0]
            exp_mode = int(ssl.CERT_NONE) if not chain else int(ssl.CERT_REQUIRED)
            exp_name = urlhost if sni == "unset" else sni
            mode_ok = r["verify_mode"] == exp_mode or (chain and cert_reqs == "optional" and r["verify_mode"] == int(ssl.CERT_OPTIONAL))
            if not mode_ok or r["check_hostname"] != name or r["server_hostname"] != exp_name:
                bad("context-settings", f"context used: {r}; expected verify_mode={exp_mode} check_hostname={name} server_hostname={exp_name}")
            elif r.get("anon_ciphers"):
                # no option of this case asks for other cipher suites than the default ones: a suite without authentication makes every
                # verification setting moot (the server then sends no certificate)
                bad("context-settings", f"the context used offers cipher suites without authentication {r['anon_ciphers'][:4]}... although the caller "
                    f"configured no ciphers (ssl_version {sslver})", which="anonymous-ciphers")
            else:
                res.count("context_settings_checked")
    if exp and exc is None:
        res.sample(case, cap=2)
    elif not exp:
        res.sample(case, cap=4)


def client_cert_cases(res, W, P, servers, proxy):
    """sslopt["certfile"] names the client's own certificate (here a bundle that also contains the issuing CA): it identifies the client;
    it is not among the options that say whom to trust.  A server whose chain ends in that CA - which no CA option names - is refused
    like any other unknown issuer; a server with a trusted chain is accepted with the client certificate configured."""
    srvC = Server(P["leaf-C-local"])
    srvC.start()
    try:
        for route in ROUTE:
            for extra, srv, must_accept in (({}, srvC, False), ({"ca_certs": P["caA"]}, srvC, False), ({"ca_certs": P["caA"]}, servers["leaf-A-local"], True),
                                            ({"ca_certs": P["caA"], "cert_reqs": ssl.CERT_OPTIONAL}, srvC, False)):
                H.scrub_env()
                while not srv.records.empty():
                    srv.records.get()
                sslopt = dict(extra, certfile=P["client_bundle"])
                kw = dict(http_proxy_host="127.0.0.1", http_proxy_port=proxy.port) if route == "proxy" else {}
                exc = None
                try:
                    w = W.create_connection(f"wss://localhost:{srv.port}/c11", timeout=5, sslopt=sslopt, **kw)
                    w.shutdown()
                except Exception as e:  # noqa
                    exc = e
                try:
                    rec = srv.records.get(timeout=8 if exc is None else 2)
                except queue.Empty:
                    rec = None
                case = {"gen": "client-certificate-bundle", "route": route, "trust_options": sorted(extra), "server_issuer": "C" if srv is srvC else "A"}
                res.case(("client-cert", route, tuple(sorted(extra)), srv is srvC), nontrivial=True)
                res.count("client_certificate_cases")
                if isinstance(exc, (TimeoutError, socket.timeout, W.WebSocketTimeoutException)):
                    res.count("client_certificate_cases_skipped_after_wall_clock_timeout")
                    continue
                if must_accept and exc is not None:
                    res.violation("valid-peer-rejected", f"{case}: {type(exc).__name__}: {str(exc)[:160]}", case, route=route, exc_type=type(exc).__name__)
                elif not must_accept and exc is None:
                    res.violation("unauthenticated-peer-accepted", f"{case}: connect() succeeded although the server's chain ends in a CA that only the client's own certificate "
                                  f"bundle (sslopt certfile) contains", case, route=route, which="chain", default_options=not extra)
                elif not must_accept and rec is not None and rec.get("app"):
                    res.violation("application-data-before-rejection", f"{case}: rejected, but the server decrypted {len(rec['app'])} application bytes", case, route=route)
    finally:
        srvC.shutdown()
        os.environ.pop("SSL_CERT_FILE", None)
        H.scrub_env()


def plain_case(res, W, plain, proxy, route, sslopt):
    while not plain.records.empty():
        plain.records.get()
    while not proxy.records.empty():
        proxy.records.get()
    kw = {}
    if route == "proxy":
        kw.update(http_proxy_host="127.0.0.1", http_proxy_port=proxy.port)
    del shim.wrap_log[:]
    exc = None
    try:
        w = W.create_connection(f"ws://localhost:{plain.port}/plain", timeout=5, sslopt=dict(sslopt), **kw)
        w.shutdown()
    except Exception as e:  # noqa
        exc = e
    try:
        rec = plain.records.get(timeout=8)
    except queue.Empty:
        rec = None
    case = {"scheme": "ws", "route": route, "sslopt": sorted(sslopt)}
    res.case(("plain", route, tuple(sorted(sslopt))), nontrivial=True)
    res.count("plain_cases")
    if exc is not None:
        res.violation("plain-connect-failed", f"{case}: {type(exc).__name__}: {exc}", case, route=route)
        return
    if [r for r in shim.wrap_log if r["in_repo"]]:
        res.violation("ws-wrapped-in-tls", f"{case}: wrap_socket called for a ws:// URL", case, route=route)
    if rec is None or not rec["first"].startswith(b"GET "):
        res.violation("ws-first-bytes", f"{case}: first bytes {rec and rec['first']!r}", case, route=route)


def scheme_case_cases(res, W, servers):
    """WSS:// / Wss:// - whether such a spelling is accepted is not specified, but it must never be spoken in clear text"""
    srv = servers["leaf-A-local"]
    for scheme in ("WSS", "Wss", "wSS"):
        while not srv.records.empty():
            srv.records.get()
        exc = None
        try:
            w = W.create_connection(f"{scheme}://localhost:{srv.port}/x", timeout=5, sslopt={"cert_reqs": ssl.CERT_NONE})
            w.shutdown()
        except ValueError as e:
            exc = e
        except Exception as e:  # noqa
            exc = e
        res.case(("scheme-case", scheme), nontrivial=True)
        res.count("tls_cases")
        res.count("reject_expected")
        try:
            rec = srv.records.get(timeout=0.5 if exc is not None else 6)
        except queue.Empty:
            rec = None
        case = {"url_scheme": scheme}
        if rec is not None and rec["first"][:1] not in (b"\x16", b""):
            res.violation("stream-not-tls", f"{scheme}://: first bytes on the TCP stream {rec['first']!r} (clear text)", case, route="direct")
        elif rec is not None:
            res.count("server_records_checked")


def reuse_cases(res, W, P, servers):
    """the caller's sslopt dict and a WebSocket object reused for a second connection: trust configured through the
    environment for the first connection must not survive the removal of the variable"""
    srv = servers["leaf-A-local"]
    for how in ("same-dict", "same-object", "same-dict-dir"):
        for attempt in range(2):
            H.scrub_env()
            os.environ.pop("SSL_CERT_FILE", None)
            while not srv.records.empty():
                srv.records.get()
            sslopt = {}
            os.environ["WEBSOCKET_CLIENT_CA_BUNDLE"] = P["cadirA"] if how == "same-dict-dir" else P["caA"]
            first = second = None
            obj = W.WebSocket(sslopt=sslopt)
            try:
                if how == "same-object":
                    obj.connect(f"wss://localhost:{srv.port}/a", timeout=5)
                    obj.shutdown()
                else:
                    w = W.create_connection(f"wss://localhost:{srv.port}/a", timeout=5, sslopt=sslopt)
                    w.shutdown()
            except Exception as e:  # noqa
                first = e
            finally:
                H.scrub_env()
            try:
                srv.records.get(timeout=6)
            except queue.Empty:
                pass
            try:
                if how == "same-object":
                    obj.connect(f"wss://localhost:{srv.port}/b", timeout=5)
                    obj.shutdown()
                else:
                    w = W.create_connection(f"wss://localhost:{srv.port}/b", timeout=5, sslopt=sslopt)
                    w.shutdown()
            except Exception as e:  # noqa
                second = e
            try:
                rec = srv.records.get(timeout=6 if second is None else 1)
            except queue.Empty:
                rec = None
            if isinstance(first, (TimeoutError, W.WebSocketTimeoutException)) or isinstance(second, (TimeoutError, W.WebSocketTimeoutException)):
                continue  # wall clock; try once more
            res.case(("sslopt-reuse", how), nontrivial=True)
            res.count("tls_cases", 2)
            res.count("accept_expected")
            res.count("reject_expected")
            case = {"scenario": "sslopt/object reused after WEBSOCKET_CLIENT_CA_BUNDLE was removed", "how": how, "sslopt_after": sorted(sslopt)}
            if first is not None:
                res.violation("valid-peer-rejected", f"{case}: first connection (bundle set) failed: {first!r}", case, route="direct", exc_type=type(first).__name__)
            elif second is None:
                res.violation("unauthenticated-peer-accepted", f"{case}: second connection succeeded although nothing trusts the server's CA any more", case, route="direct", which="chain",
                              default_options=True)
            elif rec is not None and rec.get("app"):
                res.violation("application-data-before-rejection", f"{case}: {len(rec['app'])} application bytes reached the server", case, route="direct")
            break
