"""C12 - each send puts one intact frame on the wire under partial writes and
threads; concurrent receivers get each message intact exactly once."""
from __future__ import annotations

import itertools
import random

from .. import harness as H
from ..ref import rfc6455 as R
from ..sim import net, sched, shim

SHARDS = {"quick": 16, "thorough": 16}
META = {
    "level": "exploration",
    "technique": "runtime monitoring under a deterministic scheduler: real library threads run one at a time with every lock operation, transport call and (optionally) source line as a scheduling point; schedules are enumerated (DFS over scheduler decisions, one-preemption-at-every-line sweeps) and sampled (seeded random); the oracle decodes the byte stream accepted by the simulated transport and the multiset of messages returned to receivers",
    "claim": "Single thread: for all 2^(n-1) short-write plans of frames up to 12 bytes and random plans for frames up to 1 MiB the bytes accepted for one send call were exactly one frame and the return value its length. Threads: over all explored schedules of 2-4 senders (short writes forcing a scheduling point inside every frame) the accepted stream decoded to whole frames, each from one thread contiguously, multiset and per-thread order preserved; over all explored schedules of 2-4 receivers on fragmented traffic with pings every message was delivered intact to exactly one receiver and every ping answered by one intact pong. Evidence lists distinct schedules (decision lists) and distinct outcomes.",
    "trusted": "the scheduler serialises actors, so monitor state cannot race; preemption granularity is source lines and synchronisation/IO operations, not bytecodes",
    "rule": "case = (scenario, schedule decision list or short-write plan); distinct by the hash of the decision list / plan; non-trivial when the schedule contains at least one switch between actors while a frame was partially written or partially read, or the plan has >= 2 pieces",
    "exhaustive": {"quick": False, "thorough": False},
    "exhaustive_space": {"quick": "all short-write plans for frames of 7..12 bytes; DFS over all scheduler decisions (sync/IO granularity) of 2 senders x 1 frame x 3 pieces",
                         "thorough": "same + DFS of 2 senders x 2 frames and 3 senders x 1 frame (bounded at 20000 schedules each); one-preemption sweeps at line granularity"},
    "bounds": "<= 4 threads; line granularity, not bytecode; DFS bounded by schedule budget for the larger scenarios",
    "required_counters": ["short_write_plans", "sender_schedules", "receiver_schedules", "schedules_with_mid_frame_switch"],
    "assumptions": [],
}
META["claim"] += " " + "Also: the dispatcher object's send path under short writes; receivers calling recv_frame() themselves; a slow transport (every write takes virtual time) with a socket timeout shorter than a frame and three senders; two- and three-preemption sampling at line granularity."
META["claim"] += " " + 'Round 4: str payloads under short writes (framing judged); four short messages of alternating kind received by 2-3 threads with a preemption at every single line.'
META["claim"] += " " + "Round 5: sender threads that threading.active_count() does not see (started behind the threading module's back); the transport offers sendmsg()."
META["claim"] += " " + 'Rounds 6-7: aged connections, a fragmenting sender, a reader plus a ponger; a consumer that iterates over the connection next to recv()/next() callers; sender threads whose earlier send was refused by the transport.'
META["claim"] += " " + 'Round 8: close(timeout=...) from another thread during a frame written in small pieces; two threads sending 1 MiB messages over real loopback TCP.'


# ---------------------------------------------------------------------------
# (a) single thread, short writes


def short_write_cases(res, W, rng, tier, shard, nshards):
    idx = 0

    def scen():
        nonlocal idx
        for plen in range(1, 7):
            n = 6 + plen
            for mask in range(1 << (n - 1)):
                idx += 1
                if idx % nshards != shard:
                    continue
                cuts = [i + 1 for i in range(n - 1) if mask >> i & 1]
                pieces = [b - a for a, b in zip([0] + cuts, cuts + [n])]
                one_short_write(res, W, rng, plen, pieces, "exhaustive")
        for _ in range((300 if tier == "quick" else 6000) // nshards + 1):
            plen = rng.choice([0, 1, 125, 126, 4000, 65535, 65536, 200000, 1 << 20 if rng.random() < 0.1 else 70000])
            style = rng.choice(["dribble", "halves", "blocks", "random"])
            one_short_write(res, W, rng, plen, style, "random")

    H.in_sim(scen, watchdog=3000)


def one_short_write(res, W, rng, plen, plan, gen):
    payload = rng.randbytes(plen)
    # a third of the cases go through the dispatcher object's send path, as every socket made by WebSocketApp does
    via_dispatcher = rng.random() < 0.34
    kw = {"dispatcher": W._dispatcher.DispatcherBase(None, None)} if via_dispatcher else None
    w, conn, peer = H.connected_ws(ws_kwargs=kw)
    if via_dispatcher:
        res.count("short_write_plans_via_dispatcher")
    if isinstance(plan, list):
        conn.write_plan = iter(plan)
        desc = tuple(plan)
    elif plan == "dribble":
        conn.write_plan = itertools.chain(iter([1] * 40), itertools.cycle([rng.randrange(1, 5000)]))
        desc = "dribble"
    elif plan == "halves":
        def halves():
            rem = plen + 14
            while True:
                rem = max(1, rem // 2)
                yield rem
        conn.write_plan = halves()
        desc = "halves"
    elif plan == "blocks":
        conn.write_plan = itertools.cycle([16384])
        desc = "blocks16k"
    else:
        conn.write_plan = (rng.randrange(1, 3000) for _ in itertools.count())
        desc = "random"
    before = len(peer.client_stream)
    api = rng.choice(["send_binary", "send_frame", "ping", "direct_str", "cont_str"]) if plen <= 125 else rng.choice(["send_binary", "send_binary", "direct_str", "cont_str"])
    judge_payload = True
    try:
        if api == "direct_str":
            # an ABNF object built directly around a str (characters up to U+00FF): whatever bytes the text becomes, what one call
            # writes is one complete frame whose declared length matches the bytes that follow
            text = "".join(chr(rng.choice([rng.randrange(0x20, 0x7f), rng.randrange(0xa0, 0x100)])) for _ in range(plen))
            ret = w.send_frame(W.ABNF(1, 0, 0, 0, W.ABNF.OPCODE_BINARY, 1, text))
            op = R.BINARY
            judge_payload = False
        elif api == "cont_str":
            text = "".join(chr(rng.choice([rng.randrange(0x20, 0x7f), rng.randrange(0xa0, 0x800), rng.randrange(0x4e00, 0x9fff)])) for _ in range(plen // 2))
            payload = text.encode("utf-8")
            plen = len(payload)
            ret = w.send_frame(W.ABNF.create_frame(text, W.ABNF.OPCODE_CONT, 1))
            op = R.CONT
        elif api == "send_binary":
            ret = w.send_binary(payload)
            op = R.BINARY
        elif api == "send_frame":
            ret = w.send_frame(W.ABNF.create_frame(payload, W.ABNF.OPCODE_TEXT, 0))
            op = R.TEXT
        else:
            ret = w.send(payload, W.ABNF.OPCODE_PING)
            op = R.PING
    except Exception as e:  # noqa
        res.violation("short-write-send-raised", f"plan {desc} len {plen}: {type(e).__name__}: {e}", {"plan": desc, "len": plen}, exc_type=type(e).__name__)
        return
    written = bytes(peer.client_stream[before:])
    npieces = sum(1 for a, p in conn.sent_pieces) - 1
    res.count("short_write_plans")
    res.case(("sw", plen, desc if isinstance(desc, tuple) else (desc, rng.random())), nontrivial=npieces >= 2)
    case = {"gen": gen, "payload_len": plen, "plan": desc, "api": api, "pieces_accepted": npieces}
    try:
        f = R.decode_one(written)
    except R.Incomplete:
        res.violation("short-write-frame-incomplete", f"plan {desc} len {plen}: {len(written)} bytes accepted do not hold one frame", case, gen=gen)
        return
    if f.end != len(written) or (judge_payload and f.payload != payload) or f.opcode != op or not f.masked:
        res.violation("short-write-frame-damaged", f"plan {desc} len {plen}: frame end {f.end}/{len(written)}, payload equal={f.payload == payload}", case, gen=gen)
    elif ret != len(written):
        res.violation("short-write-return-value", f"plan {desc} len {plen}: returned {ret}, frame has {len(written)} bytes", case, gen=gen)
    res.sample(case, cap=2)


# ---------------------------------------------------------------------------
# (b) concurrent senders / (c) receivers


def sender_scenario(W, nthreads, nframes, piece, line_points, with_recv=False, slow=None, foreign=False, fragmenting=False, aged=0, prefail=False):
    """returns a function(strategy) -> observation dict.  slow=(send_delay, socket_timeout): every transport write
    takes virtual time and the socket has a timeout shorter than a whole frame takes."""

    def scen():
        S = sched.CURRENT
        stream = b""
        if with_recv:
            for i in range(3):
                stream += R.encode(R.PING, b"pg%d" % i) + R.encode(R.TEXT, b"m%d" % i)
        w, conn, peer = H.connected_ws(after=stream, timeout=(slow[1] if slow else None))
        if aged:
            # the connection has already carried this many frames (single-threaded, before the race starts)
            for i in range(aged):
                w.send_binary(b"")
        conn.write_plan = itertools.cycle([piece])
        if slow:
            conn.send_delay = slow[0]
        req_len = len(conn.sent)
        del conn.sent_pieces[:]
        conn.sent_pieces.append(("main", bytes(req_len)))
        errors = []
        got = []
        timed_out = []

        go = [not prefail]
        ready = []

        def sender(t):
            if prefail:
                # before the race: a send of this very thread that the transport refuses before taking a byte (timeout with a full
                # buffer, or a reset that is not one): nothing was written, the stream is intact, the connection goes on
                import socket as _socket
                if t % 2 == 0:
                    conn.send_error = _socket.timeout("timed out")
                    try:
                        w.send_binary(b"never-written-%d" % t)
                    except BaseException as e:  # noqa
                        if isinstance(e, sched.SimAbort):
                            raise
                ready.append(t)
                S.block(lambda: go[0], None, why="start barrier")
            for k in range(nframes):
                try:
                    if fragmenting and t == 0:
                        # this thread sends its messages in two fragments through send_frame() (the idiom of its docstring)
                        body = b"F0K%d|" % k + b"f" * (4 + k)
                        w.send_frame(W.ABNF.create_frame(body[:3], W.ABNF.OPCODE_BINARY, 0))
                        w.send_frame(W.ABNF.create_frame(body[3:], W.ABNF.OPCODE_CONT, 1))
                    elif (t + k) % 2:
                        w.send_binary(b"T%dK%d|" % (t, k) + bytes([65 + t]) * (3 + t))
                    else:
                        w.send(("t%dk%d|" % (t, k)) + chr(97 + t) * (2 + k))
                except BaseException as e:  # noqa
                    if isinstance(e, sched.SimAbort):
                        raise
                    if slow and isinstance(e, W.WebSocketTimeoutException):
                        # a send that gives up waiting (for the lock or the transport) is legitimate on a slow transport;
                        # what it must not do is damage anybody else's frame
                        timed_out.append((t, k))
                        continue
                    errors.append((t, k, e))

        def receiver():
            while len(got) < 3:
                try:
                    got.append(w.recv())
                except BaseException as e:  # noqa
                    if isinstance(e, sched.SimAbort):
                        raise
                    errors.append(("r", 0, e))
                    return

        actors = []
        for t in range(nthreads):
            actors.append(S.spawn(sender, t, name=f"S{t}"))
            if prefail:
                # one after the other: each thread's refused send is over before the next thread starts
                S.block(lambda t=t: t in ready, None, why="sender at the barrier")
        if foreign:
            # sender threads started behind the threading module's back: threading.active_count() does not see them
            for a in actors:
                a.foreign = True
        if with_recv:
            actors.append(S.spawn(receiver, name="R0"))
        if prefail:
            S.block(lambda: len(ready) == nthreads, None, why="senders at the barrier")
            conn.send_error = None
            go[0] = True
        S.arm(line_points=line_points)
        S.block(lambda: all(a.state == sched.DONE for a in actors), None, why="join")
        S.disarm()
        return {"conn": conn, "req_len": req_len, "errors": errors, "got": got, "actors": actors, "timed_out": timed_out}

    return scen


def close_during_send_case(res, W, size, piece, delay, close_to, close_at):
    """One thread is in the middle of a frame that the transport takes in small pieces over a long time; another thread calls
    close(timeout=...) meanwhile: whatever close() does about its timeout, the bytes on the wire stay a sequence of whole frames -
    the sender's frame intact, a close frame (if any) before or after it, never inside."""
    out = {}

    def scen():
        S = sched.CURRENT
        w, conn, peer = H.connected_ws()
        conn.write_plan = itertools.cycle([piece])
        conn.send_delay = delay
        req_len = len(conn.sent)
        body = bytes((i * 7) & 0xFF for i in range(size))
        errors = []

        def sender():
            try:
                w.send_binary(body)
            except BaseException as e:  # noqa
                if isinstance(e, sched.SimAbort):
                    raise
                errors.append(("sender", e))

        def closer():
            S.sleep(close_at)
            try:
                w.close(timeout=close_to)
            except BaseException as e:  # noqa
                if isinstance(e, sched.SimAbort):
                    raise
                errors.append(("closer", e))
        actors = [S.spawn(sender, name="S0"), S.spawn(closer, name="closer")]
        S.block(lambda: all(a.state == sched.DONE for a in actors), None, why="join")
        out.update(wire=bytes(conn.sent[req_len:]), body=body, errors=errors)
    S = sched.Sched(horizon=600, watchdog=60)
    case = {"gen": "close-during-send", "frame_size": size, "piece": piece, "write_takes": delay, "close_timeout": close_to, "close_at": close_at}
    res.case(("close-during-send", size, piece, delay, close_to, close_at), nontrivial=True)
    res.count("close_during_send_cases")
    try:
        S.run(scen)
    except sched.SimFailure as e:
        if isinstance(e, sched.WatchdogExpired):
            res.inconc("close-during-send: watchdog")
        else:
            res.violation("deadlock" if isinstance(e, sched.Deadlock) else "not-terminated", f"close() during a slow send: {e}", case, scenario="close-during-send")
        return
    wire = out["wire"]
    frames, pos = R.decode_all(wire)
    whole = [f for f in frames if f.opcode == R.BINARY]
    if pos != len(wire):
        # a final frame cut short (the transport went away under the sender) is tolerable only if it is the sender's own frame, byte-exact
        # as far as it got, with nothing else mixed in
        tail_ok = False
        try:
            f = R.decode_one(wire[pos:] + bytes(len(out["body"]) + 64), 0)
            hdr = f.end - f.length
            part = wire[pos + hdr:]
            tail_ok = f.opcode == R.BINARY and f.length == len(out["body"]) and f.masked and R.unmask(f.key, part) == out["body"][:len(part)]
        except Exception:  # noqa
            tail_ok = False
        if not tail_ok or any(f.opcode == R.CLOSE for f in frames):
            res.violation("wire-garbage", f"close(timeout={close_to}) at t={close_at} during a {size}-byte frame written {piece} bytes per {delay}s: {len(wire) - pos} bytes "
                          f"behind {[(f.opcode, f.length) for f in frames]} are not a whole frame", case, scenario="close-during-send")
        return
    if any(f.payload != out["body"] for f in whole) or len(whole) > 1:
        res.violation("interleaved-frame", f"close(timeout={close_to}) during a slow send: binary frames on the wire {[(f.length, f.payload == out['body']) for f in whole]}", case,
                      scenario="close-during-send")


def real_tcp_big_senders(res, W):
    """Two threads each send several 1 MiB messages over a real loopback TCP connection (no timeout, no TLS) whose server drains
    slowly, so that every write blocks on a full kernel buffer: the server must decode whole frames, each carrying one sender's payload.
    (Real threads and the real kernel: complements the scheduler explorations, which run on the simulated transport.)  A damaged
    stream has to reproduce on a second attempt before it is reported."""
    import socket
    import threading
    import time
    MSG = 1 << 20
    for attempt in range(2):
        lsock = socket.socket()
        lsock.setsockopt(socket.SOL_SOCKET, socket.SO_REUSEADDR, 1)
        lsock.setsockopt(socket.SOL_SOCKET, socket.SO_RCVBUF, 65536)
        lsock.bind(("127.0.0.1", 0))
        lsock.listen(1)
        port = lsock.getsockname()[1]
        got = bytearray()
        done = threading.Event()

        def server(lsock=lsock, got=got, done=done):
            try:
                lsock.settimeout(15)
                c, _ = lsock.accept()
                c.settimeout(15)
                buf = b""
                while b"\r\n\r\n" not in buf:
                    d = c.recv(4096)
                    if not d:
                        return
                    buf += d
                c.sendall(H.response_101(H.request_key(buf) or ""))
                while True:
                    d = c.recv(32768)
                    if not d:
                        break
                    got.extend(d)
                    if len(got) % (1 << 19) < 32768:
                        time.sleep(0.002)  # drain slowly
                c.close()
            except OSError:
                pass
            finally:
                lsock.close()
                done.set()
        threading.Thread(target=server, daemon=True).start()
        errors = []
        try:
            w = W.create_connection(f"ws://127.0.0.1:{port}/", timeout=None)
        except Exception as e:  # noqa
            res.notes["real_tcp_big_senders"] = f"could not connect: {e}"
            return

        def sender(t, w=w, errors=errors):
            try:
                for k in range(4):
                    w.send_binary(bytes([0x41 + t]) * (MSG + t * 1000 + k))
            except Exception as e:  # noqa
                errors.append((t, e))
        ths = [threading.Thread(target=sender, args=(t,), daemon=True) for t in (0, 1)]
        for th in ths:
            th.start()
        for th in ths:
            th.join(60)
        stuck = any(th.is_alive() for th in ths)
        try:
            w.shutdown()
        except Exception:  # noqa
            pass
        done.wait(30)
        res.count("real_tcp_big_sender_runs")
        if stuck:
            res.notes["real_tcp_big_senders"] = "senders still busy after 60 s (machine overloaded?): run skipped"
            return
        problem = None
        try:
            frames, pos = R.decode_all(bytes(got))
        except Exception as e:  # noqa
            frames, pos, problem = [], 0, f"undecodable stream: {e}"
        if problem is None:
            if pos != len(got) or len(frames) != 8:
                problem = f"{len(frames)} whole frames, {len(got) - pos} stray bytes (8 frames sent)"
            else:
                for f in frames:
                    if f.opcode != R.BINARY or len(set(f.payload)) != 1 or f.payload[0] not in (0x41, 0x42):
                        problem = f"a frame of {f.length} bytes is not one sender's message (distinct byte values {sorted(set(f.payload))[:4]})"
                        break
        if errors and problem is None:
            problem = f"sender raised {errors[0][1]!r}"
        if problem is None:
            res.count("real_tcp_big_frames_intact", 8)
            return
        if attempt == 1:
            res.violation("interleaved-frame", f"two threads sending 1 MiB messages over a real TCP connection (blocking, no timeout): {problem}",
                          {"gen": "real-tcp-big-senders"}, scenario="real-tcp-big-senders")


def expected_sends(nthreads, nframes, fragmenting=False):
    exp = {}
    for t in range(nthreads):
        lst = []
        for k in range(nframes):
            if fragmenting and t == 0:
                body = b"F0K%d|" % k + b"f" * (4 + k)
                lst.append((R.BINARY, body[:3]))
                lst.append((R.CONT, body[3:]))
            elif (t + k) % 2:
                lst.append((R.BINARY, b"T%dK%d|" % (t, k) + bytes([65 + t]) * (3 + t)))
            else:
                lst.append((R.TEXT, (("t%dk%d|" % (t, k)) + chr(97 + t) * (2 + k)).encode()))
        exp[f"S{t}"] = lst
    return exp


def judge_senders(res, obs, S, nthreads, nframes, tag, with_recv=False, fragmenting=False):
    conn = obs["conn"]
    stream = bytes(conn.sent[obs["req_len"]:])
    frames, pos = R.decode_all(stream)
    case = {"scenario": tag, "decisions": list(S.decisions)[:400], "n_decisions": len(S.decisions)}
    issues = []
    for t, k, e in obs["errors"]:
        issues.append(("thread-exception", f"thread {t} frame {k}: {type(e).__name__}: {e}", {"exc_type": type(e).__name__}))
    if any(a.exc is not None for a in obs["actors"]):
        issues.append(("thread-exception", f"uncaught: {[a.exc for a in obs['actors'] if a.exc]}", {}))
    if pos != len(stream):
        issues.append(("wire-garbage", f"accepted stream has {len(stream) - pos} trailing bytes that are not a whole frame", {}))
    # ownership of every byte
    owners = []
    off = 0
    for actor, piece in conn.sent_pieces:
        owners.extend([actor] * len(piece))
    owners = owners[obs["req_len"]:]
    exp = expected_sends(nthreads, nframes, fragmenting)
    per_thread = {k: [] for k in exp}
    pongs = []
    mid_frame_switch = False
    for f in frames:
        own = set(owners[f.start:f.end])
        if len(own) != 1:
            issues.append(("interleaved-frame", f"bytes {f.start}..{f.end} of one frame were written by {sorted(map(str, own))}", {}))
            continue
        o = own.pop()
        if f.opcode == R.PONG:
            pongs.append(f.payload)
            continue
        if o not in per_thread:
            issues.append(("unexpected-frame", f"frame opcode {f.opcode} written by {o}", {}))
            continue
        per_thread[o].append((f.opcode, f.payload))
    # was there a switch while a frame was partially written?
    prev = None
    boundaries = {f.end for f in frames}
    offp = 0
    for actor, piece in conn.sent_pieces:
        if offp >= obs["req_len"] and prev is not None and actor != prev and (offp - obs["req_len"]) not in boundaries:
            mid_frame_switch = True
        offp += len(piece)
        prev = actor
    gave_up = {f"S{t}" for t, k in obs.get("timed_out", [])}
    for name, lst in exp.items():
        if name in gave_up:
            # frames of a sender that timed out may be missing; the ones on the wire must be its own, whole and in order
            it = iter(lst)
            if not all(any(x == y for y in it) for x in per_thread.get(name, [])) and not issues:
                issues.append(("frames-lost-or-reordered", f"{name} (timed out once) wrote {per_thread.get(name)!r}, not a subsequence of {lst!r}", {}))
            continue
        if per_thread.get(name) != lst and not issues:
            issues.append(("frames-lost-or-reordered", f"{name} wrote {per_thread.get(name)!r}, expected {lst!r}", {}))
    if with_recv:
        if sorted(obs["got"]) != sorted(["m0", "m1", "m2"]) :
            issues.append(("receiver-messages", f"receiver got {obs['got']!r}", {}))
        if sorted(pongs) != sorted([b"pg0", b"pg1", b"pg2"]):
            issues.append(("pongs", f"pongs on the wire {pongs!r}", {}))
    order = tuple(o for o, _ in itertools.groupby(owners))
    return issues, case, order, mid_frame_switch


def receiver_scenario(W, nthreads, stream_builder, line_points, seg_rng, api="recv", whole=False):
    def scen():
        S = sched.CURRENT
        stream, msgs, pings = stream_builder()
        cuts = None if whole else sorted({seg_rng.randrange(1, len(stream)) for _ in range(seg_rng.choice([3, 8, 20]))})
        w, conn, peer = H.connected_ws()
        conn.deliver(stream, cuts=cuts)
        conn.peer_close()
        req_len = len(conn.sent)
        got = {}
        errors = []

        def receiver(t):
            lst = got.setdefault(t, [])
            it = iter(w) if api == "iter-and-recv" and t == 0 else None
            while True:
                try:
                    if api == "recv" or (api == "iter-and-recv" and t == 1):
                        lst.append(w.recv())
                    elif api == "iter-and-recv":
                        # the object is its own iterator: `for message in ws` in one thread (t == 0), next(ws) in the others
                        lst.append(next(it) if it is not None else next(w))
                    else:
                        fr = w.recv_frame()
                        if fr.opcode == R.TEXT:
                            lst.append(fr.data.decode("utf-8"))
                        elif fr.opcode == R.BINARY:
                            lst.append(bytes(fr.data))
                except W.WebSocketConnectionClosedException:
                    return
                except BaseException as e:  # noqa
                    if isinstance(e, sched.SimAbort):
                        raise
                    errors.append((t, e))
                    return

        actors = [S.spawn(receiver, t, name=f"R{t}") for t in range(nthreads)]
        S.arm(line_points=line_points)
        S.block(lambda: all(a.state == sched.DONE for a in actors), None, why="join")
        S.disarm()
        return {"conn": conn, "req_len": req_len, "got": got, "errors": errors, "msgs": msgs, "pings": pings, "actors": actors}
    return scen


def ponger_scenario(W, line_points):
    """one thread receives (and so answers the server's pings), another sends unsolicited pongs of its own (a one-way heartbeat)"""
    def scen():
        S = sched.CURRENT
        pings = [b"ping-one", b"p2", b"ping-number-three"]
        stream = b"".join(R.encode(R.PING, p) + R.encode(R.TEXT, b"m%d" % i) for i, p in enumerate(pings))
        w, conn, peer = H.connected_ws(after=stream)
        req_len = len(conn.sent)
        errors, got = [], []

        def reader():
            for _ in pings:
                try:
                    got.append(w.recv())
                except BaseException as e:  # noqa
                    if isinstance(e, sched.SimAbort):
                        raise
                    errors.append(("reader", e))
                    return

        def ponger():
            for i in range(3):
                try:
                    w.pong(b"heartbeat-%d-from-the-application" % i)
                except BaseException as e:  # noqa
                    if isinstance(e, sched.SimAbort):
                        raise
                    errors.append(("ponger", e))
                    return
        actors = [S.spawn(reader, name="R0"), S.spawn(ponger, name="P0")]
        S.arm(line_points=line_points)
        S.block(lambda: all(a.state == sched.DONE for a in actors), None, why="join")
        S.disarm()
        return {"conn": conn, "req_len": req_len, "errors": errors, "got": got, "actors": actors, "pings": pings}
    return scen


def judge_ponger(res, obs, S, tag):
    issues = []
    for who, e in obs["errors"]:
        issues.append(("thread-exception", f"{who}: {type(e).__name__}: {e}", {"exc_type": type(e).__name__}))
    conn = obs["conn"]
    stream = bytes(conn.sent[obs["req_len"]:])
    frames, pos = R.decode_all(stream)
    if pos != len(stream):
        issues.append(("wire-garbage", f"accepted stream has {len(stream) - pos} trailing bytes that are not a whole frame", {}))
    bad = [f for f in frames if f.opcode != R.PONG or not f.masked or f.rsv]
    if bad:
        issues.append(("wire-garbage", f"frames other than well-formed pongs on the wire: {[(f.opcode, f.rsv, f.payload[:10]) for f in bad][:3]}", {}))
    auto = [f.payload for f in frames if f.opcode == R.PONG and not f.payload.startswith(b"heartbeat-")]
    own = [f.payload for f in frames if f.opcode == R.PONG and f.payload.startswith(b"heartbeat-")]
    if auto != obs["pings"]:
        issues.append(("pongs-damaged", f"pings {obs['pings']!r} answered by {auto!r}", {}))
    if own != [b"heartbeat-%d-from-the-application" % i for i in range(3)]:
        issues.append(("pongs-damaged", f"the application's own pongs arrived as {own!r}", {}))
    case = {"scenario": tag, "decisions": list(S.decisions)[:400], "n_decisions": len(S.decisions)}
    return issues, case, (len(frames),), True


def build_recv_stream(rng):
    msgs = []
    pings = []
    parts = []
    for i in range(rng.randrange(3, 7)):
        text = rng.random() < 0.5
        body = (("msg%d-" % i) + "é€x" * rng.randrange(0, 4)).encode() if text else b"BIN%d-" % i + bytes(rng.randrange(256) for _ in range(rng.randrange(0, 9)))
        k = rng.randrange(1, 4)
        cuts = sorted(rng.randrange(0, len(body) + 1) for _ in range(k - 1))
        frs = [body[a:b] for a, b in zip([0] + cuts, cuts + [len(body)])]
        for j, fr in enumerate(frs):
            parts.append(R.encode((R.TEXT if text else R.BINARY) if j == 0 else R.CONT, fr, fin=1 if j == len(frs) - 1 else 0))
            if rng.random() < 0.3:
                p = b"pi%d%d" % (i, j)
                parts.append(R.encode(R.PING, p))
                pings.append(p)
        msgs.append(body.decode() if text else body)
    return b"".join(parts), msgs, pings


def build_mixed_small(rng):
    """few short unfragmented messages of alternating kind in one segment: small enough for a preemption at *every* line"""
    msgs, parts = [], []
    for i in range(4):
        text = (i % 2 == 0)
        body = b"t%d" % i if text else b"\xff\x00b%d" % i
        parts.append(R.encode(R.TEXT if text else R.BINARY, body))
        msgs.append(body.decode() if text else body)
    return b"".join(parts), msgs, []


def build_frame_stream(rng):
    """unfragmented messages only (one frame == one message), for receivers that call recv_frame() themselves"""
    msgs, parts = [], []
    for i in range(rng.randrange(4, 9)):
        text = rng.random() < 0.5
        n = rng.choice([0, 1, 5, 40, 126, 300])
        body = (("f%d-" % i) + "x" * n).encode() if text else b"FB%d-" % i + bytes(rng.randrange(256) for _ in range(n))
        parts.append(R.encode(R.TEXT if text else R.BINARY, body, key=rng.randbytes(4) if rng.random() < 0.3 else None))
        msgs.append(body.decode() if text else body)
    return b"".join(parts), msgs, []


def judge_receivers(res, obs, S, tag):
    issues = []
    for t, e in obs["errors"]:
        issues.append(("receiver-exception", f"receiver {t}: {type(e).__name__}: {e}", {"exc_type": type(e).__name__}))
    if any(a.exc is not None for a in obs["actors"]):
        issues.append(("receiver-exception", f"uncaught: {[a.exc for a in obs['actors'] if a.exc]}", {}))
    delivered = [m for lst in obs["got"].values() for m in lst]
    key = lambda m: (0, m) if isinstance(m, str) else (1, m)  # noqa
    if sorted(delivered, key=key) != sorted(obs["msgs"], key=key):
        lost = [m for m in obs["msgs"] if m not in delivered]
        extra = [m for m in delivered if m not in obs["msgs"]]
        issues.append(("messages-lost-or-damaged", f"sent {len(obs['msgs'])} messages, delivered {len(delivered)}; missing {lost[:3]!r} unexpected {extra[:3]!r}", {}))
    # per receiver order must respect sending order
    for t, lst in obs["got"].items():
        idxs = [obs["msgs"].index(m) for m in lst if m in obs["msgs"]]
        if idxs != sorted(idxs):
            issues.append(("receiver-order", f"receiver {t} saw messages out of order {idxs}", {}))
    conn = obs["conn"]
    frames, pos = R.decode_all(bytes(conn.sent[obs["req_len"]:]))
    pongs = [f.payload for f in frames if f.opcode == R.PONG]
    if pos != len(conn.sent) - obs["req_len"] or pongs != obs["pings"] or any(f.opcode != R.PONG for f in frames):
        issues.append(("pongs-damaged", f"pings {obs['pings']!r} answered by {[(f.opcode, f.payload) for f in frames]!r} (+{len(conn.sent) - obs['req_len'] - pos} stray bytes)", {}))
    split = tuple(len(obs["got"].get(t, [])) for t in sorted(obs["got"]))
    case = {"scenario": tag, "decisions": list(S.decisions)[:400], "n_decisions": len(S.decisions)}
    return issues, case, split


# ---------------------------------------------------------------------------


def explore(res, scen_factory, judge, tag, mode, budget, seed, kind, p_switch=0.3):
    """mode: 'dfs' | 'random' | 'sweep'"""
    from ..core import h64
    outcomes = set()

    def run_with(strategy):
        S = sched.Sched(strategy=strategy, horizon=3600, watchdog=60)
        try:
            obs = S.run(scen_factory())
        except sched.SimFailure as e:
            res.case((tag, tuple(S.decisions)), nontrivial=True)
            if isinstance(e, sched.WatchdogExpired):
                res.inconc(f"{tag}: watchdog")
            else:
                res.violation("deadlock" if isinstance(e, sched.Deadlock) else "not-terminated", f"{tag}: {e}",
                              {"scenario": tag, "decisions": list(S.decisions)[:400]}, scenario=tag[0])
            return S, None
        out = judge(obs, S)
        return S, out

    def account(S, out):
        res.count(kind)
        res.count("scheduling_points_passed", S.n_points)
        res.count("actor_switches", S.switches)
        res.count("scheduler_decisions", len(S.decisions))
        if out is None:
            return
        issues, case, outcome, nontrivial = out
        res.case((tag, tuple(S.decisions)), nontrivial=nontrivial and S.switches > 0)
        outcomes.add(outcome)
        if nontrivial:
            res.count("schedules_with_mid_frame_switch")
        for k, detail, fields in issues:
            res.violation(k, f"{tag}: {detail}", case, scenario=tag[0], **fields)
        if nontrivial:
            res.sample({"scenario": tag, "decisions": list(S.decisions)[:60], "outcome": outcome}, cap=3)

    n = 0
    if mode in ("dfs", "dfs2"):
        prefix = []
        while prefix is not None and n < budget:
            st = sched.DFSStrategy(prefix, max_preempt=2 if mode == "dfs2" else None)
            S, out = run_with(st)
            account(S, out)
            n += 1
            prefix = sched.dfs_next_prefix(st.trace)
        res.notes[f"dfs_complete:{tag}"] = prefix is None
        res.count("dfs_schedules", n)
    elif mode == "random":
        for i in range(budget):
            st = sched.RandomStrategy((seed << 20) ^ i, p_switch=p_switch, line_p=0.03)
            S, out = run_with(st)
            account(S, out)
            n += 1
    elif mode == "sweep2":
        # pairs of forced preemptions at random places (any actor, any armed scheduling point)
        S0, out0 = run_with(sched.NonPreemptive())
        account(S0, out0)
        pts = [(a.name, k) for a in S0.actors if a.name != "main" for k in range(1, a.points + 1)]
        rr = random.Random(seed)
        for i in range(budget):
            if len(pts) < 2:
                break
            st = sched.Preemptions(rr.sample(pts, 2 if i % 3 else 3))
            S, out = run_with(st)
            account(S, out)
            n += 1
        res.count("sweep2_runs", n)
    else:  # one-preemption sweep over every scheduling point of every actor
        S0, out0 = run_with(sched.NonPreemptive())
        account(S0, out0)
        victims = [a.name for a in S0.actors if a.name != "main"]
        points = {a.name: a.points for a in S0.actors}
        for v in victims:
            step = max(1, points[v] // budget)
            for k in range(1, points[v] + 1, step):
                st = sched.OnePreemption(v, k)
                S, out = run_with(st)
                account(S, out)
                n += 1
        res.count("sweep_runs", n)
    res.notes[f"distinct_outcomes:{tag}"] = len(outcomes)
    res.count("distinct_outcomes_sum", len(outcomes))
    return n


def run(res, tier, seed, shard, nshards):
    W = H.ws()
    rng = random.Random((seed << 8) ^ shard ^ 0xC12)
    shim.install()
    sched.install_line_monitor(shim.PREFIX)
    quick = tier == "quick"
    # shards: 0-3 short writes; 4.. thread scenarios
    jobs = []
    for i in range(4):
        jobs.append(("sw", i))
    # senders
    jobs.append(("S", 2, 1, 3, "dfs", 4000 if quick else 20000, False))
    jobs.append(("S", 2, 2, 3, "dfs", 1500 if quick else 20000, False))
    jobs.append(("S", 3, 1, 4, "dfs", 1500 if quick else 20000, False))
    for nt, nf in ((2, 2), (3, 2), (4, 1), (4, 3)):
        jobs.append(("S", nt, nf, 3, "random", 300 if quick else 6000, False))
        jobs.append(("S", nt, nf, 5, "random-line", 100 if quick else 2500, False))
    jobs.append(("S", 2, 1, 3, "sweep-line", 400 if quick else 100000, False))
    jobs.append(("S", 2, 1, 2, "sweep2-line", 300 if quick else 20000, False))
    jobs.append(("S", 3, 2, 3, "sweep2-line", 300 if quick else 20000, True))
    jobs.append(("S", 2, 2, 4, "sweep-line", 300 if quick else 100000, True))
    jobs.append(("S", 2, 2, 3, "random", 300 if quick else 5000, True))
    # sender threads that the threading module does not know about (started through _thread / by a C extension / by an embedding host)
    jobs.append(("SF", 2, 2, 3, "dfs", 1500 if quick else 20000))
    jobs.append(("SF", 3, 2, 4, "random", 300 if quick else 5000))
    # one sender fragments its messages itself (two send_frame() calls per message)
    jobs.append(("SFR", 2, 2, 3, "dfs", 1500 if quick else 20000))
    jobs.append(("SFR", 3, 2, 5, "random", 300 if quick else 5000))
    jobs.append(("SFR", 2, 1, 2, "sweep-line", 400 if quick else 100000))
    # a connection that has already carried 4094 / 4095 / 8190 frames (per-connection state that is refilled every N frames)
    for aged in ((4094, 4095) if quick else (4094, 4095, 8190, 8191, 16382)):
        jobs.append(("SAG", 2, 1, 100, "sweep-line", 250 if quick else 100000, aged))
    # slow transport: each write takes 0.05 s, the socket timeout (0.2 s) is shorter than a frame takes
    jobs.append(("SLOW", 3, 2, 4, "random", 200 if quick else 4000))
    jobs.append(("SLOW", 3, 1, 4, "dfs", 400 if quick else 10000))
    # receivers
    for nt in (2, 3, 4):
        jobs.append(("R", nt, "random", 250 if quick else 5000))
        jobs.append(("R", nt, "random-line", 100 if quick else 2500))
    jobs.append(("R", 2, "sweep-line", 300 if quick else 100000))
    # recv_frame() callers: the frame buffer's own lock has to keep each frame whole
    jobs.append(("RF", 2, "random", 250 if quick else 5000))
    jobs.append(("RF", 3, "random-line", 100 if quick else 2500))
    jobs.append(("RF", 2, "dfs", 600 if quick else 20000))
    jobs.append(("R", 3, "sweep2-line", 300 if quick else 20000))
    # one consumer iterates over the connection (`for message in ws`), the others call recv() / next()
    jobs.append(("RI", 2, "sweep-line", 300 if quick else 100000))
    jobs.append(("RI", 3, "random-line", 100 if quick else 2500))
    jobs.append(("RI", 2, "random", 150 if quick else 5000))
    # every sending thread has had a send of its own fail (nothing written) before the race starts
    jobs.append(("SPF", 2, 2, 5, "random", 200 if quick else 5000))
    jobs.append(("SPF", 3, 2, 3, "random-line", 100 if quick else 2500))
    jobs.append(("SPF", 2, 1, 4, "dfs", 400 if quick else 20000))
    # a thread sending pongs of its own while the reader answers pings
    jobs.append(("PG", "sweep-line", 100000))
    jobs.append(("PG", "sweep2-line", 300 if quick else 20000))
    jobs.append(("PG", "random-line", 150 if quick else 5000))
    # every single line of a short run as the one preemption point (messages of alternating kind)
    jobs.append(("RM", 2, "sweep-line", 100000))
    jobs.append(("RM", 3, "sweep2-line", 300 if quick else 20000))
    jobs.append(("RF", 2, "sweep2-line", 300 if quick else 20000))
    for size, piece, delay, close_to, close_at in [(32768, 512, 0.02, 0.3, 0.1), (4000, 100, 0.05, 0.2, 0.33), (70000, 1000, 0.01, 0, 0.05), (2000, 7, 0.01, 0.5, 0.5),
                                                   (32768, 512, 0.02, 3, 0.1), (300, 3, 0.05, 0.1, 1.0)]:
        jobs.append(("CDS", size, piece, delay, close_to, close_at))
    if shard == 3 % nshards:
        real_tcp_big_senders(res, W)
    for ji, job in enumerate(jobs):
        if ji % nshards != shard:
            continue
        if job[0] == "CDS":
            close_during_send_case(res, W, *job[1:])
            continue
        if job[0] == "sw":
            short_write_cases(res, W, rng, tier, job[1], 4)
        elif job[0] == "S":
            _, nt, nf, piece, mode, budget, with_recv = job
            line = mode.endswith("-line")
            m = mode.replace("-line", "")
            tag = ("senders", nt, nf, piece, mode, with_recv)
            explore(res, lambda: sender_scenario(W, nt, nf, piece, line, with_recv),
                    lambda obs, S: _js(res, obs, S, nt, nf, tag, with_recv), tag, m, budget, seed * 1000 + ji, "sender_schedules")
        elif job[0] == "SFR":
            _, nt, nf, piece, mode, budget = job
            line = mode.endswith("-line")
            tag = ("senders-one-fragmenting", nt, nf, piece, mode)
            explore(res, lambda: sender_scenario(W, nt, nf, piece, line, False, fragmenting=True),
                    lambda obs, S: judge_senders(res, obs, S, nt, nf, tag, False, fragmenting=True), tag, mode.replace("-line", ""), budget, seed * 1000 + ji, "sender_schedules")
        elif job[0] == "SAG":
            _, nt, nf, piece, mode, budget, aged = job
            tag = ("senders-aged-connection", nt, nf, aged, mode)
            explore(res, lambda: sender_scenario(W, nt, nf, piece, True, False, aged=aged),
                    lambda obs, S: _js(res, obs, S, nt, nf, tag, False), tag, mode.replace("-line", ""), budget, seed * 1000 + ji, "sender_schedules")
        elif job[0] == "SPF":
            _, nt, nf, piece, mode, budget = job
            tag = ("senders-after-a-failed-send", nt, nf, piece, mode)
            explore(res, lambda: sender_scenario(W, nt, nf, piece, mode.endswith("-line"), False, prefail=True),
                    lambda obs, S: _js(res, obs, S, nt, nf, tag, False), tag, mode.replace("-line", ""), budget, seed * 1000 + ji, "sender_schedules")
        elif job[0] == "RI":
            _, nt, mode, budget = job
            line = mode.endswith("-line")
            m = mode.replace("-line", "")
            tag = ("receivers-one-iterating", nt, mode)
            srng = random.Random(seed * 7919 + ji)
            fixed = build_recv_stream(random.Random(seed * 31 + ji))
            explore(res, lambda: receiver_scenario(W, nt, (lambda: fixed) if m != "random" else (lambda: build_recv_stream(srng)), line, random.Random(ji), api="iter-and-recv"),
                    lambda obs, S: _jr(res, obs, S, tag), tag, m, budget, seed * 1000 + ji, "receiver_schedules")
        elif job[0] == "SF":
            _, nt, nf, piece, mode, budget = job
            tag = ("senders-foreign-threads", nt, nf, piece, mode)
            explore(res, lambda: sender_scenario(W, nt, nf, piece, False, False, foreign=True),
                    lambda obs, S: _js(res, obs, S, nt, nf, tag, False), tag, mode, budget, seed * 1000 + ji, "sender_schedules")
        elif job[0] == "SLOW":
            _, nt, nf, piece, mode, budget = job
            tag = ("senders-slow-transport", nt, nf, piece, mode)
            explore(res, lambda: sender_scenario(W, nt, nf, piece, False, False, slow=(0.05, 0.2)),
                    lambda obs, S: _js(res, obs, S, nt, nf, tag, False), tag, mode, budget, seed * 1000 + ji, "sender_schedules")
        elif job[0] == "PG":
            _, mode, budget = job
            tag = ("reader-and-ponger", mode)
            explore(res, lambda: ponger_scenario(W, True), lambda obs, S: judge_ponger(res, obs, S, tag), tag, mode.replace("-line", ""), budget, seed * 1000 + ji,
                    "sender_schedules")
        elif job[0] == "RM":
            _, nt, mode, budget = job
            tag = ("receivers-mixed-kinds", nt, mode)
            fixed = build_mixed_small(None)
            explore(res, lambda: receiver_scenario(W, nt, lambda: fixed, True, random.Random(ji), whole=True),
                    lambda obs, S: _jr(res, obs, S, tag), tag, mode.replace("-line", ""), budget, seed * 1000 + ji, "receiver_schedules")
        elif job[0] == "RF":
            _, nt, mode, budget = job
            line = mode.endswith("-line")
            m = mode.replace("-line", "")
            tag = ("frame-receivers", nt, mode)
            srng = random.Random(seed * 7919 + ji)
            fixed = build_frame_stream(random.Random(seed * 31 + ji))
            explore(res, lambda: receiver_scenario(W, nt, (lambda: fixed) if m != "random" else (lambda: build_frame_stream(srng)), line, random.Random(ji), api="recv_frame"),
                    lambda obs, S: _jr(res, obs, S, tag), tag, m, budget, seed * 1000 + ji, "receiver_schedules")
        else:
            _, nt, mode, budget = job
            line = mode.endswith("-line")
            m = mode.replace("-line", "")
            tag = ("receivers", nt, mode)
            srng = random.Random(seed * 7919 + ji)
            fixed = build_recv_stream(random.Random(seed * 31 + ji))
            explore(res, lambda: receiver_scenario(W, nt, (lambda: fixed) if m != "random" else (lambda: build_recv_stream(srng)), line, random.Random(ji)),
                    lambda obs, S: _jr(res, obs, S, tag), tag, m, budget, seed * 1000 + ji, "receiver_schedules")


def _js(res, obs, S, nt, nf, tag, with_recv):
    issues, case, order, mid = judge_senders(res, obs, S, nt, nf, tag, with_recv)
    return issues, case, order, mid


def _jr(res, obs, S, tag):
    issues, case, split = judge_receivers(res, obs, S, tag)
    # non-trivial when more than one receiver obtained something or a switch happened inside a message
    nontrivial = sum(1 for x in split if x) >= 2 or S.switches > 2
    return issues, case, split, nontrivial
