"""C13 - WebSocketApp delivers every event to its callback exactly once, in
order, as soon as its bytes have arrived."""
from __future__ import annotations

import itertools
import random

from .. import appsim
from .. import harness as H
from ..ref import rfc6455 as R
from ..sim import sched, shim

SHARDS = {"quick": 16, "thorough": 16}
META = {
    "level": "exploration",
    "technique": "runtime monitoring in virtual time: the callbacks record (virtual time, name, arguments); an acceptor derived from the server's frame log (arrival time of each frame's last byte) predicts the exact callback sequence and times; zero processing time makes any wait for further traffic or a select timeout visible as a positive delay",
    "claim": "For all server traffic histories up to length 3 (quick, plus sampled length 4) / 5 (thorough) over text, binary, 2- and 3-fragment messages, ping and pong, delivered one segment per frame, as one burst in a single segment followed by 50 s of silence, as two segments cut inside the first payload, and byte-wise, over plain (Dispatcher) and TLS (SSLDispatcher, burst = one TLS record) transports, with sampled (quick) / all (thorough, per history class) subsets of callbacks set and each callback raising in turn: on_open fired once and first, every message reached on_data (with its type) and on_message exactly once in order with str/bytes, every ping/pong reached on_ping/on_pong with its payload, each at the virtual time its last byte arrived, and a raising callback was reported to on_error without stopping later events.",
    "trusted": "virtual clock; simulated TLS socket models record buffering (pending() data invisible to the selector); acceptor in this file",
    "rule": "case = (history, segmentation, transport, callback subset, raising callback); distinct by that tuple; non-trivial when the history has >= 2 events or is delivered as a burst/byte-wise",
    "exhaustive": {"quick": False, "thorough": False},
    "exhaustive_space": {"quick": "all histories of length <= 3 over 6 event kinds x 3 segmentations x 2 transports (callback subsets sampled)",
                         "thorough": "all histories of length <= 5 x 3 segmentations x 2 transports; all 2^7 callback subsets on a fixed rich history"},
    "bounds": "on_cont_message mode: callback names, payloads, the continuation's final flag and arrival times are judged; text is cut on code-point boundaries there",
    "required_counters": ["callbacks_checked", "timing_checked", "tls_runs", "burst_runs"],
    "assumptions": [],
}
META["claim"] += " " + 'Also: two segments cut one byte before the end of a large first message (read-ahead would swallow the followers); exact argument types; the documented on_cont_message mode over all histories of length <= 3; slow legal traffic through an HTTP CONNECT proxy configured with a short http_proxy_timeout.'
META["claim"] += " " + "Round 4: a re-established connection (reconnect=1) after a loss at a frame boundary, inside a frame, inside the header, inside a fragmented message (also behind a ping): on_reconnect / on_open once and first, then the new connection's history exactly."
META["claim"] += " " + 'Round 5: callbacks installed as constructor arguments, as attributes after construction, or from inside on_open; a third of the runs with an idle keepalive configured (ping_interval=5000).'
META["claim"] += " " + 'Rounds 6-7: exception types x kinds of callable; all runs under the app-level ambient conditions (TLS, callback installation mode, trace, descriptor base, bytearray transport, kernel receive timeout); runs with validation off.'
META["claim"] += " " + 'Round 8: one callable serving as on_error and as the failing callback; a callback that calls close() and then raises.'

KINDS = ["text", "binary", "frag2", "frag3", "ping", "pong"]
CBS = ["on_open", "on_message", "on_data", "on_error", "on_ping", "on_pong", "on_close"]


def build_history(hist, rng):
    """-> list of event dicts: {kind, frames:[bytes], expect:(...)}"""
    evs = []
    for i, k in enumerate(hist):
        tagb = b"%d" % i
        if k == "text":
            s = f"t{i}é€"
            evs.append(dict(kind=k, frames=[R.encode(R.TEXT, s.encode())], msg=(R.TEXT, s)))
        elif k == "binary":
            b = b"B" + tagb + b"\x00\xff"
            evs.append(dict(kind=k, frames=[R.encode(R.BINARY, b)], msg=(R.BINARY, b)))
        elif k == "frag2":
            s = f"f{i}-aé|b€"
            raw = s.encode()
            cut = raw.index(b"|") - 1  # inside "é"
            evs.append(dict(kind=k, frames=[R.encode(R.TEXT, raw[:cut], fin=0), R.encode(R.CONT, raw[cut:])], msg=(R.TEXT, s)))
        elif k == "frag3":
            b = b"F" + tagb + b"-123456"
            evs.append(dict(kind=k, frames=[R.encode(R.BINARY, b[:3], fin=0), R.encode(R.CONT, b"", fin=0), R.encode(R.CONT, b[3:])], msg=(R.BINARY, b)))
        elif k == "ping":
            evs.append(dict(kind=k, frames=[R.encode(R.PING, b"pi" + tagb)], ctl=("on_ping", b"pi" + tagb)))
        else:
            evs.append(dict(kind=k, frames=[R.encode(R.PONG, b"po" + tagb)], ctl=("on_pong", b"po" + tagb)))
    return evs


def make_script(evs, seg):
    """-> (script, arrival time per event)"""
    script = []
    times = []
    if seg in ("per-frame", "slow-per-frame"):
        gap = 0.25 if seg == "per-frame" else 1.5
        t = 1.0
        for ev in evs:
            ft = t
            for fr in ev["frames"]:
                script.append((ft, "frames", fr))
                last = ft
                ft += gap
            times.append(last)
            t = last + 1.0 if seg == "per-frame" else last + 2.5
        end = t + 1.0
    elif seg == "burst":
        data = b"".join(fr for ev in evs for fr in ev["frames"])
        script.append((1.0, "frames", data))
        times = [1.0] * len(evs)
        end = 51.0
    elif seg == "cut-in-payload":
        # a large first message is put in front; segment 1 ends one byte before the end of its payload, segment 2 carries
        # that last byte and every following (small) frame: a reader that asks the transport for more than the frame still
        # needs takes the followers with it, and a select()-driven loop is then never woken for them
        big = "L" * 400
        evs.insert(0, dict(kind="text", frames=[R.encode(R.TEXT, big.encode())], msg=(R.TEXT, big)))
        data = b"".join(fr for ev in evs for fr in ev["frames"])
        first = evs[0]["frames"][0]
        cut = len(first) - 1
        script.append((1.0, "segments", [data[:cut], data[cut:]]))
        times = [1.0] * len(evs)
        end = 51.0
    else:
        data = b"".join(fr for ev in evs for fr in ev["frames"])
        script.append((1.0, "frames", data, list(range(1, len(data)))))
        times = [1.0] * len(evs)
        end = 51.0
    script.append((end, "close", b"\x03\xe8"))
    return script, times, end


def expected_trace(evs, times, enabled, raising):
    exp = []

    def emit(t, name, args):
        if name not in enabled:
            return
        exp.append((t, name, args))
        if name in raising and "on_error" in enabled and name != "on_error":
            exp.append((t, "on_error", "raised-by:" + name))

    emit(0.0, "on_open", ())
    for ev, t in zip(evs, times):
        if "msg" in ev:
            op, data = ev["msg"]
            emit(t, "on_data", (data, op, True))
            emit(t, "on_message", (data,))
        else:
            name, payload = ev["ctl"]
            emit(t, name, (payload,))
    return exp


def run(res, tier, seed, shard, nshards):
    W = H.ws()
    shim.install()
    H.scrub_env()
    rng = random.Random((seed << 8) ^ shard ^ 0xC13)
    quick = tier == "quick"
    hists = [h for n in range(1, (3 if quick else 5) + 1) for h in itertools.product(KINDS, repeat=n)]
    if quick:
        hists += [tuple(rng.choice(KINDS) for _ in range(4)) for _ in range(200)]
    hists += [tuple(random.Random(i).choice(KINDS) for _ in range(random.Random(i).randrange(5, 10))) for i in range(40 if quick else 400)]
    jobs = []
    for hi, h in enumerate(hists):
        for seg in ("per-frame", "burst", "bytewise", "cut-in-payload"):
            for tls in (False, True):
                jobs.append((h, seg, tls, None, None))
    # callback subsets on a fixed rich history
    rich = ("text", "ping", "frag2", "pong", "binary", "frag3")
    subsets = []
    for r in range(0, len(CBS) + 1):
        for sub in itertools.combinations(CBS, r):
            subsets.append(sub)
    if quick:
        subsets = subsets[::5]
    for sub in subsets:
        jobs.append((rich, "burst", bool(len(sub) % 2), sub, None))
    # raising callbacks
    for name in ("on_open", "on_message", "on_data", "on_ping", "on_pong"):
        for seg in ("per-frame", "burst"):
            for tls in (False, True):
                jobs.append((rich, seg, tls, None, name))
        # every exception type x every kind of callable
        for ei in range(6):
            for ck in range(4):
                if quick and (ei + ck + len(name)) % 2:
                    continue
                jobs.append((rich, "per-frame" if (ei + ck) % 2 else "burst", bool(ck % 2), None, (name, ei, ck)))
    # through an HTTP CONNECT proxy, with a short http_proxy_timeout and gaps between frames/fragments longer than it
    for hi, h in enumerate([h for n in range(1, 3) for h in itertools.product(KINDS, repeat=n)]):
        if quick and hi % 3:
            continue
        jobs.append((h, "slow-per-frame", False, "VIA-PROXY", None))
    # documented per-fragment mode (on_cont_message given)
    cont_hists = [h for n in range(1, 4) for h in itertools.product(["text", "binary", "frag2", "frag3", "ping"], repeat=n)]
    for hi, h in enumerate(cont_hists):
        for seg in ("per-frame", "burst"):
            for tls in (False, True):
                if quick and (hi + tls) % 3:
                    continue
                jobs.append((h, seg, tls, "CONT-MODE", None))
    # a re-established connection (run_forever(reconnect=...)): on_reconnect (on_open when it is not given) once and first, then
    # every message of the new connection exactly once and in order - whatever state the lost connection was in when it went
    for li, loss in enumerate(("eof", "reset", "eof-mid-frame", "eof-mid-message", "eof-mid-message-after-ping", "eof-in-header")):
        for with_rc in (True, False):
            for tls in (False, True):
                for h in (("text", "binary", "ping"), ("frag2", "text"), ("binary", "frag3", "pong", "text")):
                    if quick and (li + with_rc + tls + len(h)) % 2:
                        continue
                    jobs.append((h, loss, tls, "RECONNECT", with_rc))
    # validation switched off (run_forever(skip_utf8_validation=True)): the same events in the same order with the same types reported
    # to on_data (whether text is then handed over as str or as the raw bytes is left open)
    for hi, h in enumerate([h for n in range(1, 4) for h in itertools.product(["text", "binary", "frag2", "frag3", "ping"], repeat=n)]):
        if quick and hi % 2:
            continue
        jobs.append((h, "per-frame" if hi % 3 else "burst", bool(hi % 2), "SKIP-UTF8", None))
    for k in range(8):
        jobs.append((("text", "text", "binary"), "per-frame" if k % 2 else "burst", bool(k & 2), "SHARED-OR-CLOSING", k))
    amb = H.ambient((seed, shard, "C13"), res, dims=("app",))
    amb.__enter__()
    try:
        _run_jobs(res, W, rng, seed, shard, nshards, jobs)
    finally:
        amb.__exit__(None, None, None)


def _run_jobs(res, W, rng, seed, shard, nshards, jobs):
    for ji, (h, seg, tls, sub, raising) in enumerate(jobs):
        if ji % nshards != shard:
            continue
        if sub == "SHARED-OR-CLOSING":
            special_reporting_case(res, W, rng, seg, tls, raising)
            continue
        if sub == "SKIP-UTF8":
            one(res, W, rng, h, seg, tls, set(CBS), None, skip_utf8=True)
            continue
        if sub == "RECONNECT":
            reconnect_case(res, W, rng, h, seg, tls, raising)
            continue
        if sub == "VIA-PROXY":
            one(res, W, rng, h, seg, tls, set(CBS), None, via_proxy=True)
            continue
        if sub == "CONT-MODE":
            cont_mode_case(res, W, rng, h, seg, tls)
            continue
        if sub is None:
            # random subset of callbacks for breadth (always includes enough to observe something)
            r = random.Random((seed, ji).__hash__())
            enabled = set(CBS) if r.random() < 0.5 else {c for c in CBS if r.random() < 0.7}
        else:
            enabled = set(sub)
        one(res, W, rng, h, seg, tls, enabled, raising)


def one(res, W, rng, hist, seg, tls, enabled, raising_name, via_proxy=False, skip_utf8=False):
    forced = None
    if isinstance(raising_name, tuple):
        raising_name, fe, fk = raising_name
        forced = (fe, fk)
    evs = build_history(hist, rng)
    script, times, end = make_script(evs, seg)
    plan = [dict(outcome="ok", script=script)]
    # what the failing callback raises: an ordinary error, or one of the exception types the library itself uses for its own purposes
    # (a handler that forwards to another, closed, WebSocket raises exactly those)
    EXC = [lambda: ValueError("user callback failed"), lambda: W.WebSocketConnectionClosedException("user callback failed"),
           lambda: W.WebSocketTimeoutException("user callback failed"), lambda: OSError(32, "user callback failed"), lambda: KeyError("user callback failed"),
           lambda: W.WebSocketProtocolException("user callback failed")]
    hs0 = len(hist) + sum(map(len, hist)) + len(seg) + int(tls)
    raising = {raising_name: EXC[(forced[0] if forced else hs0) % len(EXC)]} if raising_name else {}
    callable_kind = ["function", "partial", "instance", "bound-method"][(forced[1] if forced else hs0) % 4] if (raising_name or hs0 % 5 == 0) else "function"
    res.count("callables:" + callable_kind)
    out = {}
    # how the application installs its callbacks (constructor, attributes before the run, attributes from inside on_open) and whether a
    # keepalive is configured (interval far beyond the scenario: no ping is ever due) make no difference to what is delivered
    hsh = (len(hist) * 7 + sum(map(len, hist)) + len(seg) + int(tls) + len(enabled)) % 10
    assign = "ctor" if hsh < 5 or raising_name == "on_open" else "after-init" if hsh < 8 else "in-on_open"
    extra_kw = {"ping_interval": 5000, "ping_payload": "keepalive"} if hsh % 3 == 1 and not via_proxy else {}
    res.count("callbacks_assigned:" + assign)
    if extra_kw:
        res.count("runs_with_idle_keepalive_configured")

    def scen():
        H.reset_process_state()
        run = appsim.AppRun(plan, url="wss://app.test/" if tls else "ws://app.test/", callbacks=enabled, raising=raising, via_proxy=via_proxy, assign=assign, callable_kind=callable_kind)
        out["run"] = run
        if via_proxy:
            run.run_forever(http_proxy_host="proxy.test", http_proxy_port=3128, http_proxy_timeout=0.4)
        elif skip_utf8:
            run.run_forever(skip_utf8_validation=True, **extra_kw)
        else:
            run.run_forever(sslopt={"cert_reqs": 0} if tls and rng.random() < 0.5 else None, **extra_kw)
        return run

    S = sched.Sched(horizon=300, watchdog=60)
    failure = None
    try:
        S.run(scen)
    except sched.SimFailure as e:
        failure = e
    run = out.get("run")
    case = {"history": hist, "segmentation": seg, "tls": tls, "callbacks": sorted(enabled), "raising": raising_name, "via_proxy": via_proxy, "assign": assign,
            "run_kwargs": extra_kw}
    res.case((hist, seg, tls, tuple(sorted(enabled)), raising_name, via_proxy, assign, bool(extra_kw)), nontrivial=len(hist) >= 2 or seg != "per-frame")
    if via_proxy:
        res.count("via_proxy_runs")
        # (an ambient draw may have turned the connection into a TLS one: the tunnel then goes to port 443)
        if run is not None and run.connect_requests != [f"CONNECT app.test:{443 if run.url.startswith('wss') else 80} HTTP/1.1"]:
            res.violation("proxy-not-used", f"CONNECT requests seen: {run.connect_requests}", case, segmentation=seg, tls=tls)
    res.count("tls_runs" if tls else "plain_runs")
    if seg in ("burst", "cut-in-payload"):
        res.count("burst_runs")

    def bad(kind, detail, **kw):
        res.violation(kind, f"{hist} seg={seg} tls={tls} cbs={sorted(enabled)} raising={raising_name}: {detail}", case, segmentation=seg, tls=tls, **kw)

    if failure is not None or run is None:
        if isinstance(failure, sched.WatchdogExpired):
            res.inconc("watchdog")
        else:
            bad("no-return", f"{type(failure).__name__}: {failure}")
        return
    if tls and not (run.network.conns and run.network.conns[0].tls):
        bad("tls-not-used", "wss:// connection was not wrapped")
        return
    if tls:
        # which dispatcher served this run is observable through pending() use; record only
        res.count("tls_wrapped")
    obs = [(t, n, a) for (t, n, a, ci, ac) in run.trace if n != "on_close"]
    exp = expected_trace(evs, times, enabled, raising)
    # normalise on_error args
    norm = []
    for t, n, a in obs:
        if n == "on_error":
            norm.append((t, n, "error:" + type(a[0]).__name__ + ":" + str(a[0])[:40]))
        else:
            norm.append((t, n, tuple(a)))
    if skip_utf8:
        res.count("runs_with_validation_off")
        b = lambda x: x.encode("utf-8") if isinstance(x, str) else x  # noqa
        exp = [(t, n, tuple(b(x) for x in a) if isinstance(a, tuple) else a) for t, n, a in exp]
        norm = [(t, n, tuple(b(x) for x in a) if isinstance(a, tuple) else a) for t, n, a in norm]
    # compare sequences
    i = j = 0
    ok = True
    while i < len(exp) or j < len(norm):
        e = exp[i] if i < len(exp) else None
        o = norm[j] if j < len(norm) else None
        if e is None:
            bad("unexpected-callback", f"extra callback {o!r} after the expected trace", callback=o[1])
            ok = False
            break
        if o is None:
            bad("missing-callback", f"expected {e!r}, trace ended ({len(norm)} callbacks)", callback=e[1], event_kind=_kind_of(e, evs))
            ok = False
            break
        et, en, ea = e
        ot, on, oa = o
        if en != on:
            bad("callback-order", f"position {j}: expected {en}{ea!r}, got {on}{oa!r}", callback=en, got=on)
            ok = False
            break
        if en == "on_error":
            if not (isinstance(oa, str) and "user callback failed" in oa):
                bad("on_error-argument", f"expected the exception raised by the user callback, got {oa!r}")
                ok = False
                break
        elif ea == oa and any(type(x) is not type(y) for x, y in zip(ea, oa)):
            bad("callback-arguments", f"{en}: argument types {[type(y).__name__ for y in oa]}, expected {[type(x).__name__ for x in ea]} (text as str, binary as bytes)",
                callback=en, what="argument-type", fragmented=("frag" in "".join(hist)))
            ok = False
            break
        elif ea != oa:
            what = "data-type" if en == "on_data" and len(ea) == 3 and len(oa) == 3 and ea[0] == oa[0] and ea[1] != oa[1] else "arguments"
            bad("callback-arguments", f"{en}: expected {ea!r}, got {oa!r}", callback=en, what=what, fragmented=("frag" in "".join(hist)))
            ok = False
            break
        res.count("callbacks_checked")
        if abs(ot - et) > 1e-9:
            bad("callback-late", f"{en}{ea!r}: bytes arrived at t={et}, callback at t={ot} (delay {ot - et:.3f}s)", callback=en, delay_class=("select-timeout" if ot - et >= 9 else "other"))
            ok = False
            break
        res.count("timing_checked")
        i += 1
        j += 1
    if ok and run.servers:
        # (C07 through the application) every ping was answered by exactly one pong with the same payload, in order
        want = [ev["ctl"][1] for ev in evs if "ctl" in ev and ev["ctl"][0] == "on_ping"]
        pongs = [f.payload for (t, f) in run.servers[0].client_frames if f.opcode == R.PONG]
        res.count("app_pongs_checked", len(want))
        if pongs != want:
            bad("app-pongs", f"pings {want!r} answered by pongs {pongs!r}", callback="on_ping")
            ok = False
    if ok:
        res.sample(case, cap=3)


def special_reporting_case(res, W, rng, seg, tls, k):
    """An exception raised by a callback reaches on_error also when (a) one and the same callable serves as on_error and as the callback
    that fails, (b) the failing callback has just called close() itself, (c) another thread calls close() while the callback is busy."""
    variant = ["shared-callable", "close-then-raise", "shared-callable-on_data", "close-then-raise-in-on_data"][k % 4]
    msgs = ["one", "bad", "three"]
    frames = [R.encode(R.TEXT, m.encode()) for m in msgs]
    script = [(1.0 + 0.5 * i, "frames", fr) for i, fr in enumerate(frames)] if seg == "per-frame" else [(1.0, "frames", b"".join(frames))]
    script.append((9.0, "close", b"\x03\xe8"))
    log = []
    role = "on_data" if variant.endswith("on_data") else "on_message"

    def shared(app, *args):
        log.append(args)
        if args and args[0] == "bad":
            if variant.startswith("close-then-raise"):
                app.close()
            raise ValueError("user callback failed")
    out = {}

    def scen():
        H.reset_process_state()
        kw = {role: shared}
        if variant.startswith("shared-callable"):
            kw["on_error"] = shared
            cbs = ["on_open", "on_close"]
        else:
            cbs = ["on_open", "on_close", "on_error"]
        run = appsim.AppRun([dict(outcome="ok", script=script)], url="wss://app.test/" if tls else "ws://app.test/", callbacks=cbs, app_kwargs=kw)
        out["run"] = run
        run.run_forever()
        return run
    S = sched.Sched(horizon=300, watchdog=60)
    try:
        S.run(scen)
    except sched.SimFailure as e:
        res.inconc("watchdog") if isinstance(e, sched.WatchdogExpired) else res.violation("no-return", f"{variant}: {type(e).__name__}: {e}", {"variant": variant})
        return
    run = out["run"]
    case = {"gen": "special-reporting", "variant": variant, "segmentation": seg, "tls": tls}
    res.case(("special-reporting", variant, seg, tls), nontrivial=True)
    res.count("special_reporting_cases")
    if variant.startswith("shared-callable"):
        reported = [a for a in log if a and isinstance(a[0], ValueError)]
    else:
        reported = [a for (t, n, a, ci, ac) in run.trace if n == "on_error" and a and isinstance(a[0], ValueError)]
    if len(reported) != 1:
        res.violation("missing-callback" if not reported else "unexpected-callback",
                      f"{variant} ({role}): the exception raised while serving 'bad' was reported to on_error {len(reported)} times; the callable saw "
                      f"{[(type(a[0]).__name__ if a and isinstance(a[0], Exception) else a[:1]) for a in log]}", case, segmentation=seg, tls=tls, callback="on_error", event_kind="raised-by:" + role)
    elif variant.startswith("shared-callable"):
        seen = [a[0] for a in log if a and isinstance(a[0], str)]
        if seen != msgs:
            res.violation("missing-callback", f"{variant}: messages delivered {seen}, sent {msgs}", case, segmentation=seg, tls=tls, callback=role, event_kind="text")


def reconnect_case(res, W, rng, hist, loss, tls, with_on_reconnect):
    # connection 1: one complete message, then the loss (possibly in the middle of a frame / of a fragmented message)
    first = "one-é"
    pre = R.encode(R.TEXT, first.encode())
    if loss == "eof-mid-frame":
        pre += R.encode(R.TEXT, b"never completed")[:9]
    elif loss == "eof-in-header":
        pre += R.encode(R.BINARY, b"x" * 300)[:3]
    elif loss == "eof-mid-message":
        pre += R.encode(R.TEXT, b"par", fin=0)
    elif loss == "eof-mid-message-after-ping":
        pre += R.encode(R.BINARY, b"par", fin=0) + R.encode(R.PING, b"mid")
    script1 = [(1.0, "frames", pre), (2.0, "reset" if loss == "reset" else "eof")]
    evs = build_history(hist, rng)
    script2, times, end = make_script(evs, "per-frame")
    plan = [dict(outcome="ok", script=script1), dict(outcome="ok", script=script2)]
    enabled = set(CBS) | ({"on_reconnect"} if with_on_reconnect else set())
    out = {}

    def scen():
        H.reset_process_state()
        run = appsim.AppRun(plan, url="wss://app.test/" if tls else "ws://app.test/", callbacks=enabled, last_repeats=False)
        out["run"] = run
        run.run_forever(reconnect=1)
        return run

    S = sched.Sched(horizon=300, watchdog=60)
    failure = None
    try:
        S.run(scen)
    except sched.SimFailure as e:
        failure = e
    run = out.get("run")
    case = {"gen": "reconnect", "history_on_second_connection": hist, "loss": loss, "tls": tls, "on_reconnect": with_on_reconnect}
    res.case(("reconnect", hist, loss, tls, with_on_reconnect), nontrivial=True)
    res.count("reconnect_runs")

    def bad(kind, detail, **kw):
        res.violation(kind, f"reconnect after {loss} (tls={tls}, on_reconnect {'given' if with_on_reconnect else 'not given'}), second connection {hist}: {detail}", case,
                      segmentation="reconnect", tls=tls, **kw)

    if failure is not None or run is None:
        if isinstance(failure, sched.WatchdogExpired):
            res.inconc("watchdog")
        else:
            bad("no-return", f"{type(failure).__name__}: {failure}")
        return
    if len(run.servers) != 2:
        bad("missing-callback", f"{len(run.servers)} connections were made, expected 2 (attempts {run.attempts})", callback="on_reconnect")
        return
    # callbacks attributed to the second connection: everything after the second connection was accepted
    t2 = run.attempts[1][0]
    second = [(t, n, a) for (t, n, a, ci, ac) in run.trace if t >= t2 and n not in ("on_close", "on_error")]
    opener = "on_reconnect" if with_on_reconnect else "on_open"
    exp = [(opener, ())]
    for ev in evs:
        if "msg" in ev:
            op, data = ev["msg"]
            exp += [("on_data", (data, op, True)), ("on_message", (data,))]
        else:
            exp.append((ev["ctl"][0], (ev["ctl"][1],)))
    got = [(n, tuple(a)) for (t, n, a) in second]
    if got != exp:
        k = next((i for i, (g, e) in enumerate(zip(got, exp)) if g != e), min(len(got), len(exp)))
        bad("callback-order" if k < len(got) and k < len(exp) else ("missing-callback" if k >= len(got) else "unexpected-callback"),
            f"callbacks of the re-established connection differ at position {k}: expected {exp[k] if k < len(exp) else None!r}, got {got[k] if k < len(got) else None!r}",
            callback=(exp[k][0] if k < len(exp) else got[k][0]))
        return
    if any(type(x) is not type(y) for (gn, ga), (en, ea) in zip(got, exp) for x, y in zip(ga, ea)):
        bad("callback-arguments", "argument types differ (text as str, binary as bytes)", callback="on_message", what="argument-type", fragmented=True)
        return
    res.count("callbacks_checked", len(got))
    # the first connection's complete message was delivered, its unfinished one never
    firsts = [a for (t, n, a, ci, ac) in run.trace if t < t2 and n == "on_message"]
    if firsts != [(first,)]:
        bad("callback-arguments", f"first connection delivered {firsts!r}, expected only the complete message", callback="on_message", what="arguments", fragmented=False)


def _kind_of(e, evs):
    return e[1]


def cont_mode_case(res, W, rng, hist, seg, tls):
    """on_cont_message given: the first fragment of a message goes to on_data/on_message, every continuation
    to on_data/on_cont_message (payload and final flag), in order, at arrival time.  Text is cut on code-point
    boundaries only (the mode decodes fragments individually)."""
    evs = []
    for i, k in enumerate(hist):
        if k == "text":
            evs.append(dict(frames=[R.encode(R.TEXT, f"t{i}é".encode())], parts=[(R.TEXT, f"t{i}é".encode(), 1)]))
        elif k == "binary":
            evs.append(dict(frames=[R.encode(R.BINARY, b"B%d\xff" % i)], parts=[(R.BINARY, b"B%d\xff" % i, 1)]))
        elif k == "frag2":
            a, b = f"f{i}-é".encode(), "€!".encode()
            evs.append(dict(frames=[R.encode(R.TEXT, a, fin=0), R.encode(R.CONT, b)], parts=[(R.TEXT, a, 0), (R.CONT, b, 1)]))
        elif k == "frag3":
            a, b, c = b"F%d" % i, b"", b"-xyz"
            evs.append(dict(frames=[R.encode(R.BINARY, a, fin=0), R.encode(R.CONT, b, fin=0), R.encode(R.CONT, c)],
                            parts=[(R.BINARY, a, 0), (R.CONT, b, 0), (R.CONT, c, 1)]))
        else:
            evs.append(dict(frames=[R.encode(R.PING, b"pi%d" % i)], ctl=("on_ping", b"pi%d" % i)))
    # arrival times per frame
    script, ftimes = [], []
    if seg == "per-frame":
        t = 1.0
        for ev in evs:
            for fr in ev["frames"]:
                script.append((t, "frames", fr))
                ftimes.append(t)
                t += 0.25
            t += 0.5
        end = t + 1
    else:
        data = b"".join(fr for ev in evs for fr in ev["frames"])
        script.append((1.0, "frames", data))
        ftimes = [1.0] * sum(len(ev["frames"]) for ev in evs)
        end = 40.0
    script.append((end, "close", b""))
    enabled = {"on_open", "on_message", "on_data", "on_cont_message", "on_ping", "on_error", "on_close"}
    out = {}

    def scen():
        H.reset_process_state()
        # half of the runs install the handlers as attributes after construction (on_cont_message included)
        run = appsim.AppRun([dict(outcome="ok", script=script)], url="wss://app.test/" if tls else "ws://app.test/", callbacks=enabled,
                            assign=("after-init" if (len(hist) + int(tls) + len(seg)) % 2 else "ctor"))
        out["run"] = run
        run.run_forever()
    S = sched.Sched(horizon=300, watchdog=60)
    failure = None
    try:
        S.run(scen)
    except sched.SimFailure as e:
        failure = e
    run = out.get("run")
    case = {"history": hist, "segmentation": seg, "tls": tls, "mode": "on_cont_message"}
    res.case(("cont", hist, seg, tls), nontrivial=True)
    res.count("cont_mode_runs")

    def bad(kind, detail, **kw):
        res.violation(kind, f"on_cont_message mode {hist} seg={seg} tls={tls}: {detail}", case, segmentation=seg, tls=tls, mode="on_cont_message", **kw)
    if failure is not None or run is None:
        bad("no-return", str(failure))
        return
    exp = [(0.0, "on_open", None, None)]
    fi = 0
    for ev in evs:
        if "ctl" in ev:
            exp.append((ftimes[fi], "on_ping", ev["ctl"][1], None))
            fi += 1
            continue
        for (op, payload, fin) in ev["parts"]:
            t = ftimes[fi]
            fi += 1
            exp.append((t, "on_data", payload, None))
            if op == R.CONT:
                exp.append((t, "on_cont_message", payload, fin))
            else:
                exp.append((t, "on_message", payload, None))
    obs = [(t, n, a) for (t, n, a, ci, ac) in run.trace if n != "on_close"]
    if any(n == "on_error" for _, n, _ in obs):
        e = [a[0] for _, n, a in obs if n == "on_error"][0]
        bad("error-in-cont-mode", f"on_error({type(e).__name__}: {e})", error=type(e).__name__)
        return
    if len(obs) != len(exp):
        bad("callback-count", f"{[n for _, n, _ in obs]} vs expected {[e[1] for e in exp]}")
        return
    for (ot, on, oa), (et, en, ep, efin) in zip(obs, exp):
        if on != en:
            bad("callback-order", f"expected {en}, got {on}; trace {[n for _, n, _ in obs]}", callback=en, got=on)
            return
        if ep is not None:
            got = oa[0].encode("utf-8") if isinstance(oa[0], str) else bytes(oa[0])
            if got != ep:
                bad("callback-arguments", f"{en}: payload {got!r}, expected {ep!r}", callback=en, what="payload")
                return
        if en == "on_cont_message" and bool(oa[1]) != bool(efin):
            bad("callback-arguments", f"on_cont_message final flag {oa[1]!r}, expected {efin}", callback=en, what="final-flag")
            return
        if abs(ot - et) > 1e-9:
            bad("callback-late", f"{en}: bytes arrived at t={et}, callback at t={ot}", callback=en, delay_class="select-timeout" if ot - et >= 9 else "other")
            return
        res.count("callbacks_checked")
        res.count("timing_checked")
