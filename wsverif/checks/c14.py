"""C14 - run_forever always terminates; on_close fires once, last, with the
close reason; return value by ending class."""
from __future__ import annotations

import random
import re

from .. import appsim
from .. import harness as H
from ..ref import rfc6455 as R
from ..sim import sched, shim

SHARDS = {"quick": 16, "thorough": 16}
META = {
    "level": "fault_enumeration",
    "technique": "runtime monitoring under a deterministic scheduler with virtual time: WebSocketApp.run_forever runs as an actor against scripted peers; endings are injected at enumerated moments (server events, close() from each callback, close() from a second actor preempting the loop at every source line - complete one-preemption sweep -, KeyboardInterrupt in callbacks); deadlock and virtual-horizon detectors decide termination; the callback trace, return value, ping-thread liveness and transport state are checked against the ending class known to the generator",
    "claim": "For every generated ending (server close without body / with code / with code and reason / in the same segment as data, end of stream, reset, illegal frame, invalid UTF-8, ping timeout against a silent peer, refused connection, rejected handshake, close() from every callback, close() from a second thread at every line of the loop, KeyboardInterrupt in callbacks; built-in and external dispatcher; each followed by a second run of the same object) run_forever returned before the virtual horizon, on_close was called exactly once and after every other callback with the server's close code and reason (None, None otherwise), no transport and no ping thread was left, and the return value was False for close-frame/own-close endings and True for error endings.",
    "trusted": "scheduler/virtual clock (wsverif/sim/sched.py); simulated network (cross-checked in this run against real loopback TCP + real threads on 30 timing-free scenarios: counter fidelity_scenarios_agree); preemption granularity = source lines + sync/IO operations; at most one forced preemption per schedule in the sweep (two sampled)",
    "rule": "case = (scenario, dispatcher, schedule decision list / preemption point); distinct by that; non-trivial when the run reached an established connection or an injected ending and was followed by a second run",
    "exhaustive": {"quick": False, "thorough": True},
    "exhaustive_space": {"thorough": "all single preemptions (every line/sync/IO point of the loop actor after arming) for 4 cross-thread-close scenarios", "quick": "strided single-preemption sweep (<= 250 points per scenario)"},
    "bounds": "single forced preemption systematically (complete in thorough), two and three forced preemptions sampled (sweep2), seeded random schedules; line granularity",
    "required_counters": ["runs_judged", "sweep_runs", "second_runs_judged", "on_close_checked"],
    "assumptions": [],
}
META["claim"] += " " + "Also: servers that never answer the client's close frame (silent or streaming for ever); a second run with keepalive against a silent peer; undecodable close reasons with validation off; re-running the application from inside on_close; two/three forced preemptions at random lines; a cross-check of the simulator against real loopback TCP on 30 timing-free scenarios."
META["claim"] += " " + "Round 4: runs that reconnected (with keepalive) before ending through the server's close frame - no ping thread of the lost connection survives; mute and closing servers over the simulated TLS transport (whose unwrap() waits for a close_notify a silent peer never sends)."
META["claim"] += " " + "Round 5: a process-wide setReconnect() in force while the run passes reconnect=0; a KeyboardInterrupt striking inside the library's own closing handshake during teardown (raised by the key source)."
META["claim"] += " " + 'Rounds 6-7: descriptor 0 and bytearray transports (ambient); a server close frame between the fragments of a message; close() from another thread against a peer that never answers while the loop is woken by a short ping timeout or late data; no transport open at the moment run_forever() returns (built-in loop).'
META["claim"] += " " + "Round 8: close(timeout=0 / 0.5) from callbacks against a mute server; KeyboardInterrupt in on_close after the application's own close(); close() from another thread while the loop is blocked in the middle of a frame (known finding)."

HORIZON = 400.0


def text(s):
    return R.encode(R.TEXT, s.encode())


# ---------------------------------------------------------------------------
# scenario table: name -> (plan, run_kwargs, hooks, raising, ending_class, close_args, callbacks)
# ending classes: "close-frame" | "own-close" | "error" | "callback-only" | "interrupt"


def scenarios(W):
    S = []

    def add(name, plan, ending, close_args=(None, None), run_kwargs=None, hooks=None, raising=None, callbacks=None, app_kwargs=None, url=None,
            process_reconnect=None):
        trig = "close-from-callback" if name.startswith("close-") else "keyboard-interrupt" if name.startswith("keyboard") else "scripted"
        S.append(dict(name=name, trigger=trig, plan=plan, ending=ending, close_args=close_args, run_kwargs=run_kwargs or {}, hooks=hooks or {},
                      raising=raising or {}, callbacks=callbacks, app_kwargs=app_kwargs or {}, url=url, process_reconnect=process_reconnect))

    ok = lambda *script, **kw: dict(outcome="ok", script=list(script), **kw)  # noqa
    msg = (1.0, "frames", text("hello"))
    # --- server close frames ---
    add("server-close-nobody", [ok(msg, (2.0, "close", b""))], "close-frame")
    add("server-close-code", [ok(msg, (2.0, "close", b"\x03\xe9"))], "close-frame", (1001, ""))
    add("server-close-code-reason", [ok(msg, (2.0, "close", b"\x0f\xa0going away \xe2\x82\xac"))], "close-frame", (4000, "going away €"))
    add("server-close-same-segment", [ok((1.0, "frames", text("a") + R.encode(R.PING, b"p") + R.encode(R.CLOSE, b"\x03\xe8done")))], "close-frame", (1000, "done"))
    add("server-close-immediately", [ok((0.0, "close", b"\x03\xe8"))], "close-frame", (1000, ""))
    add("server-close-then-eof", [ok(msg, (2.0, "close", b"\x03\xe8bye", True))], "close-frame", (1000, "bye"))
    add("server-close-fragmented-before", [ok((1.0, "frames", R.encode(R.TEXT, b"fr", fin=0)), (1.5, "frames", R.encode(R.CONT, b"ag")), (2.0, "close", b"\x03\xea"))], "close-frame", (1002, ""))
    # the server gives up on a fragmented message and closes (legal: a close frame may come between the fragments of a message)
    add("server-close-mid-fragmented-message", [ok((1.0, "frames", R.encode(R.TEXT, b"fr", fin=0)), (2.0, "close", b"\x03\xe9going away"))], "close-frame", (1001, "going away"))
    add("server-close-mid-fragmented-message-after-ping", [ok((1.0, "frames", R.encode(R.BINARY, b"fr", fin=0) + R.encode(R.CONT, b"ag", fin=0) + R.encode(R.PING, b"p")),
                                                              (2.0, "close", b"\x03\xe8"))], "close-frame", (1000, ""))
    add("server-close-mid-fragmented-message-same-segment", [ok((1.0, "frames", R.encode(R.TEXT, b"fr", fin=0) + R.encode(R.CLOSE, b"\x0f\xa0x")))], "close-frame", (4000, "x"))
    add("server-close-bad-utf8-reason-validation-off", [ok(msg, (2.0, "close", b"\x03\xe8bye \xff\xfe"))], "close-frame", (1000, "*"),
        run_kwargs=dict(skip_utf8_validation=True))
    add("server-close-truncated-utf8-reason-validation-off", [ok(msg, (2.0, "close", b"\x0f\xa1\xe2\x82"))], "close-frame", (4001, "*"),
        run_kwargs=dict(skip_utf8_validation=True))
    # --- losses / errors ---
    add("eof", [ok(msg, (2.0, "eof"))], "error")
    add("eof-immediately", [ok((0.0, "eof"))], "error")
    add("reset", [ok(msg, (2.0, "reset"))], "error")
    add("eof-mid-frame", [ok((1.0, "frames", text("complete") + b"\x81\x05he"), (2.0, "eof"))], "error")
    add("illegal-frame", [ok(msg, (2.0, "frames", bytes([0xC1, 0x01, 0x41])))], "error")
    add("illegal-opcode", [ok(msg, (2.0, "frames", bytes([0x83, 0x00])))], "error")
    add("invalid-utf8", [ok(msg, (2.0, "frames", R.encode(R.TEXT, b"\xff\xfe")))], "error")
    add("cont-without-start", [ok((1.0, "frames", R.encode(R.CONT, b"x")))], "error")
    add("ping-timeout", [ok(msg, pong=None)], "error", run_kwargs=dict(ping_interval=3, ping_timeout=1))
    add("ping-timeout-after-some-pongs", [ok(msg, pong=lambda k, t: 0.2 if k < 2 else None)], "error", run_kwargs=dict(ping_interval=3, ping_timeout=1))
    add("refused", [dict(outcome="refused")], "error")
    add("unreachable", [dict(outcome="unreachable")], "error")
    add("rejected-403", [dict(outcome="reject", status=403)], "error")
    add("rejected-500", [dict(outcome="reject", status=500)], "error")
    add("bad-accept", [dict(outcome="ok", response=lambda req: H.response_101("wrong"))], "error")
    # --- close() from callbacks ---
    two = [ok(msg, (1.5, "frames", R.encode(R.PING, b"pi")), (2.0, "frames", R.encode(R.PONG, b"po")), (2.5, "frames", R.encode(R.BINARY, b"b", fin=0) + R.encode(R.CONT, b"c")), (9.0, "frames", text("late")))]
    closer = lambda run, app, *a: app.close()  # noqa
    for cb in ("on_open", "on_message", "on_data", "on_ping", "on_pong"):
        add(f"close-from-{cb}", two, "own-close", hooks={cb: closer})
    add("close-from-on_cont_message", two, "own-close", hooks={"on_cont_message": closer}, callbacks=appsim.AppRun.CALLBACKS)
    add("close-from-on_message-with-ping-thread", [ok(msg, (9.0, "frames", text("late")), pong=0.1)], "own-close", hooks={"on_message": closer},
        run_kwargs=dict(ping_interval=3, ping_timeout=1))
    add("close-with-status-from-on_message", two, "own-close", hooks={"on_message": lambda run, app, *a: app.close(status=1001, reason=b"bye")})
    # --- the same with a server that never answers the client's close frame and keeps the TCP connection open ---
    mute = [ok(msg, (1.5, "frames", R.encode(R.PING, b"pi")), (9.0, "frames", text("late")), answer_close=False)]
    add("close-from-on_message-mute-server", mute, "own-close", hooks={"on_message": closer})
    add("close-from-on_ping-mute-server", mute, "own-close", hooks={"on_ping": closer})
    add("ping-timeout-mute-server", [ok(msg, pong=None, answer_close=False)], "error", run_kwargs=dict(ping_interval=3, ping_timeout=1))
    add("illegal-frame-mute-server", [ok(msg, (2.0, "frames", bytes([0xC1, 0x01, 0x41])), answer_close=False)], "error")
    # ... and over TLS (a silent peer never sends a TLS close_notify either)
    add("close-from-on_message-mute-server-tls", mute, "own-close", hooks={"on_message": closer}, url="wss://app.test/")
    # close() with a timeout of its own, handed through to the closing handshake: 0 = do not wait for the peer at all
    for tmo in (0, 0.0, 0.5, None):
        if tmo is None:
            continue  # "wait for ever" against a mute server does what it says
        add(f"close-timeout-{tmo!r}-from-on_message-mute-server", mute, "own-close", hooks={"on_message": lambda run, app, *a, tmo=tmo: app.close(timeout=tmo)})
        add(f"close-timeout-{tmo!r}-from-on_open-mute-server", mute, "own-close", hooks={"on_open": lambda run, app, *a, tmo=tmo: app.close(timeout=tmo)})
    # the application's own close() from a frame callback, and then on_close itself is interrupted / fails
    add("close-from-on_message-then-keyboard-interrupt-in-on_close", two, "interrupt", hooks={"on_message": closer}, raising={"on_close": lambda: KeyboardInterrupt()})
    add("close-from-on_ping-then-keyboard-interrupt-in-on_close", [ok(msg, (1.5, "frames", R.encode(R.PING, b"pi")), (30.0, "frames", text("never")))], "interrupt",
        hooks={"on_ping": closer}, raising={"on_close": lambda: KeyboardInterrupt()})
    add("ping-timeout-mute-server-tls", [ok(msg, pong=None, answer_close=False)], "error", run_kwargs=dict(ping_interval=3, ping_timeout=1), url="wss://app.test/")
    add("illegal-frame-mute-server-tls", [ok(msg, (2.0, "frames", bytes([0xC1, 0x01, 0x41])), answer_close=False)], "error", url="wss://app.test/")
    add("server-close-code-reason-tls", [ok(msg, (2.0, "close", b"\x0f\xa0going away"))], "close-frame", (4000, "going away"), url="wss://app.test/")
    stream = [(0.5 + 0.4 * i, "frames", text("tick%d" % i)) for i in range(200)]
    add("close-from-on_message-streaming-mute-server", [ok(*stream, answer_close=False)], "own-close", hooks={"on_message": closer})
    add("illegal-frame-streaming-mute-server", [ok((0.2, "frames", bytes([0xC1, 0x00])), *stream, answer_close=False)], "error")
    add("server-close-with-keepalive", [ok(msg, (7.0, "close", b"\x03\xe8"), pong=0.1)], "close-frame", (1000, ""), run_kwargs=dict(ping_interval=2, ping_timeout=1))
    add("eof-with-keepalive", [ok(msg, (7.0, "eof"), pong=0.1)], "error", run_kwargs=dict(ping_interval=2, ping_timeout=1))
    # --- a run that lost its first connection, reconnected (reconnect=1) and then ended through the server's close frame: the ping
    #     thread of the lost connection is gone as well (an error was reported on the way, so the run returns True) ---
    for how in ("eof", "reset"):
        for interval in (30, 2):
            add(f"reconnect-keepalive-{how}-then-server-close-interval{interval}",
                [ok(msg, (2.0, how), pong=0.1), ok(msg, (2.5, "close", b"\x03\xe8bye"), pong=0.1)], "error", (1000, "bye"),
                run_kwargs=dict(ping_interval=interval, reconnect=1))
    # --- a process-wide reconnect interval (websocket.setReconnect) is in force, but this run asks for none (reconnect=0): it ends
    #     like any run without reconnection ---
    add("process-reconnect-set-run-asks-for-none-eof", [ok(msg, (2.0, "eof"))], "error", run_kwargs=dict(reconnect=0), process_reconnect=5)
    add("process-reconnect-set-run-asks-for-none-reset", [ok(msg, (2.0, "reset"))], "error", run_kwargs=dict(reconnect=0), process_reconnect=1)
    add("process-reconnect-set-run-asks-for-none-refused", [dict(outcome="refused")], "error", run_kwargs=dict(reconnect=0), process_reconnect=2)
    add("process-reconnect-set-run-asks-for-none-illegal-frame", [ok(msg, (2.0, "frames", bytes([0xC1, 0x01, 0x41])))], "error", run_kwargs=dict(reconnect=0), process_reconnect=5)
    add("process-reconnect-set-run-asks-for-none-server-close", [ok(msg, (2.0, "close", b"\x03\xe9"))], "close-frame", (1001, ""), run_kwargs=dict(reconnect=0), process_reconnect=5)
    # --- a KeyboardInterrupt that strikes inside the library's own closing handshake during teardown (here: raised by the key source
    #     while the close frame is being masked) does not cost the run its on_close / its transport release ---
    def _ki_key_source():
        st = {"armed": False}

        def key(n):
            if st["armed"]:
                st["armed"] = False
                raise KeyboardInterrupt()
            return b"\x01\x02\x03\x04"[:n]
        return st, key
    for nm, script in (("illegal-frame", (2.0, "frames", bytes([0xC1, 0x01, 0x41]))), ("invalid-utf8", (2.0, "frames", R.encode(R.TEXT, b"\xff\xfe")))):
        st_, key_ = _ki_key_source()
        add(f"keyboard-interrupt-in-key-source-during-teardown-{nm}", [ok(msg, script)], "error", app_kwargs=dict(get_mask_key=key_),
            hooks={"on_error": (lambda run, app, e, st_=st_: st_.__setitem__("armed", True))})
    # --- user callback raising (not an ending by itself) then server close ---
    boom = lambda: RuntimeError("boom")  # noqa
    for cb in ("on_open", "on_message", "on_data", "on_ping"):
        add(f"raise-in-{cb}-then-server-close", [ok(msg, (1.5, "frames", R.encode(R.PING, b"pi")), (3.0, "close", b"\x03\xe8"))], "callback-only", (1000, ""), raising={cb: boom})
    add("raise-in-on_close", [ok(msg, (2.0, "close", b"\x03\xe8"))], "callback-only", (1000, ""), raising={"on_close": boom})
    add("raise-in-on_error-at-eof", [ok(msg, (2.0, "eof"))], "error", raising={"on_error": boom})
    # --- KeyboardInterrupt in callbacks ---
    ki = lambda: KeyboardInterrupt()  # noqa
    for cb in ("on_open", "on_message", "on_ping"):
        add(f"keyboard-interrupt-in-{cb}", [ok(msg, (1.5, "frames", R.encode(R.PING, b"pi")), (30.0, "frames", text("never")))], "interrupt", raising={cb: ki})
    return S


def second_run_plan(keepalive=False):
    if keepalive:
        # a silent peer: only a working ping thread and timeout check can end this run
        return dict(outcome="ok", script=[(1.0, "frames", text("second run"))], pong=None)
    return dict(outcome="ok", script=[(1.0, "frames", text("second run")), (2.0, "close", b"\x03\xe8again")])


def judge(res, W, run, sc, Ssim, tag, failure, second=False, dispatcher=None):
    """Apply the C14 oracle to one finished (or failed) run."""
    keepalive2 = bool(sc["run_kwargs"].get("ping_interval")) and bool(sc["run_kwargs"].get("ping_timeout"))
    ending = sc["ending"] if not second else ("error" if keepalive2 else "close-frame")
    close_args = sc["close_args"] if not second else ((None, None) if keepalive2 else (1000, "again"))
    case = {"scenario": sc["name"], "tag": tag, "preempted_at": getattr(Ssim.strategy, "fired_at", None), "decisions": list(Ssim.decisions)[:300], "second_run": second,
            "trace": [(t, n, [repr(a)[:40] for a in args]) for t, n, args, ci, ac in run.trace[-14:]]}
    res.count("second_runs_judged" if second else "runs_judged")

    trigger = sc.get("trigger", "scripted")

    def bad(kind, detail, **kw):
        res.violation(kind, f"{sc['name']} {tag}{' (second run)' if second else ''}: {detail}", case, trigger=trigger, ending=ending,
                      second=second, dispatcher=dispatcher or "builtin", **kw)

    if failure is not None:
        if isinstance(failure, sched.WatchdogExpired):
            res.inconc(f"{sc['name']}: wall-clock watchdog")
            return False
        # who was waiting for what when nothing could move any more (actor:kind of wait), e.g. "closer:lock+main:recv"
        waits = sorted({f"{a}:{re.sub(r'[^a-z ].*', '', w).strip().replace(' ', '-')}" for a, w in re.findall(r"\('([\w-]+)', 'blocked', '([^']*)'\)", str(failure))})
        bad("no-return", f"{type(failure).__name__}: {str(failure)[:200]}", how=type(failure).__name__, blocked_on="+".join(waits))
        return False
    trace = run.trace
    names = [n for _, n, _, _, _ in trace]
    # exceptions escaping the external dispatcher's loop (the read/timeout callbacks are the library's)
    dexc = getattr(run, "dispatch_exc", None)
    if dexc is not None:
        run.dispatch_exc = None
        bad("exception-escaped-into-dispatcher", f"{type(dexc).__name__}: {dexc} propagated out of the external dispatcher's loop; trace {names}",
            exc_type=type(dexc).__name__, where=(H.repo_frame_of(dexc) or [None, None])[1])
        return False
    # exceptions escaping run_forever
    if run.ret == "raised":
        bad("run_forever-raised", f"{type(run.exc).__name__}: {run.exc}", exc_type=type(run.exc).__name__, where=(H.repo_frame_of(run.exc) or [None, None])[1])
        return False
    # on_close exactly once and last
    if sc["raising"].get("on_close") and not second and len(names) >= 2 and names[-1] == "on_error" and names[-2] == "on_close":
        # the exception raised by on_close itself is reported to on_error (C13): not a callback "after" the run's end
        trace = trace[:-1]
        names = names[:-1]
        res.count("on_close_raised_reported")
    n_close = names.count("on_close")
    res.count("on_close_checked")
    if n_close != 1:
        bad("on_close-count", f"on_close called {n_close} times; trace {names}", count=n_close)
    elif names[-1] != "on_close":
        after = names[names.index("on_close") + 1:]
        bad("callback-after-on_close", f"callbacks after on_close: {after}", after=after[0])
    else:
        args = trace[-1][2]
        if ending == "own-close" and tuple(args) != (None, None) and len(args) == 2 and isinstance(args[0], int):
            res.count("own_close_echo_code_passed_to_on_close")  # statement is silent on the echo of our own close frame: not judged
        elif len(close_args) == 2 and close_args[1] == "*" and len(args) == 2 and args[0] == close_args[0] and isinstance(args[1], (str, bytes)):
            res.count("undecodable_close_reason_passed_somehow")  # how an undecodable reason is rendered is not specified: only the code is judged
        elif tuple(args) != tuple(close_args):
            bad("on_close-args", f"on_close{tuple(args)!r}, expected {tuple(close_args)!r}", got_none=args[0] is None)
    # transports and ping threads gone
    left = run.open_transports()
    if left:
        bad("transport-left-open", f"{len(left)} transport(s) still open when the run ended")
    elif not second and dispatcher is None and getattr(run, "open_at_return", 0):
        # released in the end (by a thread still busy in close()), but not yet at the moment run_forever() returned
        bad("transport-left-open", f"{run.open_at_return} transport(s) still open at the moment run_forever() returned (released only later, by another thread)", when="at-return")
    live = getattr(run, "live_at_return", None) or run.live_ping_actors()
    if live and dispatcher is None:
        bad("ping-thread-alive", f"ping thread(s) {live} alive when the run ended")
    if run.app.sock is not None:
        bad("app-sock-not-cleared", f"app.sock is {run.app.sock!r} after the run")
    # return value by ending class
    if dispatcher is None:
        if ending in ("close-frame", "own-close"):
            if run.ret is not False:
                errs = [repr(a[0])[:80] for _, n, a, _, _ in trace if n == "on_error"]
                etypes = [type(a[0]).__name__ for _, n, a, _, _ in trace if n == "on_error"]
                bad("return-value", f"returned {run.ret!r}, expected False for a {ending} ending; errors reported: {errs}", got=repr(run.ret),
                    error_reported=etypes[0] if etypes else None)
        elif ending == "error":
            if run.ret is not True:
                bad("return-value", f"returned {run.ret!r}, expected True for an error ending", got=repr(run.ret))
        else:
            res.count("return_value_unjudged")
    if ending in ("close-frame", "own-close") and "on_error" in names:
        errs = [repr(a[0])[:100] for _, n, a, _, _ in trace if n == "on_error"]
        etypes = [type(a[0]).__name__ for _, n, a, _, _ in trace if n == "on_error"]
        first = [a[0] for _, n, a, _, _ in trace if n == "on_error"][0]
        fr = H.repo_frame_of(first) if isinstance(first, BaseException) else None
        bad("error-reported-for-clean-ending", f"on_error({errs[0]}) [raised in {fr}] during a run that ended through a {ending}", error_reported=etypes[0],
            where=fr[1] if fr else None)
    return True


def run_scenario(res, W, sc, strategy, tag, with_second=True, dispatcher_kind=None, line_points=False, closer_at=None, arm_at="on_open", trace_points=False):
    """One execution: first run, then (optionally) a second run on the same object."""
    Ssim = sched.Sched(strategy=strategy, horizon=HORIZON, watchdog=60)
    if trace_points:
        Ssim.trace_points = []
    out = {}

    def scen():
        S = sched.CURRENT
        H.reset_process_state()
        if sc.get("process_reconnect"):
            H.ws().setReconnect(sc["process_reconnect"])
        plan = list(sc["plan"]) + [second_run_plan(bool(sc["run_kwargs"].get("ping_interval")) and bool(sc["run_kwargs"].get("ping_timeout")))]
        hooks = dict(sc["hooks"])
        closer_actor = []
        if closer_at is not None:
            def arm_hook(run, app, *a, prev=hooks.get("on_open")):
                if prev:
                    prev(run, app, *a)
                if arm_at == "on_open" and not S.armed:
                    S.arm(line_points=line_points)
            hooks["on_open"] = arm_hook
        app_kwargs = dict(sc["app_kwargs"])
        if closer_at is not None and arm_at == "start":
            def header_hook():
                # "called just before the connection attempt": the run has started, keep_running is True
                if not S.armed:
                    S.arm(line_points=line_points)
                return []
            app_kwargs["header"] = header_hook
        run = appsim.AppRun(plan, hooks=hooks, raising=sc["raising"], callbacks=sc["callbacks"], app_kwargs=app_kwargs, last_repeats=False,
                            **({"url": sc["url"]} if sc.get("url") else {}))
        out["run"] = run
        run.build()
        if closer_at is not None:
            def closer():
                S.sleep(closer_at)
                run.app.close()
            closer_actor.append(S.spawn(closer, name="closer"))
        kw = dict(sc["run_kwargs"])
        rel = None
        if dispatcher_kind == "rel":
            rel = appsim.SimRel()
            kw["dispatcher"] = rel
        run.run_forever(**kw)
        if rel is not None:
            out["ret_before_dispatch"] = run.ret
            try:
                rel.dispatch(horizon=HORIZON - 50)
            except sched.SimAbort:
                raise
            except BaseException as e:  # noqa
                run.dispatch_exc = e
            # with an external dispatcher "the run ends" when dispatch has nothing left to do
            run.returned_at = S.now
        S.disarm()
        for a in closer_actor:
            S.block(lambda a=a: a.state == sched.DONE, 50, why="join closer")
        out["first_trace_len"] = len(run.trace)
        out["first_ret"] = run.ret
        out["phase"] = "first-done"
        return run

    failure = None
    try:
        Ssim.run(scen)
    except sched.SimFailure as e:
        failure = e
    run = out.get("run")
    if run is None:
        res.inconc(f"{sc['name']}: scenario setup failed: {failure}")
        return None, Ssim
    res.case((sc["name"], tag, dispatcher_kind, tuple(Ssim.decisions)), nontrivial=bool(run.attempts))
    res.count("scheduling_points_passed", Ssim.n_points)
    res.count("actor_switches", Ssim.switches)
    res.count("callbacks_observed", len(run.trace))
    ok = judge(res, W, run, sc, Ssim, tag, failure, dispatcher=dispatcher_kind)
    if ok and with_second and failure is None:
        # ---- second run of the same object (fresh simulation clock continues conceptually) ----
        S2 = sched.Sched(strategy=sched.NonPreemptive(), horizon=HORIZON, watchdog=60)
        first_len = len(run.trace)

        def scen2():
            run.network.conns.clear()
            shim.set_network(run.network)
            run.ret, run.exc = "not-returned", None
            kw = dict(sc["run_kwargs"])
            rel = None
            if dispatcher_kind == "rel":
                rel = appsim.SimRel()
                kw["dispatcher"] = rel
            run.raising = {}
            run.hooks = {}
            run.run_forever(**kw)
            if rel is not None:
                try:
                    rel.dispatch(horizon=HORIZON - 50)
                except sched.SimAbort:
                    raise
                except BaseException as e:  # noqa
                    run.dispatch_exc = e
        f2 = None
        try:
            S2.run(scen2)
        except sched.SimFailure as e:
            f2 = e
        run.trace = run.trace[first_len:]
        judge(res, W, run, sc, S2, tag, f2, second=True, dispatcher=dispatcher_kind)
    return run, Ssim


def run(res, tier, seed, shard, nshards):
    W = H.ws()
    shim.install()
    sched.install_line_monitor(shim.PREFIX)
    H.scrub_env()
    rng = random.Random((seed << 8) ^ shard ^ 0xC14)
    quick = tier == "quick"
    SC = scenarios(W)
    jobs = []
    for sc in SC:
        jobs.append(("plain", sc, None))
        if sc["ending"] != "interrupt" and sc["name"] != "raise-in-on_error-at-eof":
            jobs.append(("plain", sc, "rel"))
    # cross-thread close(): one-preemption sweeps
    ok = lambda *script, **kw: dict(outcome="ok", script=list(script), **kw)  # noqa
    sweep_scs = [
        dict(name="xthread-close-idle-and-message", trigger="cross-thread-close", plan=[ok((1.0, "frames", text("m1")), (2.0, "frames", text("m2") + R.encode(R.PING, b"p")))], ending="own-close",
             close_args=(None, None), run_kwargs={}, hooks={}, raising={}, callbacks=None, app_kwargs={}),
        dict(name="xthread-close-with-ping-thread", trigger="cross-thread-close", plan=[ok((1.0, "frames", text("m1")), pong=0.05)], ending="own-close",
             close_args=(None, None), run_kwargs=dict(ping_interval=0.7, ping_timeout=0.3), hooks={}, raising={}, callbacks=None, app_kwargs={}),
        dict(name="xthread-close-fragmented", trigger="cross-thread-close", plan=[ok((1.0, "frames", R.encode(R.TEXT, b"ab", fin=0)), (1.0, "frames", R.encode(R.CONT, b"cd")))], ending="own-close",
             close_args=(None, None), run_kwargs={}, hooks={}, raising={}, callbacks=None, app_kwargs={}),
    ]
    # the peer never answers the client's close frame: the closing thread waits for the reply while the loop thread is woken by its own
    # timers (a short ping_timeout) or by data that still arrives
    mute_scs = [
        dict(name="xthread-close-mute-peer-with-ping-thread", trigger="cross-thread-close", plan=[ok((1.0, "frames", text("m1")), pong=0.05, answer_close=False)], ending="own-close",
             close_args=(None, None), run_kwargs=dict(ping_interval=0.7, ping_timeout=0.3), hooks={}, raising={}, callbacks=None, app_kwargs={}),
        dict(name="xthread-close-mute-peer-data-arrives", trigger="cross-thread-close",
             plan=[ok((0.5, "frames", text("m1")), (1.4, "frames", text("late1")), (2.1, "frames", text("late2")), (3.0, "frames", R.encode(R.PING, b"late")), answer_close=False)],
             ending="own-close", close_args=(None, None), run_kwargs={}, hooks={}, raising={}, callbacks=None, app_kwargs={}),
    ]
    # the loop thread is blocked in the middle of a frame (the server sent half of it and fell silent) when close() comes from another thread
    mute_scs.append(dict(name="xthread-close-loop-blocked-mid-frame", trigger="cross-thread-close",
                         plan=[ok((0.5, "frames", text("m1") + R.encode(R.TEXT, b"never completed")[:9]), answer_close=False)], ending="own-close",
                         close_args=(None, None), run_kwargs={}, hooks={}, raising={}, callbacks=None, app_kwargs={}))
    for sc in mute_scs:
        jobs.append(("plain-x", sc, None))
        jobs.append(("random2", sc, 0))
        jobs.append(("sweep2", sc, 0))
    for sc in sweep_scs:
        for part in range(4):
            jobs.append(("sweep", sc, part))
    jobs.append(("sweep-start", sweep_scs[0], 0))
    jobs.append(("sweep-start", sweep_scs[0], 1))
    for sc in sweep_scs:
        jobs.append(("random2", sc, 0))
        jobs.append(("sweep2", sc, 0))
        jobs.append(("sweep2-hot", sc, 0))
    # simulator fidelity: timing-free scenarios replayed on real loopback TCP with real threads
    from .. import fidelity
    byname = {sc["name"]: sc for sc in SC}
    for nm in fidelity.TIMING_FREE:
        if nm in byname:
            jobs.append(("fidelity", byname[nm], 0))

    jobs.append(("nested", None, None))
    jobs.append(("nested", None, "rel"))
    for ji, job in enumerate(jobs):
        if ji % nshards != shard:
            continue
        kind, sc, arg = job
        if kind == "nested":
            nested_rerun_case(res, W, arg)
            continue
        if kind == "plain-x":
            run_scenario(res, W, sc, sched.NonPreemptive(), "baseline", with_second=False, line_points=False, closer_at=1.0)
            res.count("scenario_runs")
            continue
        if kind == "plain":
            # run once as written and once under drawn ambient conditions (TLS transport, late callback assignment, trace logging)
            run_scenario(res, W, sc, sched.NonPreemptive(), "plain", dispatcher_kind=arg)
            if sc.get("callbacks") is None and not sc.get("url"):
                with H.ambient((seed, ji, "C14"), res, dims=("app",)):
                    run_scenario(res, W, sc, sched.NonPreemptive(), "plain-ambient", dispatcher_kind=arg)
            res.count("scenario_runs")
            res.sample({"scenario": sc["name"], "dispatcher": arg or "builtin", "ending": sc["ending"]}, cap=4)
        elif kind == "sweep2":
            # two or three forced preemptions at random places of the loop / closer / ping thread
            r0, S0 = run_scenario(res, W, sc, sched.NonPreemptive(), "baseline", with_second=False, line_points=True, closer_at=1.0)
            pts = [(a.name, k) for a in S0.actors for k in range(1, a.points + 1)]
            rr = random.Random((seed << 8) ^ ji)
            for i in range(80 if quick else 6000):
                if len(pts) < 3:
                    break
                st = sched.Preemptions(rr.sample(pts, 2 if i % 3 else 3))
                run_scenario(res, W, sc, st, f"preempt2#{i}", with_second=False, line_points=True, closer_at=1.0)
                res.count("sweep2_runs")
        elif kind == "sweep2-hot":
            # every pair (a point of the closing thread, a point of the loop thread inside the functions that end the run / release the
            # socket): the closer is held back at the first, the loop is interrupted at the second
            r0, S0 = run_scenario(res, W, sc, sched.NonPreemptive(), "baseline", with_second=False, line_points=True, closer_at=1.0, trace_points=True)
            cnt = {}
            closer_pts, hot = [], []
            for (aname, pkind, desc) in S0.trace_points or []:
                cnt[aname] = cnt.get(aname, 0) + 1
                if aname == "closer":
                    closer_pts.append(cnt[aname])
                elif aname == "main" and isinstance(desc, tuple) and len(desc) == 3 and desc[1] in ("teardown", "shutdown", "_get_close_args", "close", "read"):
                    hot.append(cnt[aname])
            pairs = [(kc, km) for kc in closer_pts for km in hot]
            if quick and len(pairs) > 700:
                pairs = pairs[:: max(1, len(pairs) // 700)]
            for (kc, km) in pairs:
                st = sched.Preemptions([("closer", kc), ("main", km)])
                run_scenario(res, W, sc, st, f"hold-closer@{kc}+preempt-loop@{km}", with_second=False, line_points=True, closer_at=1.0)
                res.count("sweep2_hot_runs")
        elif kind == "fidelity":
            ok, detail = fidelity.compare(W, sc)
            if ok is True:
                res.count("fidelity_scenarios_agree")
            elif ok is None:
                res.count("fidelity_scenarios_skipped")
                res.notes["fidelity_skipped:" + sc["name"]] = detail[:200]
            else:
                res.count("fidelity_scenarios_disagree")
                res.inconc(f"simulator fidelity: scenario {sc['name']}: {detail[:400]}")
        elif kind in ("sweep", "sweep-start"):
            arm_at = "start" if kind == "sweep-start" else "on_open"
            r0, S0 = run_scenario(res, W, sc, sched.NonPreemptive(), "baseline", with_second=False, line_points=True, closer_at=1.0 if arm_at == "on_open" else 0.0, arm_at=arm_at,
                                  trace_points=True)
            npts = S0.actors[0].points
            res.notes[f"sweep_points:{sc['name']}:{arm_at}"] = npts
            parts = 4 if kind == "sweep" else 2
            ks = [k for k in range(1, npts + 1) if k % parts == arg]
            if quick and len(ks) > 250 // parts:
                step = max(1, len(ks) * parts // 250)
                ks = ks[::step]
                # the sampled sweep always includes every point of the loop thread inside the functions that end a run or release
                # the socket (where a concurrent close() hurts most)
                hot, k = [], 0
                for (aname, pkind, desc) in S0.trace_points or []:
                    if aname != "main":
                        continue
                    k += 1
                    if isinstance(desc, tuple) and len(desc) == 3 and desc[1] in ("teardown", "shutdown", "_get_close_args", "handleDisconnect", "close", "_stop_ping_thread"):
                        hot.append(k)
                ks = sorted(set(ks) | {k_ for k_ in hot if k_ % parts == arg})
                res.count("sweep_hot_points", len([k_ for k_ in hot if k_ % parts == arg]))
            for k in ks:
                st = sched.OnePreemption("main", k, to="closer")
                run_scenario(res, W, sc, st, f"preempt@{k}", with_second=(k % 10 == 0), line_points=True, closer_at=1.0 if arm_at == "on_open" else 0.0, arm_at=arm_at)
                res.count("sweep_runs")
                if st.fired:
                    res.count("sweep_preemptions_fired")
            res.sample({"scenario": sc["name"], "sweep_points": npts, "arm_at": arm_at}, cap=6)
        else:
            n = 60 if quick else 12000
            for i in range(n):
                st = sched.RandomStrategy((seed << 16) ^ (ji << 10) ^ i, p_switch=0.3, line_p=0.01)
                run_scenario(res, W, sc, st, f"random#{i}", with_second=False, line_points=True, closer_at=1.0)
                res.count("random_schedule_runs")


def nested_rerun_case(res, W, dispatcher_kind):
    """'the same object can be run again' - also from inside on_close, the usual place for a hand-written reconnect:
    the nested run must complete, and each run gets its own single on_close"""
    ok = lambda *script, **kw: dict(outcome="ok", script=list(script), **kw)  # noqa
    plan = [ok((0.5, "frames", text("first")), (1.0, "close", b"\x03\xe8one")), ok((0.5, "frames", text("second")), (1.0, "close", b"\x03\xe9two"))]
    out = {"rets": []}

    def scen():
        H.reset_process_state()
        state = {"n": 0}

        def on_close_hook(run, app, code, reason):
            state["n"] += 1
            if state["n"] == 1:
                kw = {}
                if dispatcher_kind == "rel":
                    return  # with an external dispatcher the second run is started after dispatch() returns (below)
                out["rets"].append(app.run_forever(**kw))
        run = appsim.AppRun(plan, hooks={"on_close": on_close_hook}, last_repeats=False)
        out["run"] = run
        if dispatcher_kind == "rel":
            for _ in range(2):
                rel = appsim.SimRel()
                run.run_forever(dispatcher=rel)
                rel.dispatch(horizon=HORIZON - 50)
                out["rets"].append(run.ret)
        else:
            run.run_forever()
            out["rets"].append(run.ret)
    S = sched.Sched(horizon=HORIZON, watchdog=60)
    failure = None
    try:
        S.run(scen)
    except sched.SimFailure as e:
        failure = e
    run = out.get("run")
    res.case(("nested-rerun", dispatcher_kind), nontrivial=True)
    res.count("runs_judged")
    res.count("nested_rerun_cases")
    case = {"scenario": "run again from inside on_close", "dispatcher": dispatcher_kind or "builtin",
            "trace": [(t, n, [repr(a)[:30] for a in args]) for t, n, args, ci, ac in (run.trace if run else [])]}

    def bad(kind, detail, **kw):
        res.violation(kind, f"re-run from on_close ({dispatcher_kind or 'builtin'}): {detail}", case, trigger="nested-rerun", ending="close-frame", second=True,
                      dispatcher=dispatcher_kind or "builtin", **kw)
    if failure is not None or run is None:
        if isinstance(failure, sched.WatchdogExpired):
            res.inconc("watchdog in nested re-run")
            return
        bad("no-return", f"{type(failure).__name__}: {str(failure)[:200]}", how=type(failure).__name__)
        return
    names = [n for (t, n, a, ci, ac) in run.trace]
    closes = [tuple(a) for (t, n, a, ci, ac) in run.trace if n == "on_close"]
    msgs = [a[0] for (t, n, a, ci, ac) in run.trace if n == "on_message"]
    res.count("on_close_checked", 2)
    if msgs != ["first", "second"] or closes != [(1000, "one"), (1001, "two")] or names.count("on_open") != 2:
        bad("nested-run-incomplete", f"messages {msgs}, on_close calls {closes}, callbacks {names}")
    elif [r for r in out["rets"] if r is not False]:
        bad("return-value", f"return values {out['rets']}, expected False for both runs", got=repr(out["rets"]))
    if run.open_transports():
        bad("transport-left-open", f"{len(run.open_transports())} transports open")
