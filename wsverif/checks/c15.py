"""C15 - automatic reconnection restores service after loss and stops on
request."""
from __future__ import annotations

import itertools
import random

from .. import appsim
from .. import harness as H
from ..ref import rfc6455 as R
from ..sim import sched, shim

SHARDS = {"quick": 16, "thorough": 16}
META = {
    "level": "fault_enumeration",
    "technique": "runtime monitoring in virtual time with fault injection: enumerated sequences of connection outcomes on the simulated network; the network records every connection attempt (virtual time, other open transports, live ping threads), the callbacks record the trace; an oracle checks attempt times against loss time + interval and the stop conditions",
    "claim": "For all sequences up to length 3 (quick) / 5 (thorough) of abnormal outcomes (refused, handshake 403, established then end of stream / reset / ping timeout) with 0-2 messages per established connection, followed by a final server close frame or own close(), intervals 0.5/1/3, built-in loop and external dispatcher: each loss was followed by a new attempt exactly one interval later, attempts repeated until one succeeded, success fired on_reconnect (on_open when none was given) and messages flowed again, no on_close occurred before the final ending, no other client transport was open and at most one ping thread alive at every connection attempt, and after the server's close frame or the application's close() no further attempt was made and the run ended. close() during the reconnect sleep is swept over wake-up times.",
    "trusted": "virtual clock; simulated network's attempt log; rel-compatible dispatcher model",
    "rule": "case = (outcome sequence, final ending, interval, dispatcher, on_reconnect given?); distinct by that tuple; non-trivial when the sequence has >= 1 loss",
    "exhaustive": {"quick": True, "thorough": True},
    "exhaustive_space": {"quick": "all outcome sequences of length <= 3 over 5 loss kinds x 2 final endings x 3 intervals x 2 dispatchers",
                         "thorough": "all outcome sequences of length <= 5 over 5 loss kinds x 2 final endings x 3 intervals x 2 dispatchers"},
    "bounds": "whether on_error fires for a loss that is followed by a reconnect differs between dispatchers and is not part of the statement: recorded, not judged",
    "required_counters": ["reconnect_attempts_checked", "runs_with_reconnect", "final_stop_checked"],
    "assumptions": [],
}
META["claim"] += " " + "Also: losses that cut a frame or a fragmented message in half, a TLS end of stream without close_notify (SSLEOFError), a server close frame with an undecodable reason, outages of hundreds of refused attempts, and run_forever's return value (True exactly when an error was reported)."
META["claim"] += " " + 'Round 4: nine more ways for a connection attempt to fail (unreachable, connect timeout, resolver error, EIO, 500, garbage response, wrong accept value, TLS certificate failure, TLS protocol error); loss while a keepalive ping is still being written on a slow path.'
META["claim"] += " " + 'Round 5: the interval taken from websocket.setReconnect() instead of the argument.'
META["claim"] += " " + 'Rounds 6-7: a failing header callable; rejections carrying a binary body; an open callback that sends and reads an answer from the connection itself and loses the connection there.'
META["claim"] += " " + "Round 8: ping writes that outlast the library's wait for its ping thread; a loss between a ping and its pong with both dispatchers; close() during the reconnect interval that follows a ping timeout."

LOSSES = ["refused", "reject", "eof", "reset", "pingtimeout"]
TLS_LOSSES = ["ssl-eof"]
CUT_LOSSES = ["eof-mid-frame", "eof-mid-message", "reset-mid-message"]
# further ways in which a connection attempt fails (any of them is "a failed connection attempt": the next one follows)
FAIL_KINDS = ["unreachable", "conn-timeout", "gaierror", "oserror-eio", "status-500", "garbage-response", "bad-accept", "tls-cert", "tls-error", "status-503-binary-body"]
TLS_FAILS = ["tls-cert", "tls-error"]
HORIZON = 600.0


def text(s):
    return R.encode(R.TEXT, s.encode())


def build_plan(seq, final, rng):
    plan = []
    msgs_expected = []
    for i, k in enumerate(seq):
        if k == "refused":
            plan.append(dict(outcome="refused"))
        elif k == "reject":
            plan.append(dict(outcome="reject", status=403))
        elif k == "unreachable":
            plan.append(dict(outcome="unreachable"))
        elif k == "conn-timeout":
            plan.append(dict(outcome="timeout"))
        elif k == "gaierror":
            import socket as _so
            plan.append(dict(outcome="error", exc=lambda: _so.gaierror(-2, "Name or service not known")))
        elif k == "oserror-eio":
            plan.append(dict(outcome="error", exc=lambda: OSError(5, "Input/output error")))
        elif k == "status-500":
            plan.append(dict(outcome="reject", status=500))
        elif k == "status-503-binary-body":
            # a rejection that carries a body which is not text (a compressed error page)
            body = b"\x1f\x8b\x08\x00\x00\x00\x00\x00\x00\x03\xff\xfe\x80\x81 busy \xc3"
            plan.append(dict(outcome="ok", script=[(0.1, "eof")],
                             response=lambda req, body=body: b"HTTP/1.1 503 Service Unavailable\r\nContent-Type: text/html\r\nContent-Encoding: gzip\r\nContent-Length: %d\r\n\r\n" % len(body) + body))
        elif k == "garbage-response":
            plan.append(dict(outcome="ok", response=lambda req: b"SSH-2.0-OpenSSH_9.6\r\n\r\n", script=[(0.1, "eof")]))
        elif k == "bad-accept":
            plan.append(dict(outcome="ok", script=[(0.1, "eof")],
                             response=lambda req: b"HTTP/1.1 101 Switching Protocols\r\nUpgrade: websocket\r\nConnection: Upgrade\r\nSec-WebSocket-Accept: bm90IHRoZSByaWdodCBvbmU=\r\n\r\n"))
        elif k == "tls-cert":
            import ssl as _ssl
            plan.append(dict(outcome="ok", tls_error=lambda: _ssl.SSLCertVerificationError(1, "[SSL: CERTIFICATE_VERIFY_FAILED] certificate verify failed: self-signed certificate (_ssl.c:1000)")))
        elif k == "tls-error":
            import ssl as _ssl
            plan.append(dict(outcome="ok", tls_error=lambda: _ssl.SSLError(1, "[SSL: WRONG_VERSION_NUMBER] wrong version number (_ssl.c:1000)")))
        else:
            nm = (i + len(seq)) % 3
            script = []
            for m in range(nm):
                s = f"c{i}m{m}"
                script.append((0.2 + 0.2 * m, "frames", text(s)))
                msgs_expected.append((i, s))
            if k == "ssl-eof":
                import ssl as _ssl
                script.append((0.7, "error", _ssl.SSLEOFError(8, "EOF occurred in violation of protocol (_ssl.c:2427)")))
                plan.append(dict(outcome="ok", script=script, pong=0.05))
            elif k in CUT_LOSSES:
                # the connection is lost in the middle of a frame / of a fragmented message: nothing of it may be
                # delivered, and nothing of it may leak into the next connection
                if k == "eof-mid-frame":
                    script.append((0.6, "frames", b"\x81\x0ahalf"))
                else:
                    script.append((0.6, "frames", R.encode(R.TEXT, b"never-", fin=0)))
                script.append((0.7, "reset" if k.startswith("reset") else "eof"))
                plan.append(dict(outcome="ok", script=script, pong=0.05))
            elif k == "eof":
                script.append((0.7, "eof"))
                plan.append(dict(outcome="ok", script=script, pong=0.05))
            elif k == "reset":
                script.append((0.7, "reset"))
                plan.append(dict(outcome="ok", script=script, pong=0.05))
            else:
                plan.append(dict(outcome="ok", script=script, pong=None))
    i = len(seq)
    if final in ("server-close", "server-close-bad-reason"):
        body = b"\x03\xe8done" if final == "server-close" else b"\x03\xe8bad \xff\xfe"
        plan.append(dict(outcome="ok", script=[(0.3, "frames", text(f"c{i}final")), (0.8, "close", body)], pong=0.05))
        msgs_expected.append((i, f"c{i}final"))
    else:
        plan.append(dict(outcome="ok", script=[(0.3, "frames", text(f"c{i}final")), (0.6, "frames", text("CLOSE-NOW")), (5.0, "frames", text("too late"))], pong=0.05))
        msgs_expected.append((i, f"c{i}final"))
        msgs_expected.append((i, "CLOSE-NOW"))
    return plan, msgs_expected


def run(res, tier, seed, shard, nshards):
    W = H.ws()
    shim.install()
    H.scrub_env()
    rng = random.Random((seed << 8) ^ shard ^ 0xC15)
    quick = tier == "quick"
    maxlen = 3 if quick else 5
    jobs = []
    for n in range(0, maxlen + 1):
        for seq in itertools.product(LOSSES, repeat=n):
            for final in ("server-close", "own-close"):
                for interval in (0.5, 1, 3):
                    for disp in (None, "rel"):
                        jobs.append(("seq", seq, final, interval, disp))
    # losses that cut a frame or a fragmented message in half, in every position of short sequences
    for n in range(1, 3 if quick else 4):
        for seq in itertools.product(CUT_LOSSES + ["eof", "refused"], repeat=n):
            if not any(k in CUT_LOSSES for k in seq):
                continue
            for final in ("server-close", "own-close"):
                for disp in (None, "rel"):
                    jobs.append(("seq", seq, final, 1, disp))
    # TLS transport: a ragged end of stream (no close_notify) surfaces as SSLEOFError from the read
    for seq in (("ssl-eof",), ("ssl-eof", "ssl-eof"), ("refused", "ssl-eof"), ("ssl-eof", "eof")):
        for final in ("server-close", "own-close"):
            for disp in (None, "rel"):
                jobs.append(("seq", seq, final, 1, disp))
    # every other way a connection attempt can fail (unreachable, timed out, unresolvable, I/O error, 5xx, garbage, wrong accept
    # value, TLS certificate / protocol failure), alone and next to losses of established connections
    fi = 0
    for n in (1, 2):
        for seq in itertools.product(FAIL_KINDS + ["eof"], repeat=n):
            if not any(k in FAIL_KINDS for k in seq):
                continue
            for final in ("server-close", "own-close"):
                for disp in (None, "rel"):
                    fi += 1
                    if quick and n == 2 and fi % 4:
                        continue
                    jobs.append(("seq", seq, final, 1, disp))
    # the connection is lost while a keepalive ping is still being written (slow path): the lost connection's ping thread is gone
    # before the next connection exists
    # (the last delays: the write outlasts the three seconds the library waits for its ping thread to finish)
    for delay in (0.5, 0.8, 1.4, 3.6, 30.0):
        for interval in (0.1, 0.5):
            for how in ("eof", "reset"):
                jobs.append(("inflight-ping", delay, interval, how))
    # the application's header source (a callable, e.g. fetching a token) fails on some attempt: that attempt has failed, the next follows
    for fail_on in ((2,), (2, 3), (1,), (1, 2)):
        for disp in (None, "rel"):
            jobs.append(("header-source", fail_on, disp))
    # the open callback talks to the server itself (a synchronous login: send, then read the answer from app.sock) and the connection
    # is lost right there: an abnormal loss like any other
    # (built-in loop only: with an external dispatcher the library then registers a socket that is already gone - what rel makes of
    # that is rel's business, and an application reading behind the loop's back is outside the statement's quantifier)
    for how in ("eof", "reset"):
        for with_rc in (False, True):
            jobs.append(("open-callback-reads", how, with_rc, None))
    # the connection is lost while a keepalive ping is still unanswered, and the reconnect interval is longer than the ping timeout: one
    # loss, one new connection (the stale ping must not be "timed out" again while the interval runs)
    for how in ("eof", "reset"):
        for disp in (None, "rel"):
            for interval in (1.5, 3.0):
                jobs.append(("loss-with-ping-unanswered", how, disp, interval))
    # close() from another thread during the reconnect interval that follows a ping timeout (the old transport is still connected and
    # its peer silent, so close() spends a while in the closing handshake - longer than the rest of the interval)
    # (built-in loop: with an external dispatcher the first ping timeout is not reported to on_error, which is what starts the closer here)
    for frac in (0.2, 0.4, 0.6, 0.8):
        jobs.append(("close-after-ping-timeout", None, frac))
    # a long outage: hundreds of failed attempts in one run, then service comes back
    for disp in (None, "rel"):
        jobs.append(("outage", 450 if quick else 1500, disp))
    # a server close frame with an undecodable reason (validation off) is still a close frame: no reconnect
    for disp in (None, "rel"):
        for seq in ((), ("eof",), ("refused", "reset")):
            jobs.append(("seq", seq, "server-close-bad-reason", 1, disp))
    # close() during the reconnect sleep, swept over the wake-up time
    for interval in (1, 3):
        for disp in (None, "rel"):
            for frac in ([0.1, 0.5, 0.9] if quick else [i / 20 for i in range(1, 20)]):
                for first in ("eof", "refused", "reset"):
                    jobs.append(("close-in-sleep", first, interval, disp, frac))
    for ji, job in enumerate(jobs):
        if ji % nshards != shard:
            continue
        if job[0] == "seq":
            seq_case(res, W, rng, *job[1:], ji=ji)
        elif job[0] == "outage":
            outage_case(res, W, job[1], job[2])
        elif job[0] == "loss-with-ping-unanswered":
            loss_with_ping_unanswered_case(res, W, *job[1:])
        elif job[0] == "close-after-ping-timeout":
            close_after_ping_timeout_case(res, W, *job[1:])
        elif job[0] == "open-callback-reads":
            open_callback_reads_case(res, W, *job[1:])
        elif job[0] == "header-source":
            header_source_case(res, W, job[1], job[2])
        elif job[0] == "inflight-ping":
            inflight_ping_case(res, W, *job[1:])
        else:
            close_in_sleep_case(res, W, rng, *job[1:])


def execute(plan, run_kwargs, hooks, disp, enabled, closer=None, url="ws://app.test/", process_reconnect=None, app_kwargs=None):
    out = {}

    def scen():
        S = sched.CURRENT
        H.reset_process_state()
        if process_reconnect is not None:
            # the interval comes from the process-wide setting (websocket.setReconnect), run_forever() gets no reconnect argument
            H.ws().setReconnect(process_reconnect)
        run = appsim.AppRun(plan, hooks=hooks, callbacks=enabled, last_repeats=False, url=url, app_kwargs=app_kwargs)
        out["run"] = run
        run.build()
        if closer is not None:
            def closer_fn():
                S.sleep(closer)
                out["closed_at"] = S.now
                run.app.close()
            S.spawn(closer_fn, name="closer")
        kw = dict(run_kwargs)
        rel = None
        if disp == "rel":
            rel = appsim.SimRel()
            kw["dispatcher"] = rel
        run.run_forever(**kw)
        if rel is not None:
            try:
                rel.dispatch(horizon=HORIZON - 100)
            except sched.SimAbort:
                raise
            except BaseException as e:  # noqa
                run.dispatch_exc = e
        out["end"] = S.now
        out["sleeps"] = [(t, kw_["secs"]) for (t, a, what, kw_) in S.events if what == "sleep"]
        return run

    S = sched.Sched(horizon=HORIZON, watchdog=60)
    failure = None
    try:
        S.run(scen)
    except sched.SimFailure as e:
        failure = e
    return out.get("run"), out, failure, S


def seq_case(res, W, rng, seq, final, interval, disp, ji=0):
    plan, msgs_expected = build_plan(seq, final, rng)
    with_reconnect_cb = ji % 2 == 0
    enabled = ["on_open", "on_message", "on_error", "on_close", "on_ping", "on_pong"] + (["on_reconnect"] if with_reconnect_cb else [])
    hooks = {}
    if final == "own-close":
        hooks["on_message"] = lambda run, app, m: app.close() if m == "CLOSE-NOW" else None
    run_kwargs = dict(reconnect=interval)
    if final == "server-close-bad-reason":
        run_kwargs["skip_utf8_validation"] = True
    if "pingtimeout" in seq:
        run_kwargs.update(ping_interval=2, ping_timeout=1)
    elif ji % 3 == 0:
        run_kwargs.update(ping_interval=2, ping_timeout=1)  # healthy keepalive during reconnections
    url = "wss://app.test/" if any(k in TLS_LOSSES or k in TLS_FAILS for k in seq) else "ws://app.test/"
    via_global = ji % 5 == 3
    if via_global:
        run_kwargs.pop("reconnect")
        res.count("runs_with_process_wide_reconnect_setting")
    if ji % 2:
        with H.ambient((ji, "C15"), res, dims=("app",)):
            run, out, failure, S = execute(plan, run_kwargs, hooks, disp, enabled, url=url, process_reconnect=interval if via_global else None)
    else:
        run, out, failure, S = execute(plan, run_kwargs, hooks, disp, enabled, url=url, process_reconnect=interval if via_global else None)
    case = {"sequence": seq, "final": final, "interval": interval, "dispatcher": disp or "builtin", "on_reconnect": with_reconnect_cb,
            "ping": "ping_interval" in run_kwargs, "interval_set_by": "setReconnect" if via_global else "argument"}
    res.case((seq, final, interval, disp, with_reconnect_cb), nontrivial=len(seq) >= 1)
    res.count("connection_attempts_observed", len(run.attempts) if run else 0)
    res.count("callbacks_observed", len(run.trace) if run else 0)
    if seq:
        res.count("runs_with_reconnect")

    def bad(kind, detail, **kw):
        res.violation(kind, f"{list(seq)}+{final} interval={interval} disp={disp or 'builtin'}: {detail}", case, dispatcher=disp or "builtin", final=final, **kw)

    if run is None:
        res.inconc(f"setup failed: {failure}")
        return
    if failure is not None:
        if isinstance(failure, sched.WatchdogExpired):
            res.inconc("watchdog")
            return
        last_loss = seq[-1] if seq else None
        bad("no-return", f"{type(failure).__name__}: {str(failure)[:160]}; attempts {[(a[0], a[1]) for a in run.attempts]}", how=type(failure).__name__)
        return
    dexc = getattr(run, "dispatch_exc", None)
    if dexc is not None:
        bad("exception-escaped-into-dispatcher", f"{type(dexc).__name__}: {dexc}", exc_type=type(dexc).__name__,
            loss=next((k for k in seq if k in ("reset", "pingtimeout", "reset-mid-message")), None))
        return
    attempts = run.attempts
    # --- number of attempts: exactly one per plan entry, none after the final ending
    if len(attempts) != len(plan):
        if len(attempts) > len(plan):
            bad("attempt-after-final-ending", f"{len(attempts)} attempts for {len(plan)} planned connections: {[(a[0], a[1]) for a in attempts]}", extra=len(attempts) - len(plan))
        else:
            nxt = (list(seq) + [final])[len(attempts) - 1] if attempts else None
            bad("reconnect-missing", f"only {len(attempts)} of {len(plan)} attempts: {[(a[0], a[1]) for a in attempts]}; no attempt after '{nxt}'", after=nxt)
        return
    res.count("final_stop_checked")
    # --- attempt times
    servers = {s.index: s for s in run.servers}
    sleeps = out["sleeps"]
    for k in range(1, len(attempts)):
        prev = seq[k - 1]
        t_attempt = attempts[k][0]
        if prev in ("refused", "reject") or prev in FAIL_KINDS:
            loss = attempts[k - 1][0]
        elif prev in ("eof", "reset") or prev in CUT_LOSSES or prev in TLS_LOSSES:
            loss = servers[k - 1].lost_at
        else:
            loss = None  # ping timeout: detection time is C16's matter
        res.count("reconnect_attempts_checked")
        if loss is not None:
            if abs(t_attempt - (loss + interval)) > 1e-9:
                bad("reconnect-delay", f"attempt {k} at t={t_attempt}, previous connection lost ({prev}) at t={loss}: expected t={loss + interval}", after=prev,
                    delta=round(t_attempt - loss - interval, 6))
        else:
            pings = servers[k - 1].pings
            if pings and not (t_attempt >= pings[0][0] + interval):
                bad("reconnect-delay", f"attempt {k} at t={t_attempt} earlier than first unanswered ping {pings[0][0]} + interval", after=prev)
        # exclusivity
        if attempts[k][2] != 0:
            bad("two-live-transports", f"attempt {k}: {attempts[k][2]} other client transport(s) open at connect time", after=prev)
        if len(attempts[k][3]) > 0 and False:
            pass
    for k in range(len(attempts)):
        if len(attempts[k][3]) > 0:
            # a ping thread from an earlier connection is still alive while the next connection is being made
            bad("ping-thread-overlap", f"attempt {k}: live ping thread(s) {attempts[k][3]} at connect time", after=seq[k - 1] if k else None)
    # --- callbacks
    names = [(t, n, a, ci) for (t, n, a, ci, ac) in run.trace]
    closes = [x for x in names if x[1] == "on_close"]
    if len(closes) != 1 or names[-1][1] != "on_close":
        bad("on_close-before-final-ending", f"on_close calls at {[c[0] for c in closes]}; last callback {names[-1][1] if names else None}", count=len(closes))
    else:
        exp_args = (1000, "done") if final == "server-close" else None
        if final == "server-close-bad-reason" and (len(closes[0][2]) != 2 or closes[0][2][0] != 1000):
            bad("on_close-args", f"on_close{tuple(closes[0][2])!r}, expected code 1000")
        if exp_args and tuple(closes[0][2]) != exp_args:
            bad("on_close-args", f"on_close{tuple(closes[0][2])!r}, expected {exp_args!r}")
    # open/reconnect callbacks: one per established connection, first for it
    established = [i for i, p in enumerate(plan) if p["outcome"] == "ok" and p.get("tls_error") is None and p.get("response") is None]
    opens = [(t, n, ci) for (t, n, a, ci) in names if n in ("on_open", "on_reconnect")]
    exp_opens = []
    for idx, i in enumerate(established):
        first_conn = i == 0
        exp_opens.append("on_open" if (first_conn or not with_reconnect_cb) else "on_reconnect")
    if [n for _, n, _ in opens] != exp_opens:
        bad("open-callbacks", f"open/reconnect callbacks {[n for _, n, _ in opens]}, expected {exp_opens}")
    # messages flow again: every message the servers delivered reached on_message exactly once, in order
    got = [a[0] for (t, n, a, ci) in names if n == "on_message"]
    if run_kwargs.get("skip_utf8_validation"):
        # with validation off the application is handed the raw bytes of text messages (not part of this property)
        got = [g.decode("utf-8") if isinstance(g, bytes) else g for g in got]
    want = [s for (i, s) in msgs_expected]
    if got != want:
        bad("messages-after-reconnect", f"on_message got {got}, expected {want}")
    if final == "own-close" and "too late" in got:
        bad("message-after-own-close", "message delivered after close()")
    # transports / threads gone at the end
    if run.open_transports():
        bad("transport-left-open", f"{len(run.open_transports())} transports open at the end")
    errs = [type(a[0]).__name__ for (t, n, a, ci) in names if n == "on_error"]
    # C14's return-value clause, applied to runs with reconnections (built-in loop): True exactly when an error was reported
    if disp is None and isinstance(run.ret, bool):
        res.count("return_values_checked")
        if run.ret != bool(errs):
            bad("return-value", f"run_forever returned {run.ret!r}; errors reported to on_error during the run: {errs}", got=repr(run.ret), errors=len(errs))
    res.count("on_error_calls_recorded", len(errs))
    res.sample(case, cap=3)


def close_in_sleep_case(res, W, rng, first, interval, disp, frac):
    """connection lost, reconnect sleep starts; the application calls close()
    from another thread at loss + frac*interval: no further attempt may follow."""
    if first == "refused":
        plan = [dict(outcome="refused")]
        loss = 0.0
    else:
        plan = [dict(outcome="ok", script=[(0.2, "frames", text("m")), (0.7, first)], pong=0.05)]
        loss = 0.7
    plan.append(dict(outcome="ok", script=[(0.3, "frames", text("after-close")), (40.0, "close", b"")]))
    t_close = loss + frac * interval
    enabled = ["on_open", "on_message", "on_error", "on_close", "on_reconnect"]
    run, out, failure, S = execute(plan, dict(reconnect=interval), {}, disp, enabled, closer=t_close)
    case = {"scenario": "close-during-reconnect-sleep", "first": first, "interval": interval, "dispatcher": disp or "builtin", "close_at": t_close, "loss_at": loss}
    res.case(("close-in-sleep", first, interval, disp, frac), nontrivial=True)
    res.count("close_in_sleep_runs")

    def bad(kind, detail, **kw):
        res.violation(kind, f"close() at t={t_close} during the reconnect sleep after {first} (interval {interval}, {disp or 'builtin'}): {detail}", case,
                      dispatcher=disp or "builtin", trigger="close-during-reconnect-sleep", **kw)

    if run is None or failure is not None:
        if isinstance(failure, sched.WatchdogExpired):
            res.inconc("watchdog")
            return
        bad("no-return", f"{type(failure).__name__}: {str(failure)[:200]}", how=type(failure).__name__)
        return
    if getattr(run, "dispatch_exc", None) is not None:
        bad("exception-escaped-into-dispatcher", f"{type(run.dispatch_exc).__name__}: {run.dispatch_exc}", exc_type=type(run.dispatch_exc).__name__)
        return
    later = [a for a in run.attempts if a[0] > t_close + 1e-9]
    if later:
        bad("attempt-after-own-close", f"connection attempt(s) at {[a[0] for a in later]} after close() at t={t_close}", extra=len(later))
    names = [n for (t, n, a, ci, ac) in run.trace]
    if names.count("on_close") != 1 or names[-1] != "on_close":
        bad("on_close-count", f"callbacks {names}", count=names.count("on_close"))
    if "after-close" in [a[0] for (t, n, a, ci, ac) in run.trace if n == "on_message"]:
        bad("message-after-own-close", "a message of a connection made after close() was delivered")
    if run.open_transports():
        bad("transport-left-open", f"{len(run.open_transports())} transports open at the end")


def header_source_case(res, W, fail_on, disp):
    calls = {"n": 0}

    def header():
        calls["n"] += 1
        if calls["n"] in fail_on:
            raise RuntimeError("token service unavailable")
        return ["X-Token: t%d" % calls["n"]]
    first_established = 1 not in fail_on
    plan = ([dict(outcome="ok", script=[(0.2, "frames", text("before")), (0.5, "eof")], pong=0.05)] if first_established else []) + \
           [dict(outcome="ok", script=[(0.2, "frames", text("back")), (0.6, "close", b"\x03\xe8done")], pong=0.05)]
    enabled = ["on_open", "on_message", "on_error", "on_close", "on_reconnect"]
    run, out, failure, S = execute(plan, dict(reconnect=1), {}, disp, enabled, app_kwargs=dict(header=header))
    res.case(("header-source", fail_on, disp), nontrivial=True)
    res.count("header_source_runs")
    res.count("runs_with_reconnect")
    case = {"scenario": "header-callable-fails", "failing_calls": fail_on, "dispatcher": disp or "builtin"}

    def bad(kind, detail, **kw):
        res.violation(kind, f"header callable failing on call(s) {fail_on} ({disp or 'builtin'}): {detail}", case, dispatcher=disp or "builtin", final="server-close", **kw)
    if run is None:
        res.inconc(f"header-source case setup: {failure}")
        return
    if failure is not None:
        if isinstance(failure, sched.WatchdogExpired):
            res.inconc("watchdog")
        else:
            bad("no-return", f"{type(failure).__name__}: {str(failure)[:160]}", how=type(failure).__name__)
        return
    dexc = getattr(run, "dispatch_exc", None)
    if dexc is not None:
        bad("exception-escaped-into-dispatcher", f"{type(dexc).__name__}: {dexc}", exc_type=type(dexc).__name__, loss="header-source")
        return
    msgs = [a[0] for (t, n, a, ci, ac) in run.trace if n == "on_message"]
    closes = [a for (t, n, a, ci, ac) in run.trace if n == "on_close"]
    if len(run.attempts) != len(plan) or "back" not in msgs:
        bad("reconnect-missing", f"{len(run.attempts)} connection(s) reached the network for {len(plan)} planned, messages {msgs}, header source called {calls['n']} times: "
            f"no attempt after the one whose header source failed", after="header-source-failed")
        return
    if closes != [(1000, "done")]:
        bad("on_close-before-final-ending", f"on_close calls {closes}", count=len(closes))


def loss_with_ping_unanswered_case(res, W, how, disp, interval):
    # pings every 1 s (first at t=2), timeout 0.4; the peer never answers the first ping and the connection ends 0.1 s after it
    plan = [dict(outcome="ok", script=[(0.2, "frames", text("before")), (2.1, how)], pong=lambda k, t: None),
            dict(outcome="ok", script=[(0.2, "frames", text("back")), (2.6, "close", b"\x03\xe8done")], pong=0.05)]
    enabled = ["on_open", "on_message", "on_error", "on_close", "on_reconnect"]
    run, out, failure, S = execute(plan, dict(reconnect=interval, ping_interval=1, ping_timeout=0.4), {}, disp, enabled)
    res.case(("loss-with-ping-unanswered", how, disp, interval), nontrivial=True)
    res.count("loss_with_ping_unanswered_runs")
    res.count("runs_with_reconnect")
    case = {"scenario": "loss-with-ping-unanswered", "loss": how, "dispatcher": disp or "builtin", "interval": interval}

    def bad(kind, detail, **kw):
        res.violation(kind, f"{how} 0.1 s after an unanswered ping (ping_timeout 0.4, reconnect={interval}, {disp or 'builtin'}): {detail}", case, dispatcher=disp or "builtin",
                      final="server-close", **kw)
    if run is None or failure is not None:
        if run is None or isinstance(failure, sched.WatchdogExpired):
            res.inconc(f"loss-with-ping-unanswered: {failure}")
        else:
            bad("no-return", f"{type(failure).__name__}: {str(failure)[:160]}", how=type(failure).__name__)
        return
    if getattr(run, "dispatch_exc", None) is not None:
        bad("exception-escaped-into-dispatcher", f"{type(run.dispatch_exc).__name__}: {run.dispatch_exc}", exc_type=type(run.dispatch_exc).__name__, loss=how)
        return
    names = [n for (t, n, a, ci, ac) in run.trace]
    if len(run.attempts) != 2 or names.count("on_reconnect") != 1:
        bad("reconnect-missing" if len(run.attempts) < 2 else "attempt-after-final-ending",
            f"{len(run.attempts)} connection attempts at {[round(a[0], 2) for a in run.attempts]} and {names.count('on_reconnect')} on_reconnect calls for one loss (expected 2 and 1)",
            after=how, extra=len(run.attempts) - 2)
        return
    if abs(run.attempts[1][0] - (2.1 + interval)) > 0.05 + (0.5 if disp else 0):
        bad("reconnect-timing", f"second attempt at t={run.attempts[1][0]:.2f}, loss at 2.1, interval {interval}", after=how)
    closes = [a for (t, n, a, ci, ac) in run.trace if n == "on_close"]
    if closes != [(1000, "done")]:
        bad("on_close-before-final-ending", f"on_close calls {closes}", count=len(closes))


def close_after_ping_timeout_case(res, W, disp, frac):
    interval = 1.0
    plan = [dict(outcome="ok", script=[(0.2, "frames", text("m"))], pong=None, answer_close=False),
            dict(outcome="ok", script=[(0.3, "frames", text("after-close")), (40.0, "close", b"")])]
    marks = {}

    def on_error(run, app, e):
        if "loss" in marks:
            return
        S = sched.CURRENT
        marks["loss"] = S.now

        def closer():
            S.sleep(frac * interval)
            marks["close"] = S.now
            app.close()
        S.spawn(closer, name="closer")
    enabled = ["on_open", "on_message", "on_error", "on_close", "on_reconnect"]
    run, out, failure, S = execute(plan, dict(reconnect=interval, ping_interval=1, ping_timeout=0.4), {"on_error": on_error}, disp, enabled)
    res.case(("close-after-ping-timeout", disp, frac), nontrivial=True)
    res.count("close_after_ping_timeout_runs")
    res.count("runs_with_reconnect")
    case = {"scenario": "close-after-ping-timeout", "dispatcher": disp or "builtin", "close_after_loss": frac * interval, "interval": interval}

    def bad(kind, detail, **kw):
        res.violation(kind, f"close() {frac * interval:.1f}s into the reconnect interval ({interval}s) that follows a ping timeout against a mute peer ({disp or 'builtin'}): {detail}", case,
                      dispatcher=disp or "builtin", trigger="close-during-reconnect-sleep", **kw)
    if run is None or failure is not None:
        if run is None or isinstance(failure, sched.WatchdogExpired):
            res.inconc(f"close-after-ping-timeout: {failure}")
        else:
            bad("no-return", f"{type(failure).__name__}: {str(failure)[:200]}", how=type(failure).__name__)
        return
    if "close" not in marks:
        res.inconc("close-after-ping-timeout: the ping timeout was never reported, close() never called")
        return
    later = [a for a in run.attempts if a[0] > marks["close"] + 1e-9]
    if later:
        bad("attempt-after-own-close", f"connection attempt(s) at {[round(a[0], 2) for a in later]} after close() at t={marks['close']:.2f}", extra=len(later))
    names = [n for (t, n, a, ci, ac) in run.trace]
    if names.count("on_close") != 1 or names[-1] != "on_close":
        bad("on_close-count", f"callbacks {names}", count=names.count("on_close"))


def open_callback_reads_case(res, W, how, with_rc, disp):
    plan = [dict(outcome="ok", script=[(0.3, how)], pong=0.05),
            dict(outcome="ok", script=[(0.1, "frames", text("welcome")), (0.4, "frames", text("tick")), (0.9, "close", b"\x03\xe8done")], pong=0.05)]
    log = []

    def login(run, app, *a):
        try:
            app.send("login")
            log.append(("ack", app.sock.recv()))
        except Exception as e:  # noqa
            log.append(("no-ack", type(e).__name__))
    hooks = {"on_open": login}
    if with_rc:
        hooks["on_reconnect"] = login
    enabled = ["on_open", "on_message", "on_error", "on_close"] + (["on_reconnect"] if with_rc else [])
    run, out, failure, S = execute(plan, dict(reconnect=1), hooks, disp, enabled)
    res.case(("open-callback-reads", how, with_rc, disp), nontrivial=True)
    res.count("open_callback_reads_runs")
    res.count("runs_with_reconnect")
    case = {"scenario": "open-callback-reads-from-the-connection", "loss": how, "on_reconnect_given": with_rc, "dispatcher": disp or "builtin"}

    def bad(kind, detail, **kw):
        res.violation(kind, f"the open callback reads from the connection and the connection is lost there ({how}; {disp or 'builtin'}; on_reconnect {'given' if with_rc else 'not given'}): "
                      f"{detail}", case, dispatcher=disp or "builtin", final="server-close", **kw)
    if run is None:
        res.inconc(f"open-callback-reads case setup: {failure}")
        return
    if failure is not None:
        if isinstance(failure, sched.WatchdogExpired):
            res.inconc("watchdog")
        else:
            bad("no-return", f"{type(failure).__name__}: {str(failure)[:160]}", how=type(failure).__name__)
        return
    dexc = getattr(run, "dispatch_exc", None)
    if dexc is not None:
        bad("exception-escaped-into-dispatcher", f"{type(dexc).__name__}: {dexc}", exc_type=type(dexc).__name__, loss="open-callback-reads")
        return
    msgs = [a[0] for (t, n, a, ci, ac) in run.trace if n == "on_message"]
    closes = [a for (t, n, a, ci, ac) in run.trace if n == "on_close"]
    if len(run.attempts) != 2 or ("ack", "welcome") not in log:
        bad("reconnect-missing", f"{len(run.attempts)} connection(s) reached the network for 2 planned; the callback's own reads: {log}; messages {msgs}; on_close calls {closes}",
            after="loss-inside-open-callback")
        return
    if closes != [(1000, "done")]:
        bad("on_close-before-final-ending", f"on_close calls {closes}", count=len(closes))


def inflight_ping_case(res, W, delay, interval, how):
    # pings every 0.3 s (the first after 0.6 s); each write takes `delay`; the connection ends at t=0.7 with a ping in flight
    plan = [dict(outcome="ok", script=[(0.2, "frames", text("before")), (0.7, how)], pong=0.05, send_delay=delay),
            dict(outcome="ok", script=[(0.2, "frames", text("back")), (3.2, "close", b"\x03\xe8done")], pong=0.05)]
    enabled = ["on_open", "on_message", "on_error", "on_close", "on_reconnect"]
    run, out, failure, S = execute(plan, dict(reconnect=interval, ping_interval=0.3), {}, None, enabled)
    res.case(("inflight-ping", delay, interval, how), nontrivial=True)
    res.count("inflight_ping_runs")
    res.count("runs_with_reconnect")
    case = {"scenario": "loss-with-ping-in-flight", "write_takes": delay, "interval": interval, "loss": how}

    def bad(kind, detail, **kw):
        res.violation(kind, f"loss ({how}) with a keepalive ping in flight (each write takes {delay}s, reconnect={interval}): {detail}", case, dispatcher="builtin",
                      final="server-close", **kw)
    if run is None or failure is not None:
        if isinstance(failure, sched.WatchdogExpired) or run is None:
            res.inconc(f"inflight-ping case: {failure}")
        else:
            bad("no-return", f"{type(failure).__name__}: {str(failure)[:160]}", how=type(failure).__name__)
        return
    if len(run.attempts) != 2:
        bad("reconnect-missing" if len(run.attempts) < 2 else "attempt-after-final-ending", f"{len(run.attempts)} attempts, expected 2: {[(a[0], a[1]) for a in run.attempts]}",
            after=how, extra=len(run.attempts) - 2)
        return
    if run.attempts[1][3] and delay <= 3:
        bad("ping-thread-overlap", f"attempt 1 at t={run.attempts[1][0]}: live ping thread(s) {run.attempts[1][3]} at connect time", after=how)
        return
    if run.attempts[1][3]:
        # a thread blocked inside a transport write for longer than the library is prepared to wait for it cannot be stopped from outside:
        # what is judged is that it does nothing any more once the write returns (no pings on the new connection, gone at the end)
        res.count("reconnects_with_old_ping_thread_still_blocked_in_a_write")
    # one ping thread with ping_interval=0.3 sends at most one ping per 0.3 s on the new connection
    srv = [s_ for s_ in run.servers if s_.index == 1]
    if srv:
        life = (srv[0].close_frame_at or out["end"]) - srv[0].opened_at
        npings = len(srv[0].pings)
        res.count("pings_on_reconnected_connection", npings)
        if npings > life / 0.3 + 1:
            bad("ping-thread-overlap", f"{npings} pings in {life:.2f}s on the re-established connection (one thread sends at most {int(life / 0.3) + 1})", after=how)
            return
        if npings < life / 0.3 - 3:
            bad("keepalive-missing-after-reconnect", f"only {npings} pings in {life:.2f}s on the re-established connection (ping_interval 0.3): its keepalive never started "
                f"properly while the lost connection's ping thread was still blocked in a write", after=how)
            return
    if getattr(run, "live_at_return", None) and delay < 10:
        bad("ping-thread-overlap", f"ping thread(s) {run.live_at_return} alive after the run", after="end")


def outage_case(res, W, n_failures, disp):
    """service is down for a long time (every attempt refused), then comes back: the client must still be trying"""
    plan = [dict(outcome="ok", script=[(0.2, "frames", text("before")), (0.5, "eof")])] + [dict(outcome="refused")] * n_failures
    plan.append(dict(outcome="ok", script=[(0.2, "frames", text("back")), (0.6, "close", b"\x03\xe8done")]))
    enabled = ["on_open", "on_message", "on_error", "on_close", "on_reconnect"]
    old_h = HORIZON
    out = {}

    def scen():
        H.reset_process_state()
        run = appsim.AppRun(plan, callbacks=enabled, last_repeats=False)
        out["run"] = run
        kw = dict(reconnect=0.5)
        rel = None
        if disp == "rel":
            rel = appsim.SimRel()
            kw["dispatcher"] = rel
        run.run_forever(**kw)
        if rel is not None:
            try:
                rel.dispatch(horizon=n_failures + 100)
            except sched.SimAbort:
                raise
            except BaseException as e:  # noqa
                run.dispatch_exc = e
    S = sched.Sched(horizon=n_failures + 200, watchdog=120)
    failure = None
    try:
        S.run(scen)
    except sched.SimFailure as e:
        failure = e
    run = out.get("run")
    res.case(("outage", n_failures, disp), nontrivial=True)
    res.count("outage_runs")
    res.count("runs_with_reconnect")
    case = {"scenario": "long-outage", "failed_attempts": n_failures, "dispatcher": disp or "builtin"}

    def bad(kind, detail, **kw):
        res.violation(kind, f"outage of {n_failures} refused attempts ({disp or 'builtin'}): {detail}", case, dispatcher=disp or "builtin", final="server-close", **kw)
    if run is None:
        res.inconc(f"outage case setup: {failure}")
        return
    if getattr(run, "dispatch_exc", None) is not None:
        bad("exception-escaped-into-dispatcher", f"{type(run.dispatch_exc).__name__}: {str(run.dispatch_exc)[:100]}", exc_type=type(run.dispatch_exc).__name__)
        return
    if failure is not None and not isinstance(failure, sched.WatchdogExpired):
        bad("no-return", f"{type(failure).__name__}: {str(failure)[:160]}", how=type(failure).__name__)
        return
    if isinstance(failure, sched.WatchdogExpired):
        res.inconc("watchdog in outage case")
        return
    res.count("reconnect_attempts_checked", len(run.attempts))
    if len(run.attempts) != len(plan):
        bad("reconnect-missing", f"{len(run.attempts)} of {len(plan)} attempts were made; the last at t={run.attempts[-1][0] if run.attempts else None}", after="refused",
            attempts=len(run.attempts))
        return
    msgs = [a[0] for (t, n, a, ci, ac) in run.trace if n == "on_message"]
    names = [n for (t, n, a, ci, ac) in run.trace]
    if msgs != ["before", "back"] or names.count("on_reconnect") != 1 or names.count("on_close") != 1 or names[-1] != "on_close":
        bad("messages-after-reconnect", f"messages {msgs}, callbacks {names[-6:]}")
