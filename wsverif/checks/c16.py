"""C16 - keepalive pings detect a silent peer in bounded time and never a
responsive one."""
from __future__ import annotations

import math
import random

from .. import appsim
from .. import harness as H
from ..ref import rfc6455 as R
from ..sim import sched, shim

SHARDS = {"quick": 16, "thorough": 16}
META = {
    "level": "exploration",
    "technique": "runtime monitoring in virtual time under a deterministic scheduler: the simulated peer records the virtual time at which every ping arrives and answers per a latency pattern; the oracle checks ping period and payload, the detection-latency bound for a peer that falls silent, absence of a timeout report for a responsive peer under concurrent traffic, and refusal of inconsistent settings before any connection attempt; both thread orders at equal timestamps are executed",
    "claim": "On the grid interval in {1.1,1.5,1.9,2,2.5,3,5,10} x timeout, timeout in {0.5,1,2,3}, with the loop's select phase shifted in steps of timeout/16 (plus irrational offsets) by data traffic, pong latencies 0 / eps / timeout/2 / timeout-eps / never-from-the-k-th-ping, bursty and periodic data traffic, and both orders of ping thread and loop at equal timestamps: pings carried the configured payload with period exactly `interval` and none was sent after the run ended; a peer silent from ping P on was reported as 'ping/pong timed out' no later than P + 2 x timeout; a peer answering within the timeout was never reported over >= 20 intervals; settings with timeout <= 0, interval < 0 or interval <= timeout raised WebSocketException with zero connection attempts.",
    "trusted": "virtual clock (zero processing time); scheduler tie-breaking strategies; simulated peer's ping log",
    "rule": "case = (interval, timeout, phase offset, latency pattern, traffic pattern, tie order); distinct by that tuple; non-trivial when at least one ping reached the peer",
    "exhaustive": {"quick": False, "thorough": False},
    "bounds": "late answers (latency > timeout) are recorded, not judged; real-time processing delays are outside virtual time",
    "required_counters": ["silent_peer_runs", "responsive_peer_runs", "ping_periods_checked", "refused_settings_checked"],
    "assumptions": [],
}
META["claim"] += " " + 'Also: pings without a ping_timeout against silent and slow peers, keepalive on re-established connections and in a second run, seeded random interleavings of ping thread and loop for a promptly answering peer, and supervision through an external dispatcher.'
META["claim"] += " " + 'Round 4: a process-wide default socket timeout below / above the ping timeout; an on_pong handler that takes longer than the ping timeout.'
META["claim"] += " " + 'Round 5: a fragmented message straddling every ping/pong exchange; a key source that fails once in the ping thread (the following pings still go out).'
META["claim"] += " " + 'Rounds 6-7: peers that ping but never pong, pongs just before each ping, unsolicited pongs; bytes / bytearray / memoryview payloads; an open callback still running when the first ping leaves.'
META["claim"] += " " + 'Round 8: a first connection that ends with a ping outstanding, then a silent peer.'

RATIOS = [1.1, 1.5, 1.9, 2, 2.5, 3, 5, 10]
TIMEOUTS = [0.5, 1, 2, 3]


class PingFirst(sched.Strategy):
    """At equal timestamps prefer library threads (ping thread) over the loop."""

    def choose(self, S, me, cands, kind):
        if me in cands and kind != "block":
            return me
        lib = [c for c in cands if getattr(c, "is_lib_thread", False)]
        return lib[0] if lib else (me if me in cands else cands[0])


def text(s):
    return R.encode(R.TEXT, s.encode())


def run(res, tier, seed, shard, nshards):
    W = H.ws()
    shim.install()
    H.scrub_env()
    rng = random.Random((seed << 8) ^ shard ^ 0xC16)
    quick = tier == "quick"
    jobs = []
    phases_n = 4 if quick else 16
    for to in TIMEOUTS:
        for ratio in RATIOS:
            interval = round(ratio * to, 6)
            for pi in range(phases_n):
                phase = to * pi / phases_n + (0.0 if pi % 2 == 0 else math.sqrt(2) / 1000)
                for silent_from in ((0, 2) if quick else (0, 1, 2, 5)):
                    for traffic in (("none", "periodic") if quick else ("none", "periodic", "bursty", "near-timeout")):
                        jobs.append(("silent", interval, to, phase, silent_from, traffic))
                for latency in (("zero", "half", "almost") if quick else ("zero", "eps", "half", "almost", "exact")):
                    for traffic in (("none", "periodic") if quick else ("none", "periodic", "bursty", "near-timeout")):
                        jobs.append(("responsive", interval, to, phase, latency, traffic))
    # a process-wide default socket timeout (websocket.setdefaulttimeout) smaller / larger than the ping timeout
    for interval, to in ((1.0, 0.4), (0.5, 0.25), (3.0, 1.0), (2.0, 0.9)):
        for T in (round(to / 2, 6), round(3 * to, 6), round(8 * to + 0.1, 6)):
            for silent_from in (0, 2):
                jobs.append(("silent-dt", interval, to, 0.0, silent_from, "none", T))
            jobs.append(("responsive-dt", interval, to, 0.0, "half", "periodic", T))
    # a silent peer (no pong ever) that keeps pinging / sends pongs at the wrong moments is still a silent peer
    for interval, to in ((1.0, 0.4), (2.0, 0.5), (3.0, 1.0), (0.55, 0.5)):
        for silent_from in (0, 2):
            for traffic in ("server-pings", "server-pongs-early"):
                jobs.append(("silent", interval, to, 0.0, silent_from, traffic))
    # unsolicited pongs from a peer that answers every ping
    for interval, to in ((1.0, 0.4), (2.0, 0.5), (3.0, 1.0)):
        for latency in ("zero", "half"):
            jobs.append(("responsive", interval, to, 0.0, latency, "unsolicited-pongs"))
    # a fragmented message straddling every ping/pong exchange
    for interval, to in ((1.0, 0.4), (2.0, 0.5), (3.0, 1.0), (0.6, 0.25)):
        for latency in ("zero", "eps", "half"):
            jobs.append(("responsive", interval, to, 0.0, latency, "fragments-straddle-pings"))
    # an on_pong handler that takes longer than the ping timeout (but is done before the next ping is due): the pong it is
    # handling arrived in time.  (Handlers of *other* events that block the loop past the timeout while a pong waits unread
    # are outside the statement's quantifier and not driven: the unchanged code reports a timeout there.)
    for interval, to in ((1.0, 0.4), (2.0, 0.5), (3.0, 1.0)):
        for latency in ("zero", "half"):
            for traffic in ("none", "periodic"):
                jobs.append(("responsive-slow", interval, to, 0.0, latency, traffic, ("on_pong", round((to + interval) / 2 - to / 4, 6))))
    # a silent peer and an open callback that is still running when the first ping leaves (it returns at most half a timeout later)
    for interval, to in ((1.0, 0.6), (2.0, 0.5), (3.0, 1.0), (1.0, 0.4), (0.6, 0.25)):
        for k in (1, 2):
            for frac in (0.1, 0.5):
                jobs.append(("silent-slow-open", interval, to, round(k * interval + frac * to, 6)))
    # refused settings
    for pi_, pt_ in [(1, 0), (1, -1), (-1, 1), (-1, None), (1, 1), (1, 2), (0.5, 0.5), (2, 2.0), (0.1, 100), (5, -0.001), (-0.001, None)]:
        jobs.append(("refused", pi_, pt_))
    for pi_, pt_ in [(0, 5), (3, None), (3, 1), (0, None), (None, None), (None, 1)]:
        jobs.append(("accepted", pi_, pt_))
    jobs.append(("payload", 1.5, 1))
    jobs.append(("payload", 2.0, None))
    jobs.append(("stop-after-end", 1.0, 0.4))
    for interval in (0.5, 1.0, 2.5):
        for behaviour in ("silent", "slow-1.5x", "slow-3.2x", "prompt"):
            for to in (None, interval * 0.4):
                jobs.append(("periodic", interval, to, behaviour))
    for interval, to in ((1.0, 0.4), (2.0, 0.5), (0.6, 0.25)):
        for first in ("eof", "server-close-then-second-run", "refused-then-ok", "eof-with-ping-outstanding", "reset-with-ping-outstanding"):
            jobs.append(("second-use", interval, to, first))
    for interval, to in ((1.0, 0.4), (2.0, 0.9), (3.0, 1.0)):
        for lat in (0.0, 1e-3, to / 2):
            for traffic in ("none", "periodic"):
                jobs.append(("interleave", interval, to, lat, traffic))
    for interval, to in ((1.0, 0.4), (3.0, 1.0), (2.0, 0.9)):
        for silent_from in (0, 1, 3):
            for traffic in ("none", "periodic"):
                jobs.append(("rel-silent", interval, to, silent_from, traffic))
        jobs.append(("rel-responsive", interval, to))
    for ji, job in enumerate(jobs):
        if ji % nshards != shard:
            continue
        if job[0] in ("rel-silent", "rel-responsive"):
            rel_case(res, W, rng, job)
            continue
        if job[0] == "second-use":
            second_use_case(res, W, rng, *job[1:])
            continue
        if job[0] == "interleave":
            interleave_case(res, W, rng, *job[1:], n=(12 if quick else 150), seed=seed * 1000 + ji)
            continue
        if job[0] in ("silent", "responsive") and ji % 3 == 0:
            with H.ambient((ji, "C16"), res, dims=("app",)):
                for tie in ("loop-first", "ping-first"):
                    (silent_case if job[0] == "silent" else responsive_case)(res, W, rng, *job[1:], tie=tie)
            continue
        if job[0] == "silent-slow-open":
            for tie in ("loop-first", "ping-first"):
                silent_case(res, W, rng, job[1], job[2], 0.0, 0, "none", tie=tie, slow_open=job[3])
            continue
        if job[0] == "silent-dt":
            for tie in ("loop-first", "ping-first"):
                silent_case(res, W, rng, *job[1:6], tie=tie, default_timeout=job[6])
        elif job[0] == "responsive-dt":
            responsive_case(res, W, rng, *job[1:6], tie="loop-first", default_timeout=job[6])
        elif job[0] == "responsive-slow":
            for tie in ("loop-first", "ping-first"):
                responsive_case(res, W, rng, *job[1:6], tie=tie, slow_handler=job[6])
        elif job[0] == "silent":
            for tie in ("loop-first", "ping-first"):
                silent_case(res, W, rng, *job[1:], tie=tie)
        elif job[0] == "responsive":
            for tie in ("loop-first", "ping-first"):
                responsive_case(res, W, rng, *job[1:], tie=tie)
        elif job[0] in ("refused", "accepted"):
            settings_case(res, W, job[0], job[1], job[2])
        elif job[0] == "payload":
            payload_case(res, W, rng, job[1], job[2])
        elif job[0] == "periodic":
            periodic_case(res, W, rng, job[1], job[2], job[3])
        else:
            stop_case(res, W, rng, job[1], job[2])


def traffic_script(kind, phase, to, interval, until):
    script = [(phase, "frames", text("phase"))] if phase > 0 else []
    t = phase
    if kind == "periodic":
        step = to * 0.7
        while t < until:
            t += step
            script.append((t, "frames", text("d")))
    elif kind == "bursty":
        t = phase + interval
        while t < until:
            script.append((t, "frames", text("b1") + text("b2") + R.encode(R.BINARY, b"b3")))
            t += interval * 1.37
    elif kind == "near-timeout":
        while t < until:
            t += to * 0.999
            script.append((t, "frames", text("n")))
    elif kind == "server-pings":
        # the peer runs a keepalive of its own (PING frames, which the client answers) but never answers the client's pings
        step = to * 0.45
        while t < until:
            t += step
            script.append((t, "frames", R.encode(R.PING, b"srv-keepalive")))
    elif kind == "server-pongs-early":
        # unsolicited pongs just *before* each client ping is due: they answer nothing
        k = 2
        while k * interval < until:
            script.append((k * interval - min(0.01, to / 20), "frames", R.encode(R.PONG, b"")))
            k += 1
    return script


def execute(plan, run_kwargs, tie, horizon, strategy=None, second_run_kwargs=None, reconnect=None, default_timeout=None, hooks=None, app_kwargs=None):
    out = {}

    def scen():
        H.reset_process_state()
        if default_timeout is not None:
            # a process-wide default socket timeout, set by the application for whatever reason
            H.ws().setdefaulttimeout(default_timeout)
        run = appsim.AppRun(plan, last_repeats=False, hooks=hooks, app_kwargs=app_kwargs)
        out["run"] = run
        kw = dict(run_kwargs)
        if reconnect:
            kw["reconnect"] = reconnect
        run.run_forever(**kw)
        out["end"] = sched.CURRENT.now
        if second_run_kwargs is not None:
            out["first_trace_len"] = len(run.trace)
            run.run_forever(**second_run_kwargs)
            out["end2"] = sched.CURRENT.now
        return run

    S = sched.Sched(strategy=strategy or (PingFirst() if tie == "ping-first" else sched.NonPreemptive()), horizon=horizon, watchdog=60)
    failure = None
    try:
        S.run(scen)
    except sched.SimFailure as e:
        failure = e
    finally:
        if default_timeout is not None:
            H.ws().setdefaulttimeout(None)
    return out.get("run"), out, failure, S


def check_pings(res, bad, srv, interval, payload, end):
    pings = srv.pings
    for (t, p) in pings:
        if p != payload:
            bad("ping-payload", f"ping at t={t} carried {p!r}, configured {payload!r}")
            return
    gaps = [round(b[0] - a[0], 9) for a, b in zip(pings, pings[1:])]
    for g in gaps:
        res.count("ping_periods_checked")
        if abs(g - interval) > 1e-6:
            bad("ping-period", f"ping gaps {gaps[:6]} (interval {interval})")
            return
    if pings and pings[0][0] - srv.opened_at > 2 * interval + 1e-6:
        bad("first-ping-late", f"first ping at t={pings[0][0]}, connection opened at {srv.opened_at}, interval {interval}")
    # as long as the connection was up pings must keep coming
    if end is not None and pings and end - pings[-1][0] > interval + 1e-6:
        bad("pings-stopped-early", f"last ping at t={pings[-1][0]}, connection up until t={end}, interval {interval}")
    if end is not None and not pings and end - srv.opened_at > 2 * interval + 1e-6:
        bad("no-pings", f"no ping within {end - srv.opened_at}s, interval {interval}")


def silent_case(res, W, rng, interval, to, phase, silent_from, traffic, tie, default_timeout=None, slow_open=None):
    horizon = 40 * interval + 100
    until = (silent_from + 2) * interval + 6 * to + 10
    script = traffic_script(traffic, phase, to, interval, until)
    plan = [dict(outcome="ok", script=script, pong=lambda k, t: (0.0 if k < silent_from else None))]
    hooks = None
    if slow_open:
        # the open callback takes a while (it ends after the first ping has left, but well before that ping's answer is overdue)
        hooks = {"on_open": lambda run_, app_, *a: sched.CURRENT.sleep(slow_open)}
        res.count("silent_peer_runs_with_slow_open_callback")
    run, out, failure, S = execute(plan, dict(ping_interval=interval, ping_timeout=to, ping_payload="ka"), tie, horizon, default_timeout=default_timeout, hooks=hooks)
    case = {"kind": "silent", "interval": interval, "timeout": to, "phase": phase, "silent_from_ping": silent_from, "traffic": traffic, "tie": tie,
            "default_socket_timeout": default_timeout, "open_callback_takes": slow_open}
    if default_timeout is not None:
        res.count("silent_peer_runs_with_default_socket_timeout")
    cls = "interval<2*timeout" if interval < 2 * to - 1e-9 else "interval>=2*timeout"
    res.case(("silent", interval, to, phase, silent_from, traffic, tie, default_timeout), nontrivial=True)
    res.count("pings_observed_at_peer", len(run.servers[0].pings) if run and run.servers else 0)
    res.count("silent_peer_runs")

    def bad(kind, detail, **kw):
        res.violation(kind, f"silent peer interval={interval} timeout={to} phase={phase:.4f} silent_from={silent_from} traffic={traffic} tie={tie}: {detail}",
                      case, settings_class=cls, traffic=traffic, **kw)

    if run is None or not run.servers:
        res.inconc(f"silent case did not connect: {failure}")
        return
    srv = run.servers[0]
    errs = [(t, a[0]) for (t, n, a, ci, ac) in run.trace if n == "on_error"]
    touts = [(t, e) for t, e in errs if isinstance(e, W.WebSocketTimeoutException) and "ping/pong timed out" in str(e)]
    if len(srv.pings) <= silent_from:
        if failure is None:
            bad("no-ping-reached-peer", f"only {len(srv.pings)} pings arrived; errors {errs}")
        else:
            bad("never-detected", f"{type(failure).__name__}; only {len(srv.pings)} pings", detected=False)
        return
    P = srv.pings[silent_from][0]
    bound = P + 2 * to
    if not touts:
        bad("never-detected", f"first unanswered ping at t={P}; no ping/pong timeout reported before t={out.get('end', horizon)} ({type(failure).__name__ if failure else 'run ended'}); errors {[(t, type(e).__name__) for t, e in errs]}",
            detected=False)
        return
    t_err = touts[0][0]
    res.count("detection_latency_checked")
    if t_err > bound + 1e-6:
        bad("detected-late", f"first unanswered ping at t={P}, reported at t={t_err}: {t_err - P:.3f}s > 2*timeout={2 * to}", detected=True, lateness=round(t_err - bound, 3))
    if t_err < P + to - 1e-6:
        # reported before the timeout could have elapsed for ping P: then it must be about an earlier, answered ping -> false alarm
        bad("reported-too-early", f"first unanswered ping at t={P}, timeout reported at t={t_err} < P + timeout")
    check_pings(res, bad, srv, interval, b"ka", None)
    after = [t for (t, p) in srv.pings if t > out.get("end", 1e18) + 1e-9]
    if after:
        bad("ping-after-end", f"pings at {after} after the run ended at {out.get('end')}")
    res.sample(case, cap=2)


def responsive_case(res, W, rng, interval, to, phase, latency, traffic, tie, slow_handler=None, default_timeout=None):
    eps = 1e-3
    lat = {"zero": 0.0, "eps": eps, "half": to / 2, "almost": to - eps, "exact": to}[latency]
    dur = 22 * interval
    if traffic == "unsolicited-pongs":
        # the peer also sends pongs nobody asked for (a one-way heartbeat, RFC 6455 5.5.3), at moments later than one timeout after
        # the latest ping: every ping is still answered at once
        script = []
        for k in range(2, 22):
            tp = k * interval
            if interval > 1.6 * to:
                script.append((tp + 1.3 * to, "frames", R.encode(R.PONG, b"heartbeat")))
        script.append((dur, "close", b"\x03\xe8"))
    elif traffic == "fragments-straddle-pings":
        # a fragmented message around every keepalive exchange: its first fragment arrives just before the ping goes out, its last one
        # after the pong (but before the timeout would expire) - the pong is read in the middle of one message-level receive
        script = []
        for k in range(2, 22):
            tp = k * interval
            script.append((tp - min(0.05, to / 10), "frames", R.encode(R.TEXT, b"first-", fin=0)))
            script.append((tp + lat + (to - lat) / 2, "frames", R.encode(R.CONT, b"last")))
        script.append((dur, "close", b"\x03\xe8"))
    else:
        script = traffic_script(traffic, phase, to, interval, dur) + [(dur, "close", b"\x03\xe8")]
    plan = [dict(outcome="ok", script=script, pong=lat)]
    hooks = None
    if slow_handler:
        # the application's own handler takes its time (longer than the ping timeout, shorter than the interval)
        name, secs = slow_handler
        hooks = {name: (lambda run_, app, *a: sched.CURRENT.sleep(secs))}
        res.count("responsive_peer_runs_with_slow_handler")
    run, out, failure, S = execute(plan, dict(ping_interval=interval, ping_timeout=to, ping_payload="ka"), tie, dur + 100, hooks=hooks, default_timeout=default_timeout)
    case = {"kind": "responsive", "interval": interval, "timeout": to, "phase": phase, "latency": lat, "traffic": traffic, "tie": tie, "slow_handler": slow_handler,
            "default_socket_timeout": default_timeout}
    res.case(("responsive", interval, to, phase, latency, traffic, tie, slow_handler, default_timeout), nontrivial=True)
    res.count("pings_observed_at_peer", len(run.servers[0].pings) if run and run.servers else 0)
    res.count("responsive_peer_runs")

    def bad(kind, detail, **kw):
        res.violation(kind, f"responsive peer interval={interval} timeout={to} phase={phase:.4f} latency={lat} traffic={traffic} tie={tie}: {detail}",
                      case, latency_class=latency, traffic=traffic, **kw)

    if run is None or not run.servers:
        res.inconc(f"responsive case did not connect: {failure}")
        return
    if failure is not None:
        bad("no-return", f"{type(failure).__name__}: {failure}")
        return
    srv = run.servers[0]
    errs = [(t, a[0]) for (t, n, a, ci, ac) in run.trace if n == "on_error"]
    if errs:
        t, e = errs[0]
        bad("responsive-peer-reported", f"on_error({type(e).__name__}: {e}) at t={t}; pings at {[p[0] for p in srv.pings][:5]}.., every pong after {lat}s",
            error=type(e).__name__)
        return
    end = out.get("end")
    if end is None or end < dur - 1e-6:
        bad("ended-early", f"run ended at t={end}, server closes at t={dur}")
        return
    if len(srv.pings) < 19:
        bad("too-few-pings", f"{len(srv.pings)} pings in {dur}s with interval {interval}")
    check_pings(res, bad, srv, interval, b"ka", dur)
    pongs = [a[0] for (t, n, a, ci, ac) in run.trace if n == "on_pong"]
    if len(pongs) < len(srv.pings) - 1:
        bad("pongs-not-delivered", f"{len(pongs)} on_pong calls for {len(srv.pings)} pings")
    after = [t for (t, p) in srv.pings if t > end + 1e-9]
    if after:
        bad("ping-after-end", f"pings at {after} after the run ended at {end}")
    if run.live_ping_actors():
        bad("ping-thread-alive", "ping thread alive after the run")


def settings_case(res, W, kind, pi_, pt_):
    out = {}

    def scen():
        H.reset_process_state()
        run = appsim.AppRun([dict(outcome="ok", script=[(0.5, "close", b"")])], last_repeats=False)
        out["run"] = run
        run.build()
        try:
            kw = {}
            if pi_ is not None:
                kw["ping_interval"] = pi_
            kw["ping_timeout"] = pt_
            out["ret"] = run.app.run_forever(**kw)
        except BaseException as e:  # noqa
            if isinstance(e, sched.SimAbort):
                raise
            out["exc"] = e

    S = sched.Sched(horizon=200, watchdog=30)
    try:
        S.run(scen)
    except sched.SimFailure as e:
        out["failure"] = e
    run = out["run"]
    res.case(("settings", kind, pi_, pt_), nontrivial=True)
    res.count("refused_settings_checked" if kind == "refused" else "accepted_settings_checked")
    case = {"kind": kind, "ping_interval": pi_, "ping_timeout": pt_}
    exc = out.get("exc")
    if kind == "refused":
        if not isinstance(exc, W.WebSocketException):
            res.violation("inconsistent-settings-accepted", f"ping_interval={pi_} ping_timeout={pt_}: {('raised ' + type(exc).__name__) if exc else 'run_forever returned ' + repr(out.get('ret'))}", case)
        elif run.attempts:
            res.violation("connection-before-refusal", f"ping_interval={pi_} ping_timeout={pt_}: {len(run.attempts)} connection attempts before the refusal", case)
    else:
        if exc is not None or "failure" in out:
            res.violation("consistent-settings-refused", f"ping_interval={pi_} ping_timeout={pt_}: {exc!r} {out.get('failure')}", case)


def payload_case(res, W, rng, interval, to):
    # str and every bytes-like kind of payload
    for payload in ("", "hello", "ünï€", "x" * 125, b"raw\x00\xff", bytearray(b"mutable"), memoryview(b"view-of-bytes")) + (("key-source-hiccup",) if not to else ()):
        dur = 6 * interval
        plan = [dict(outcome="ok", script=[(dur, "close", b"")], pong=0.0)]
        kw = dict(ping_interval=interval, ping_payload=payload)
        if to:
            kw["ping_timeout"] = to
        app_kwargs = None
        if payload == "key-source-hiccup":
            # the application's mask-key source fails once (an entropy source hiccup): that ping is lost, the following ones go out on schedule
            st = {"n": 0}

            def key(n, st=st):
                st["n"] += 1
                if st["n"] == 1:
                    raise RuntimeError("entropy source not ready")
                return b"\x0a\x0b\x0c\x0d"[:n]
            app_kwargs = dict(get_mask_key=key)
        run, out, failure, S = execute(plan, kw, "loop-first", dur + 50, app_kwargs=app_kwargs)
        res.case(("payload", interval, to, payload), nontrivial=True)
        case = {"kind": "payload", "payload": payload, "interval": interval, "timeout": to}

        def bad(kind, detail, **kw_):
            res.violation(kind, f"payload {payload!r} interval={interval} timeout={to}: {detail}", case, **kw_)
        if failure is not None or not run.servers:
            bad("no-return", str(failure))
            continue
        if payload == "key-source-hiccup":
            pings = run.servers[0].pings
            res.count("key_source_hiccup_runs")
            if len(pings) < 3:
                bad("pings-stopped-early", f"after one failing ping (key source raised once) only {len(pings)} pings reached the peer in {dur}s (interval {interval}): "
                    f"{[p[0] for p in pings]}")
            else:
                check_pings(res, bad, type("S", (), {"pings": pings, "opened_at": interval})(), interval, payload.encode("utf-8"), dur)
        else:
            check_pings(res, bad, run.servers[0], interval, payload.encode("utf-8") if isinstance(payload, str) else bytes(payload), dur)
            if not run.servers[0].pings:
                bad("no-pings", f"no ping reached the peer in {dur}s")
        res.count("payload_runs")
        res.count("payload_kind:" + type(payload).__name__)


def stop_case(res, W, rng, interval, to):
    """pings stop when the connection ends, however it ends"""
    for ending in ("server-close", "eof", "own-close"):
        if ending == "own-close":
            script = [(3.3 * interval, "frames", text("bye"))]
            hooks = {"on_message": lambda run, app, m: app.close()}
        else:
            script = [(3.3 * interval, "close", b"") if ending == "server-close" else (3.3 * interval, "eof")]
            hooks = {}
        out = {}

        def scen():
            S = sched.CURRENT
            H.reset_process_state()
            run = appsim.AppRun([dict(outcome="ok", script=script, pong=0.0)], hooks=hooks, last_repeats=False)
            out["run"] = run
            run.run_forever(ping_interval=interval, ping_timeout=to)
            out["end"] = S.now
            S.sleep(10 * interval)  # give a stray ping thread every chance to fire
            out["live"] = run.live_ping_actors()

        S = sched.Sched(horizon=300, watchdog=30)
        failure = None
        try:
            S.run(scen)
        except sched.SimFailure as e:
            failure = e
        run = out["run"]
        res.case(("stop", ending, interval, to), nontrivial=True)
        res.count("stop_runs")
        case = {"kind": "stop-after-end", "ending": ending, "interval": interval, "timeout": to}
        if failure is not None:
            res.violation("no-return", f"stop case {ending}: {failure}", case)
            continue
        srv = run.servers[0]
        wrote_after = [(t, f.opcode) for (t, f) in srv.client_frames if t > out["end"] + 1e-9]
        if wrote_after or out.get("live"):
            res.violation("ping-after-end", f"ending {ending}: frames written after the end {wrote_after}, live ping threads {out.get('live')}", case, ending=ending)


def periodic_case(res, W, rng, interval, to, behaviour):
    """pings are periodic for as long as the connection is up - also when the
    peer never answers or answers slower than the interval (no ping_timeout:
    nothing ends the connection; with a timeout the run ends at the report)"""
    lat = {"silent": None, "slow-1.5x": interval * 1.5, "slow-3.2x": interval * 3.2, "prompt": 0.01}[behaviour]
    dur = 14 * interval
    plan = [dict(outcome="ok", script=[(dur, "close", b"")], pong=lat)]
    kw = dict(ping_interval=interval, ping_payload="pp")
    if to:
        kw["ping_timeout"] = to
    run, out, failure, S = execute(plan, kw, "loop-first", dur + 60)
    res.case(("periodic", interval, to, behaviour), nontrivial=True)
    res.count("periodic_runs")
    case = {"kind": "periodic", "interval": interval, "timeout": to, "peer": behaviour}

    def bad(kind, detail, **kw_):
        res.violation(kind, f"periodic pings interval={interval} timeout={to} peer={behaviour}: {detail}", case, peer=behaviour, with_timeout=bool(to), **kw_)
    if failure is not None or run is None or not run.servers:
        bad("no-return", str(failure))
        return
    srv = run.servers[0]
    end = out.get("end")
    errs = [(t, a[0]) for (t, n, a, ci, ac) in run.trace if n == "on_error"]
    if not to or behaviour == "prompt":
        # nothing may end the connection early, and pings must keep their period throughout
        if errs:
            bad("unexpected-error", f"{[(t, type(e).__name__, str(e)) for t, e in errs][:2]}")
            return
        check_pings(res, bad, srv, interval, b"pp", dur)
        if len(srv.pings) < 12:
            bad("too-few-pings", f"{len(srv.pings)} pings in {dur}s (interval {interval}): {[p[0] for p in srv.pings]}")
    else:
        check_pings(res, bad, srv, interval, b"pp", None)


def second_use_case(res, W, rng, interval, to, first):
    """keepalive must work on every connection of an application object, not only on its first one: after a
    reconnect, and in a second run_forever(), a silent peer is still detected within the bound"""
    kw = dict(ping_interval=interval, ping_timeout=to, ping_payload="ka")
    silent = dict(outcome="ok", script=[], pong=None)
    if first == "eof":
        plan = [dict(outcome="ok", script=[(1.3 * interval, "eof")], pong=0.0), silent, dict(outcome="ok", script=[(0.5, "close", b"")])]
        run, out, failure, S = execute(plan, kw, "loop-first", 60 * interval + 60, reconnect=0.5)
        idx = 1
    elif first in ("eof-with-ping-outstanding", "reset-with-ping-outstanding"):
        # the first connection is lost while its first ping is still unanswered (well inside the timeout)
        plan = [dict(outcome="ok", script=[(2 * interval + to / 4, "eof" if first.startswith("eof") else "reset")], pong=lambda k, t: None), silent,
                dict(outcome="ok", script=[(0.5, "close", b"")])]
        run, out, failure, S = execute(plan, kw, "loop-first", 60 * interval + 60, reconnect=0.5)
        idx = 1
    elif first == "refused-then-ok":
        plan = [dict(outcome="refused"), silent, dict(outcome="ok", script=[(0.5, "close", b"")])]
        run, out, failure, S = execute(plan, kw, "loop-first", 60 * interval + 60, reconnect=0.5)
        idx = 0
    else:
        plan = [dict(outcome="ok", script=[(2.5 * interval, "close", b"\x03\xe8")], pong=0.0), silent]
        run, out, failure, S = execute(plan, kw, "loop-first", 60 * interval + 60, second_run_kwargs=kw)
        idx = 1
    res.case(("second-use", interval, to, first), nontrivial=True)
    res.count("second_use_runs")
    case = {"kind": "second-use", "interval": interval, "timeout": to, "first_connection": first}

    def bad(kind, detail, **kw_):
        res.violation(kind, f"keepalive on a later connection (interval={interval} timeout={to}, first: {first}): {detail}", case, first=first, **kw_)
    if run is None:
        res.inconc(f"second-use case did not start: {failure}")
        return
    srv = [s for s in run.servers if s.plan.get("pong", 0) is None]
    if not srv:
        bad("later-connection-missing", f"the silent connection was never made; attempts {[(a[0], a[1]) for a in run.attempts]}; failure {failure}")
        return
    srv = srv[0]
    if not srv.pings:
        bad("no-pings", f"no ping reached the peer of the later connection (opened t={srv.opened_at}); run state: {type(failure).__name__ if failure else 'ended'}")
        return
    P = srv.pings[0][0]
    touts = [(t, a[0]) for (t, n, a, ci, ac) in run.trace if n == "on_error" and isinstance(a[0], W.WebSocketTimeoutException) and t >= srv.opened_at]
    # with reconnect the loss may not be reported to on_error (recorded, not judged): use the next attempt / transport close as the detection time
    detect = touts[0][0] if touts else (srv.conn.closed_at if srv.conn.client_closed else None)
    if first != "server-close-then-second-run" and not touts:
        later = [a for a in run.attempts if a[0] > srv.opened_at + 1e-9]
        detect = (later[0][0] - 0.5) if later else detect
    if detect is None:
        bad("never-detected", f"first unanswered ping at t={P}; the silent peer was never detected ({type(failure).__name__ if failure else 'run ended'})", detected=False)
        return
    if detect > P + 2 * to + 1e-6:
        bad("detected-late", f"first unanswered ping at t={P}, detected at t={detect} (> P + 2*timeout = {P + 2 * to})", detected=True)
    check_pings(res, bad, srv, interval, b"ka", None)
    res.count("detection_latency_checked")


def interleave_case(res, W, rng, interval, to, lat, traffic, n, seed):
    """a responsive peer under many interleavings of the ping thread and the loop at synchronisation / IO points
    (seeded random schedules): never reported"""
    dur = 8 * interval
    script = traffic_script(traffic, 0.0, to, interval, dur) + [(dur, "close", b"\x03\xe8")]
    for i in range(n):
        plan = [dict(outcome="ok", script=list(script), pong=lat)]
        st = sched.RandomStrategy((seed << 12) ^ i, p_switch=0.5)
        run, out, failure, S = execute(plan, dict(ping_interval=interval, ping_timeout=to, ping_payload="ka"), "random", dur + 100, strategy=st)
        res.case(("interleave", interval, to, lat, traffic, tuple(S.decisions)), nontrivial=S.switches > 0)
        res.count("interleaving_runs")
        case = {"kind": "interleave", "interval": interval, "timeout": to, "latency": lat, "traffic": traffic, "decisions": list(S.decisions)[:200]}
        if run is None or failure is not None:
            res.violation("no-return", f"interleaving run interval={interval} timeout={to} latency={lat}: {failure}", case, latency_class="interleave")
            continue
        errs = [(t, a[0]) for (t, nme, a, ci, ac) in run.trace if nme == "on_error"]
        if errs:
            t, e = errs[0]
            res.violation("responsive-peer-reported", f"schedule #{i}: on_error({type(e).__name__}: {e}) at t={t} although every ping (interval {interval}, timeout {to}) was answered after {lat}s",
                          case, latency_class="interleave", error=type(e).__name__, traffic=traffic)


def rel_case(res, W, rng, job):
    """the same supervision through an external (rel-style) dispatcher: the timeout check runs from the dispatcher's
    timer.  How the timeout is surfaced there (on_error, or the exception leaving the dispatcher's loop - see the C14/C15
    known finding) is not judged here; *when* is."""
    kind, interval, to = job[0], job[1], job[2]
    silent_from = job[3] if kind == "rel-silent" else None
    traffic = job[4] if kind == "rel-silent" else "periodic"
    dur = 12 * interval
    script = traffic_script(traffic, 0.0, to, interval, dur) + ([(dur, "close", b"")] if kind == "rel-responsive" else [])
    pong = (lambda k, t: (0.0 if k < silent_from else None)) if kind == "rel-silent" else 0.01
    out = {}

    def scen():
        S = sched.CURRENT
        H.reset_process_state()
        run = appsim.AppRun([dict(outcome="ok", script=script, pong=pong)], last_repeats=False)
        out["run"] = run
        rel = appsim.SimRel()
        run.run_forever(ping_interval=interval, ping_timeout=to, ping_payload="ka", dispatcher=rel)
        try:
            rel.dispatch(horizon=dur + 60)
        except sched.SimAbort:
            raise
        except BaseException as e:  # noqa
            out["dispatch_exc"] = (S.now, e)
        out["end"] = S.now

    S = sched.Sched(horizon=dur + 200, watchdog=60)
    failure = None
    try:
        S.run(scen)
    except sched.SimFailure as e:
        failure = e
    run = out.get("run")
    res.case((kind, interval, to, silent_from, traffic), nontrivial=True)
    res.count("external_dispatcher_runs")
    case = {"kind": kind, "interval": interval, "timeout": to, "silent_from_ping": silent_from, "traffic": traffic, "dispatcher": "rel"}

    def bad(k, detail, **kw):
        res.violation(k, f"external dispatcher, interval={interval} timeout={to} silent_from={silent_from} traffic={traffic}: {detail}", case, dispatcher="rel", **kw)
    if run is None or not run.servers:
        res.inconc(f"rel case did not connect: {failure}")
        return
    srv = run.servers[0]
    errs = [(t, a[0]) for (t, n, a, ci, ac) in run.trace if n == "on_error" and isinstance(a[0], W.WebSocketTimeoutException)]
    dexc = out.get("dispatch_exc")
    if dexc is not None and isinstance(dexc[1], W.WebSocketTimeoutException):
        errs.append(dexc)
    if kind == "rel-responsive":
        if errs or dexc is not None:
            bad("responsive-peer-reported", f"timeout surfaced at t={(errs or [dexc])[0][0]} although every ping was answered after 0.01s", latency_class="rel")
        elif len(srv.pings) < 9:
            bad("too-few-pings", f"{len(srv.pings)} pings in {dur}s")
        return
    if len(srv.pings) <= silent_from:
        bad("no-ping-reached-peer", f"only {len(srv.pings)} pings arrived ({type(failure).__name__ if failure else 'ended'})")
        return
    P = srv.pings[silent_from][0]
    if not errs:
        bad("never-detected", f"first unanswered ping at t={P}; no ping/pong timeout surfaced by t={out.get('end')} ({type(failure).__name__ if failure else 'dispatcher loop ended'})",
            detected=False, settings_class="rel")
        return
    t_err = min(t for t, e in errs)
    res.count("detection_latency_checked")
    if t_err > P + 2 * to + 1e-6:
        bad("detected-late", f"first unanswered ping at t={P}, surfaced at t={t_err} (> P + 2*timeout)", detected=True, settings_class="rel")
