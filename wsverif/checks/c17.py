"""C17 - arbitrary server bytes produce only documented exceptions, never
hangs, and never a transport read sized by a length the peer declared."""
from __future__ import annotations

import itertools
import random

from .. import core
from .. import harness as H
from .. import monitors as M
from ..ref import rfc6455 as R
from ..sim import net, sched

SHARDS = {"quick": 16, "thorough": 16}
META = {
    "level": "fault_enumeration",
    "technique": "runtime monitoring with hostile input generation: exhaustive short prefixes, grammar-based single-field corruptions/truncations and random byte streams in the handshake and frame phases; monitors on the type and origin of every exception leaving connect()/recv*(), on every transport recv(n) size, and a progress/spin counter in the simulated transport",
    "claim": "For every generated server byte stream (all byte strings of length <= 2 and length 3 over 24 bytes as phase prefixes, all 65536 first-two-byte frame headers, single-field corruptions of valid handshake and frame traffic, truncation at every byte, random streams; each followed by end of stream or silence) each connect()/receive call returned a value consistent with the reference decoder or raised WebSocketException/OSError/ssl.SSLError; no call made 1000 consecutive transport reads without progress or outlived the virtual horizon; no transport read asked for more than 1 MiB, and for paired streams differing only in a declared length (frame length 2^20/2^40/2^62, Content-Length 2^21/10^9/10^12) the largest requested size did not grow.",
    "trusted": "simulated transport (EOF sticky, timeouts in virtual time); reference decoder for value consistency",
    "rule": "case = (phase, generator, bytes, ending, API); distinct by stream hash + ending + API; non-trivial when the stream is not a canonical valid one (all generated streams are hostile or truncated)",
    "exhaustive": {"quick": False, "thorough": False},
    "exhaustive_space": {"quick": "handshake phase: all byte strings of length <= 2 (x3 embeddings); frame phase: all 65536 two-byte headers (strided by 3 over API variants)",
                         "thorough": "same, all API variants, + length-3 strings over 24 bytes"},
    "bounds": "random streams are samples; TLS transport errors are not injected",
    "required_counters": ["handshake_cases", "frame_cases", "declared_length_pairs", "exceptions_classified"],
    "assumptions": [],
}
META["claim"] += " " + "Also: the transport's own errors (ssl.SSLError variants, OSError variants) injected mid-stream, trace logging on for a share of the cases, recv() with per-fragment delivery, redirect targets in odd IPv4 notations while a CIDR no_proxy list is configured."
META["claim"] += " " + "Round 4: status tokens that isdigit()/isnumeric() accept and int() does not, digit strings beyond int()'s limit; 3-5 connections sharing the process-wide cookie jar with 35 well-formed, odd and malformed Set-Cookie lines; ambient conditions drawn per connection in the frame phase."
META["claim"] += " " + 'Round 5: the replies of an HTTP proxy to CONNECT (13 status lines x 23 header lines, incl. challenges without parameters).'
META["claim"] += " " + 'Rounds 6-7: thousands of interim responses, illegal cookie names, hosts the resolver cannot encode; every byte inside / before / after the host of a redirect target; error bodies described with 31 charset parameters, odd media types and encodings.'
META["claim"] += " " + 'Round 8: redirects behind a proxy that grants every CONNECT (unencodable ws / wss hosts); hosts built to make a pattern backtrack, with a CPU-time guard per case (a spin inside C code is reported as cpu-spin).'

INTERESTING = [0x00, 0x01, 0x09, 0x0A, 0x0D, 0x20, 0x2F, 0x30, 0x31, 0x3A, 0x41, 0x48, 0x54, 0x7F, 0x80, 0x81, 0x88, 0x89, 0x8A, 0xC0, 0xE2, 0xF0, 0xFE, 0xFF]
VALID_HEAD = b"HTTP/1.1 101 Switching Protocols\r\nUpgrade: websocket\r\nConnection: Upgrade\r\nSec-WebSocket-Accept: %ACCEPT%\r\n\r\n"


def head_mutations(rng):
    """(label, template) - %ACCEPT% is replaced by the right accept value"""
    T = VALID_HEAD
    out = []
    rep = lambda a, b: T.replace(a, b, 1)  # noqa
    out += [("status-line-no-code", rep(b"HTTP/1.1 101 Switching Protocols", b"HTTP/1.1")),
            ("status-line-empty-code", rep(b"HTTP/1.1 101 Switching Protocols", b"HTTP/1.1 ")),
            ("status-code-nonnumeric", rep(b" 101 ", b" abc ")),
            ("status-code-float", rep(b" 101 ", b" 101.5 ")),
            ("status-code-negative", rep(b" 101 ", b" -101 ")),
            ("status-code-huge", rep(b" 101 ", b" " + b"9" * 400 + b" ")),
            ("status-code-unicode-digits", rep(b" 101 ", " ١٠١ ".encode())),
            # characters that str.isdigit()/isnumeric() accept and int() does not, and digit strings beyond int()'s conversion limit
            ("status-code-superscript", rep(b" 101 ", " ² ".encode())),
            ("status-code-superscript-mixed", rep(b" 101 ", " 10¹ ".encode())),
            ("status-code-circled", rep(b" 101 ", " ①①① ".encode())),
            ("status-code-fraction", rep(b" 101 ", " ½ ".encode())),
            ("status-code-roman", rep(b" 101 ", " Ⅻ ".encode())),
            ("status-code-fullwidth", rep(b" 101 ", " １０１ ".encode())),
            ("status-code-underscore", rep(b" 101 ", b" 1_01 ")),
            ("status-code-plus", rep(b" 101 ", b" +101 ")),
            ("status-code-5000-digits", rep(b" 101 ", b" " + b"1" * 5000 + b" ")),
            ("status-code-4301-digits", rep(b" 101 ", b" " + b"7" * 4301 + b" ")),
            # very many interim responses in front of the final one (each valid by itself)
            ("interim-100-x1200", (b"HTTP/1.1 100 Continue\r\n\r\n" * 1200) + VALID_HEAD),
            ("interim-103-x3000", (b"HTTP/1.1 103 Early Hints\r\nLink: </x>; rel=preload\r\n\r\n" * 3000) + VALID_HEAD),
            ("interim-102-x5000-then-eof", b"HTTP/1.1 102 Processing\r\n\r\n" * 5000),
            ("status-line-tabs", rep(b"HTTP/1.1 101 Switching", b"HTTP/1.1\t101\tSwitching")),
            ("no-reason", rep(b" 101 Switching Protocols", b" 101")),
            ("only-crlf", b"\r\n"), ("only-lf", b"\n"), ("empty", b""), ("double-crlf-first", b"\r\n\r\n" + T),
            ("header-no-colon", rep(b"Upgrade: websocket", b"Upgrade websocket")),
            ("header-empty-name", rep(b"Upgrade: websocket", b": websocket")),
            ("header-only-colon", rep(b"Upgrade: websocket", b":")),
            ("non-utf8-header-value", rep(b"Upgrade: websocket", b"X-Bin: \xff\xfe\x80\r\nUpgrade: websocket")),
            ("non-utf8-status", rep(b"Switching Protocols", b"Sw\xe9tching")),
            ("non-utf8-name", rep(b"Upgrade: websocket", b"Upgr\xc0de: websocket")),
            ("nul-bytes", rep(b"Upgrade: websocket", b"Up\x00grade: web\x00socket")),
            ("bare-lf", T.replace(b"\r\n", b"\n")),
            ("bare-cr", T.replace(b"\r\n", b"\r")),
            ("dup-headers", rep(b"Upgrade: websocket", b"Upgrade: websocket\r\nUpgrade: websocket")),
            ("very-long-line", rep(b"Upgrade: websocket", b"X-Long: " + b"a" * 70000 + b"\r\nUpgrade: websocket")),
            ("accept-missing", rep(b"Sec-WebSocket-Accept: %ACCEPT%\r\n", b"")),
            ("accept-non-ascii", rep(b"%ACCEPT%", "ä%ACCEPT%".encode())),
            ("set-cookie-garbage", rep(b"Upgrade: websocket", b"Set-Cookie: \xff=\x00;;;=;Domain\r\nUpgrade: websocket")),
            ("set-cookie-weird", rep(b"Upgrade: websocket", b"Set-Cookie: a=b; Domain=; Domain=..; c\r\nUpgrade: websocket")),
            ("set-cookie-illegal-key", rep(b"Upgrade: websocket", b"Set-Cookie: a[]=b; Domain=x.t\r\nUpgrade: websocket")),
            ]
    for st in (b"404 Not Found", b"500 X", b"200 OK", b"401 Unauthorized"):
        base = rep(b"101 Switching Protocols", st)
        out += [(f"err-{st[:3].decode()}-cl-nonnumeric", base.replace(b"\r\n\r\n", b"\r\nContent-Length: abc\r\n\r\n")),
                (f"err-{st[:3].decode()}-cl-negative", base.replace(b"\r\n\r\n", b"\r\nContent-Length: -5\r\n\r\n")),
                (f"err-{st[:3].decode()}-cl-float", base.replace(b"\r\n\r\n", b"\r\nContent-Length: 1e3\r\n\r\n")),
                (f"err-{st[:3].decode()}-cl-huge", base.replace(b"\r\n\r\n", b"\r\nContent-Length: " + b"9" * 30 + b"\r\n\r\n")),
                (f"err-{st[:3].decode()}-cl-overflow-c-long", base.replace(b"\r\n\r\n", b"\r\nContent-Length: 99999999999999999999\r\n\r\n")),
                (f"err-{st[:3].decode()}-cl-ok-body", base.replace(b"\r\n\r\n", b"\r\nContent-Length: 5\r\n\r\nhello")),
                (f"err-{st[:3].decode()}-cl-short-body", base.replace(b"\r\n\r\n", b"\r\nContent-Length: 50\r\n\r\nhi")),
                (f"err-{st[:3].decode()}-cl-empty", base.replace(b"\r\n\r\n", b"\r\nContent-Length: \r\n\r\n")),
                (f"err-{st[:3].decode()}-cl-spaces", base.replace(b"\r\n\r\n", b"\r\nContent-Length: 1 2\r\n\r\nab"))]
    # error responses whose body is described by the server in ways a client might act upon: media types and character sets that do
    # not exist, are not text codecs or are spelled oddly; encodings; a body that is not what the description says
    for st in (b"403 Forbidden", b"503 Busy"):
        base = rep(b"101 Switching Protocols", st)
        for ci, cs in enumerate([b"utf8mb4", b"binary", b"x-user-defined", b"base64", b"undefined", b"idna", b"punycode", b"hex", b"rot13", b"zlib", b"unicode_escape",
                                 b"raw_unicode_escape", b"utf-16", b"utf-32", b"utf-7", b"latin-1", b"ascii", b"cp65001", b"mbcs", b"oem", b"", b'""', b'"utf-8', b"utf-8;q=1", b"a\x00b",
                                 b"\xff\xfe", "\u00fctf-8".encode(), b"UTF-8" * 40, b"none", b"charmap", b"x" * 300]):
            body = [b"hello", b"\xff\xfe\x00h\x00i", b"\x1f\x8b\x08\x00binary\x00\xc3", "gr\u00fc\u00dfe".encode()][ci % 4]
            for mt in (b"text/plain", b"text/html", b"TEXT/Plain", b"application/json"):
                if mt != b"text/plain" and ci % 5:
                    continue
                out.append((f"err-{st[:3].decode()}-charset-{ci}-{mt.decode()}", base.replace(b"\r\n\r\n", b"\r\nContent-Type: " + mt + b"; charset=" + cs + b"\r\nContent-Length: "
                            + str(len(body)).encode() + b"\r\n\r\n" + body)))
        for hdr in (b"Content-Encoding: gzip", b"Content-Encoding: br", b"Transfer-Encoding: chunked", b"Content-Type: ", b"Content-Type: ;;;=", b"Content-Type: text/plain; charset",
                    b"Content-Type: text/plain; =utf-8", b"Content-Type: multipart/form-data; boundary=", b"Content-Language: \xff"):
            out.append((f"err-{st[:3].decode()}-{hdr.decode('latin-1')[:40]}", base.replace(b"\r\n\r\n", b"\r\n" + hdr + b"\r\nContent-Length: 6\r\n\r\n\x1f\x8b\x08\x00\xff\xfe")))
    for st in (b"301", b"302", b"303", b"307", b"308"):
        base = b"HTTP/1.1 " + st + b" Moved\r\n"
        for hostform in (b"127.1", b"127.0.1", b"0x7f.0.0.1", b"127.0.0.01", b"2130706433", b"127.0.0.1.", b"[::ffff:127.0.0.1]", b"1.2.3.4", b"999.1.1.1", b"1.2.3"):
            out.append((f"redirect-{st.decode()}-odd-ip-{hostform.decode()}", base + b"Location: ws://" + hostform + b":8080/r\r\n\r\n"))
        out += [(f"redirect-{st.decode()}-no-location", base + b"\r\n"),
                (f"redirect-{st.decode()}-foreign-scheme", base + b"Location: http://other.test/\r\n\r\n"),
                (f"redirect-{st.decode()}-relative", base + b"Location: /relative\r\n\r\n"),
                (f"redirect-{st.decode()}-empty-location", base + b"Location: \r\n\r\n"),
                (f"redirect-{st.decode()}-garbage-location", base + b"Location: ws://[::1/\r\n\r\n"),
                (f"redirect-{st.decode()}-bad-port", base + b"Location: ws://h:99999/\r\n\r\n"),
                (f"redirect-{st.decode()}-nonnumeric-port", base + b"Location: ws://h:abc/\r\n\r\n"),
                (f"redirect-{st.decode()}-loop", base + b"Location: ws://sim.test/\r\n\r\n"),
                # host names the resolver's idna step cannot encode: an empty label, a label of more than 63 characters, a dot only
                (f"redirect-{st.decode()}-empty-label", base + b"Location: ws://a..b/\r\n\r\n"),
                (f"redirect-{st.decode()}-long-label", base + b"Location: ws://" + b"x" * 64 + b".test/\r\n\r\n"),
                (f"redirect-{st.decode()}-dot-host", base + b"Location: ws://./\r\n\r\n"),
                (f"redirect-{st.decode()}-nonascii-host", base + "Location: ws://b\u00fccher.test/\r\n\r\n".encode()),
                (f"redirect-{st.decode()}-long-name", base + b"Location: ws://" + b".".join([b"a" * 60] * 5) + b"/\r\n\r\n"),
                # non-ASCII names that the idna codec cannot encode (empty label, over-long label, leading dot): wherever the name is
                # encoded - by the resolver, or for a CONNECT request behind an HTTP proxy - the failure is an address / proxy error
                (f"redirect-{st.decode()}-idn-empty-label", base + "Location: ws://m\u00fcnchen..example.test/\r\n\r\n".encode()),
                (f"redirect-{st.decode()}-idn-long-label", base + ("Location: ws://" + "\u00fc" * 70 + ".test/\r\n\r\n").encode()),
                (f"redirect-{st.decode()}-idn-leading-dot", base + "Location: ws://.\u00fc.test/\r\n\r\n".encode()),
                (f"redirect-{st.decode()}-idn-wss", base + "Location: wss://m\u00fcnchen..example.test/\r\n\r\n".encode())]
    # hosts built to make a careless pattern backtrack: a long run of name characters, then one character that fits nowhere
    base = b"HTTP/1.1 302 Moved\r\n"
    for run_ in (b"w" * 48, b"gateway" + b"a" * 70, b"a-" * 30, b"a." * 30, b"1" * 60, b"a_" * 25, b"xn--" * 15):
        for ch in (b"!", b"$", b"~", b"*", b"(", b",", b";", b"=", b"\\", b"^", b"|", b"\xff"):
            out.append((f"redirect-302-long-run-{run_[:3].decode()}x{len(run_)}-then-{ch.hex()}", base + b"Location: ws://" + run_ + ch + b"/chat\r\n\r\n"))
            out.append((f"redirect-302-long-run-{run_[:3].decode()}x{len(run_)}-then-{ch.hex()}-wss-port", base + b"Location: wss://" + run_ + ch + b":8443/\r\n\r\n"))
    # every single byte inside, before and after the host of a redirect target (NUL and other control characters, blanks, '%', '@',
    # '\\', 8-bit bytes): the name travels through the no_proxy matching and the resolver of the follow-up connection
    base = b"HTTP/1.1 302 Moved\r\n"
    for b in range(256):
        if b in (0x0a, 0x0d):
            continue
        ch = bytes([b])
        out.append((f"redirect-302-host-byte-{b:02x}-inside", base + b"Location: ws://a" + ch + b"b.test/r\r\n\r\n"))
        if b % 4 == 0 or b < 0x30:
            out.append((f"redirect-302-host-byte-{b:02x}-first", base + b"Location: ws://" + ch + b"ab.test/r\r\n\r\n"))
            out.append((f"redirect-302-host-byte-{b:02x}-port", base + b"Location: ws://ab.test:8" + ch + b"/r\r\n\r\n"))
    return out


def run(res, tier, seed, shard, nshards):
    W = H.ws()
    rng = random.Random((seed << 8) ^ shard ^ 0xC17)
    H.scrub_env()
    jobs = []
    # ---------------- handshake phase ----------------
    short = [bytes(t) for n in range(0, 3) for t in itertools.product(range(256), repeat=n)]
    if tier == "thorough":
        short += [bytes(t) for t in itertools.product(INTERESTING, repeat=3)]
    for b in short:
        for emb in ("alone", "then-blank-line", "replace-start"):
            jobs.append(("H", "short-" + emb, b, emb))
    for label, tmpl in head_mutations(rng):
        jobs.append(("H", label, tmpl, "template"))
        # truncations of each mutated head at a few offsets
        for off in sorted({1, 9, 12, 13, len(tmpl) // 2, max(0, len(tmpl) - 3), max(0, len(tmpl) - 1)}):
            if off < len(tmpl) and len(tmpl) < 2000:
                jobs.append(("H", label + "@trunc", tmpl[:off], "template"))
    for off in range(len(VALID_HEAD) + 20):
        jobs.append(("H", "valid@trunc", VALID_HEAD[:off], "template"))
    for i in range(3000 if tier == "quick" else 60000):
        jobs.append(("H", "random", None, "random"))
    # ---------------- frame phase ----------------
    for b0 in range(256):
        for b1 in range(256):
            jobs.append(("F", "hdr2", bytes([b0, b1]), None))
    if tier == "thorough":
        for t in itertools.product(INTERESTING, repeat=3):
            jobs.append(("F", "hdr3", bytes(t), None))
    for i in range(4000 if tier == "quick" else 80000):
        jobs.append(("F", "mutated", None, None))
    for i in range(3000 if tier == "quick" else 60000):
        jobs.append(("F", "random", None, None))
    for i in range(6):
        jobs.append(("D", i))
    # the bytes of an HTTP proxy answering CONNECT (statuses, challenge headers with and without parameters, malformed heads)
    for i in range(400 if tier == "quick" else 12000):
        jobs.append(("P", i))
    # server bytes outlive the connection that carried them: Set-Cookie data of earlier responses (process-wide jar) meets later connects
    for i in range(300 if tier == "quick" else 8000):
        jobs.append(("K", i))

    def scen():
        for ji, job in enumerate(jobs):
            if ji % nshards != shard:
                continue
            # CPU-time guard: a call that spins without consuming input (inside C code it cannot even be interrupted) gets the shard
            # killed; the parent reports the case noted here as a cpu-spin violation
            core.spin_guard("C17", tier, shard, f"{job[0]}/{job[1] if len(job) > 1 else ''}", {"job": [str(x)[:200] for x in job[:3]]})
            if job[0] == "H":
                handshake_case(res, W, rng, job, ji)
            elif job[0] == "F":
                frame_case(res, W, rng, job, ji, tier)
            elif job[0] == "K":
                cookie_history_case(res, W, rng)
            elif job[0] == "P":
                proxy_reply_case(res, W, rng)
            else:
                declared_pairs(res, W, rng, job[1])
        for i in range(4 * len(REDIRECT_HOSTS)):
            if i % nshards == shard:
                proxied_redirect_case(res, W, rng, i)

    try:
        with H.ambient((seed, shard, "C17"), res, dims=("multithread", "tls", "dispatcher", "high_fd", "warn_error", "thread_hop", "truthy")):
            H.in_sim(scen, watchdog=3000)
    finally:
        core.spin_guard("C17", tier, shard, None, cpu_seconds=0)
    W.enableTrace(False)


def record_exception(res, W, e, phase, label, case, conn):
    """classify an exception that left a public call"""
    res.count("exceptions_classified")
    name = type(e).__name__
    if isinstance(e, net.SpinDetected):
        res.violation("spin", f"{phase}/{label}: {e}", case, phase=phase, where=(H.repo_frame_of(e) or [None, None])[1], input_class=label)
        return
    if isinstance(e, sched.SimFailure):
        res.violation("hang", f"{phase}/{label}: {type(e).__name__}: {e}", case, phase=phase, input_class=label)
        return
    if H.documented_exception(W, e):
        res.count(f"exc:{phase}:{name}")
        return
    fr = H.repo_frame_of(e)
    res.violation("internal-exception", f"{phase}/{label}: {name}: {str(e)[:120]} raised in {fr}", case,
                  phase=phase, exc_type=name, where=fr[1] if fr else None, input_class=label.split("@")[0])


COOKIE_LINES = [
    "sid=one; Domain=example.com", "sid=two; Domain=www.example.com", "sid=three; Domain=.example.com", "SID=four; Domain=EXAMPLE.com",
    "a=1; b=2; Domain=example.com", "a=1; Domain=example.com; Domain=other.test", "novalue; Domain=example.com", "=empty; Domain=example.com",
    "x=1; Domain=", "x=1; Domain", "x=1; Domain=.", "x=1; Domain=..", "x=1; Domain=*", "x=1; Domain=example.com; Max-Age=abc; Expires=never",
    "x=\"quoted; semi\"; Domain=example.com", "x=1; Domain=example.com; Path=/; Secure; HttpOnly; SameSite=Lax", ";;;", "", " ", "=", "a==b; Domain=example.com",
    "k\xe9y=v\xe4l; Domain=example.com", "k=v; Domain=ex\xe4mple.com", "k=" + "v" * 5000 + "; Domain=example.com", "k=v; Domain=" + "a." * 200 + "com",
    "a=1, b=2; Domain=example.com", "$Version=1; a=1; Domain=example.com", "a=1; domain=example.com", "a=1;Domain=example.com;", "a=\x00\x01; Domain=example.com",
    "a,b=1", "a,b=1; Domain=example.com", "a;b,c=1; Domain=example.com", "na\"me=1; Domain=example.com", "a=1; Domain=example.com, b,c=2", "\x7f=1; Domain=example.com",
    "sid=five; Domain=com", "sid=six; Domain=127.0.0.1", "sid=seven; Domain=::1", "[x]=1; Domain=example.com", "a b=c d; Domain=example.com",
]


PROXY_STATUS = ["200 Connection established", "200 OK", "407 Proxy Authentication Required", "407", "403 Forbidden", "502 Bad Gateway", "100 Continue", "301 Moved",
                "204 No Content", "999 Weird", "abc def", "", "407 \xb2"]
PROXY_HEADERS = ["Proxy-Authenticate: Basic realm=\"proxy\"", "Proxy-Authenticate: Negotiate", "Proxy-Authenticate: NTLM", "Proxy-Authenticate:", "Proxy-Authenticate: Basic",
                 "Proxy-Authenticate: Digest realm=\"x\", nonce=\"abc\", qop=\"auth\"", "Proxy-Authenticate: Negotiate\r\nProxy-Authenticate: NTLM", "proxy-authenticate: negotiate",
                 "Proxy-Authenticate: =", "Proxy-Authenticate:  \t ", "Proxy-Connection: close", "Connection: close", "Content-Length: 0", "Content-Length: abc",
                 "Content-Length: 99999999999", "Via: 1.1 proxy", "X-Long: " + "v" * 70000, "NoColonHere", ": empty-name", "Proxy-Authenticate: Bas\xe9c", "Retry-After: \xb2",
                 "Location: ws://elsewhere.test/", "Set-Cookie: a=1; Domain=example.com; Max-Age=soon"]


REDIRECT_HOSTS = ["a..b", "m\u00fcnchen..example.test", "x" * 64 + ".test", "\u00fc" * 70 + ".test", ".a", ".", "a.", "b\u00fccher.test", "a\x00b", "a b", "[::1", "::1]", "%41.test",
                  "a" * 300 + ".test", "xn--.test", "xn--a.test", "-a.test", "a_b.test", "1.2.3.4.", "0x7f.1"]


def proxied_redirect_case(res, W, rng, i):
    """Behind an HTTP proxy that grants every CONNECT the client never resolves a name itself: a redirect to a host name that cannot be
    encoded (for the CONNECT line, for the TLS server name) must still end in a documented exception, for ws and for wss targets."""
    H.reset_process_state()
    host = REDIRECT_HOSTS[i % len(REDIRECT_HOSTS)]
    scheme = ["ws", "wss"][(i // len(REDIRECT_HOSTS)) % 2]
    first_secure = (i // (2 * len(REDIRECT_HOSTS))) % 2 == 1
    loc = f"{scheme}://{host}/r".encode("utf-8")
    n = [0]
    conns = []

    def inner(c):
        n[0] += 1
        if n[0] == 1:
            return H.HandshakePeer(c, response=lambda req: b"HTTP/1.1 302 Found\r\nLocation: " + loc + b"\r\n\r\n")
        return H.HandshakePeer(c)
    net_ = H.make_net()
    net_.add_host("proxy.test", ["203.0.113.9"])
    net_.listen("203.0.113.9", 3128, ("accept", lambda c: (conns.append(c), H.TunnelPeer(c, inner_factory=inner))))
    case = {"phase": "handshake", "label": "redirect-behind-proxy", "location": loc, "first_url_secure": first_secure}
    res.count("proxied_redirect_cases")
    res.case(("PR", loc, first_secure), nontrivial=True)
    w = None
    try:
        w = W.create_connection(("wss" if first_secure else "ws") + "://origin.test/p", timeout=2, http_proxy_host="proxy.test", http_proxy_port=3128,
                                sslopt={"cert_reqs": 0, "check_hostname": False})
        res.count("handshake_connected")
    except BaseException as e:  # noqa
        if isinstance(e, (KeyboardInterrupt, sched.SimAbort)):
            raise
        record_exception(res, W, e, "handshake", "redirect-behind-proxy:" + scheme, case, conns[0] if conns else None)
    if w is not None:
        try:
            w.shutdown()
        except Exception:  # noqa
            pass


def proxy_reply_case(res, W, rng):
    H.reset_process_state()
    status = rng.choice(PROXY_STATUS)
    hdrs = [rng.choice(PROXY_HEADERS) for _ in range(rng.choice([0, 1, 1, 2, 3]))]
    body = rng.choice([b"", b"", b"<html>denied</html>", b"\x00\xff"])
    ending = rng.choice(["\r\n\r\n", "\r\n\r\n", "\n\n", "\r\n", ""])
    reply = ("HTTP/1.1 " + status + "\r\n" + "".join(h + "\r\n" for h in hdrs)).encode("latin-1")[:-2] + ending.encode() + body
    eof = rng.random() < 0.5
    conns = []

    def on_conn(conn):
        conns.append(conn)
        t = H.TunnelPeer(conn, reply=reply)
        if eof:
            orig = t._data

            def data(c, d):
                orig(c, d)
                if t.connect_request is not None:
                    c.peer_close()
            conn.on_client_data = data

    H.make_net(on_conn)
    secure = rng.random() < 0.3
    cred = rng.choice([None, None, ("user", "pass")])
    case = {"phase": "handshake", "label": "proxy-reply", "reply": reply[:300], "eof_after": eof, "secure": secure}
    res.count("proxy_reply_cases")
    res.case(("P", reply[:400], eof, secure, bool(cred)), nontrivial=True)
    w = None
    try:
        w = W.create_connection(("wss" if secure else "ws") + "://origin.test/p", timeout=2, http_proxy_host="proxy.test", http_proxy_port=3128,
                                proxy_type="http", **({"http_proxy_auth": cred} if cred else {}))
        res.count("handshake_connected")
    except BaseException as e:  # noqa
        if isinstance(e, (KeyboardInterrupt, sched.SimAbort)):
            raise
        record_exception(res, W, e, "handshake", "proxy-reply", case, conns[0] if conns else None)
    for c in conns:
        size_monitor(res, c, "handshake", "proxy-reply", case)
    if w is not None:
        try:
            w.shutdown()
        except Exception:  # noqa
            pass


def cookie_history_case(res, W, rng):
    """3-5 connections in one process; each response sets cookies (well-formed, odd and malformed); targets inside the domains"""
    H.reset_process_state()
    hist = []
    hosts = ["example.com", "www.example.com", "a.www.example.com", "other.test", "127.0.0.1", "EXAMPLE.com"]
    case = {"phase": "handshake", "label": "cookie-history", "history": hist}
    conns = []
    cur = {}

    def on_conn(conn):
        conns.append(conn)

        def resp(req):
            extra = []
            for ln in cur["lines"]:
                extra.append("Set-Cookie: " + ln)
            return H.response_101(H.request_key(req) or "", extra)
        H.HandshakePeer(conn, response=resp)

    H.make_net(on_conn)
    for step in range(rng.randrange(3, 6)):
        host = rng.choice(hosts)
        lines = [rng.choice(COOKIE_LINES) for _ in range(rng.choice([0, 1, 1, 2, 3]))]
        cur["lines"] = lines
        hist.append((host, lines))
        kw = {}
        if rng.random() < 0.3:
            kw["cookie"] = rng.choice(["c=1", "sid=mine", "", "a=1; b=2"])
        w = None
        try:
            w = W.create_connection(f"ws://{host}/", timeout=2, **kw)
            res.count("cookie_history_connects")
        except BaseException as e:  # noqa
            if isinstance(e, (KeyboardInterrupt, sched.SimAbort)):
                raise
            record_exception(res, W, e, "handshake", "cookie-history", dict(case, history=list(hist)), conns[-1] if conns else None)
            break
        finally:
            if w is not None:
                try:
                    w.shutdown()
                except Exception:  # noqa
                    pass
    res.case(("K", tuple((h, tuple(l)) for h, l in hist)), nontrivial=True)
    res.count("cookie_history_cases")
    H.reset_process_state()


def size_monitor(res, conn, phase, label, case):
    if conn is None:
        return
    if conn.max_recv_req > (1 << 20):
        res.violation("oversized-read", f"{phase}/{label}: transport asked for {conn.max_recv_req} bytes in one recv()", case,
                      phase=phase, input_class=label.split("@")[0])
    res.count("recv_sizes_checked", conn.recv_calls)


def handshake_case(res, W, rng, job, ji):
    _, label, data, emb = job
    H.reset_process_state()
    if ji % 7 == 0:
        W.enableTrace(True, handler=_NULL)
        res.count("handshake_cases_with_trace_on")
    ending = ("eof", "silence")[ji % 2]
    if emb == "random":
        n = rng.choice([1, 5, 20, 100, 400])
        mode = rng.randrange(4)
        if mode == 0:
            data = rng.randbytes(n)
        elif mode == 1:
            data = bytes(rng.choice(b"HTP/1.0 \r\n:;=-abc019\xff\x00") for _ in range(n))
        elif mode == 2:
            d = bytearray(VALID_HEAD)
            for _ in range(rng.randrange(1, 4)):
                d[rng.randrange(len(d))] = rng.randrange(256)
            data = bytes(d)
        else:
            d = bytearray(VALID_HEAD)
            i = rng.randrange(len(d))
            del d[i:i + rng.randrange(1, 6)]
            data = bytes(d)
    conns = []
    count = [0]

    def on_conn(conn):
        conns.append(conn)
        idx = count[0]
        count[0] += 1

        def resp(req):
            key = H.request_key(req) or ""
            acc = H.accept_for(key).encode()
            valid = VALID_HEAD.replace(b"%ACCEPT%", acc)
            if idx > 0 and b"loop" not in label.encode():
                return valid  # redirect targets answer properly
            if emb == "alone" or emb == "random":
                return data.replace(b"%ACCEPT%", acc)
            if emb == "then-blank-line":
                return data + b"\r\n\r\n"
            if emb == "replace-start":
                return data + valid[len(data):]
            return data.replace(b"%ACCEPT%", acc)
        p = H.HandshakePeer(conn, response=resp)
        if ending == "eof":
            p.on_open = lambda c: c.peer_close()

    H.make_net(on_conn)
    case = {"phase": "handshake", "label": label, "response": data, "ending": ending, "embedding": emb}
    res.count("handshake_cases")
    res.case(("H", data, emb, ending), nontrivial=True)
    w = None
    extra = {}
    if ji % 3 == 0:
        # a no_proxy list with CIDR blocks makes the proxy decision inspect every (redirect) host as an address
        extra = {"http_no_proxy": ["10.0.0.0/8", "127.0.0.0/8", ".internal.test"], "http_proxy_host": "proxy.test", "http_proxy_port": 3128}
        res.count("handshake_cases_with_proxy_config")
    try:
        w = W.create_connection("ws://127.0.0.1/" if extra else "ws://sim.test/", timeout=2, redirect_limit=2, **extra)
        res.count("handshake_connected")
    except BaseException as e:  # noqa
        if isinstance(e, (KeyboardInterrupt, sched.SimAbort)):
            raise
        record_exception(res, W, e, "handshake", label, case, conns[0] if conns else None)
    for c in conns:
        size_monitor(res, c, "handshake", label, case)
    if w is not None:
        try:
            w.shutdown()
        except Exception:  # noqa
            pass
    if label.startswith(("status", "err", "redirect", "non-utf8")):
        res.sample(case, cap=2)


import logging as _logging

_NULL = _logging.NullHandler()

API_VARIANTS = [("recv", {}), ("recv_data_frame", {}), ("recv_frame", {}), ("recv", {"skip_utf8_validation": True}),
                ("recv_data_frame", {"fire_cont_frame": True}), ("close", {}), ("recv", {"fire_cont_frame": True}),
                ("recv", {"fire_cont_frame": True, "skip_utf8_validation": True})]


def mutated_stream(rng):
    frames = []
    in_msg = False
    for _ in range(rng.randrange(1, 6)):
        r = rng.random()
        if r < 0.25:
            frames.append(R.encode(rng.choice([R.PING, R.PONG]), rng.randbytes(rng.choice([0, 5, 125]))))
        elif r < 0.35:
            frames.append(R.encode(R.CLOSE, rng.choice([b"", b"\x03\xe8", b"\x03\xe8bye", b"\x03", b"\x00\x00", b"\xff\xff" + b"x" * 100])))
        else:
            fin = rng.randrange(2)
            op = R.CONT if in_msg else rng.choice([R.TEXT, R.BINARY])
            body = rng.choice([b"", b"hello", "héllo€".encode(), rng.randbytes(rng.choice([3, 126, 300]))])
            frames.append(R.encode(op, body, fin=fin, key=rng.randbytes(4) if rng.random() < 0.2 else None))
            in_msg = not fin
    s = bytearray(b"".join(frames))
    m = rng.randrange(6)
    if m == 0 and s:
        s[rng.randrange(len(s))] = rng.randrange(256)
    elif m == 1 and s:
        s[rng.randrange(min(len(s), 4))] ^= 1 << rng.randrange(8)
    elif m == 2 and s:
        del s[rng.randrange(len(s)):]
    elif m == 3:
        s[0:0] = bytes([rng.randrange(256), rng.choice([126, 127, 254, 255])]) + rng.randbytes(rng.choice([1, 2, 8, 9]))
    elif m == 4 and s:
        i = rng.randrange(len(s))
        s[i:i] = rng.randbytes(rng.randrange(1, 5))
    return bytes(s)


def frame_case(res, W, rng, job, ji, tier):
    _, label, data, _ = job
    if label in ("hdr2", "hdr3"):
        pad = rng.randbytes(rng.choice([0, 3, 130, 300]))
        stream = data + pad
        variants = API_VARIANTS if tier == "thorough" else [API_VARIANTS[ji % len(API_VARIANTS)], API_VARIANTS[(ji // 7) % len(API_VARIANTS)]]
    elif label == "mutated":
        stream = mutated_stream(rng)
        variants = [rng.choice(API_VARIANTS)]
    else:
        stream = rng.randbytes(rng.choice([1, 2, 3, 10, 100, 1000]))
        if rng.random() < 0.5:
            stream = bytes([rng.choice([0x81, 0x82, 0x01, 0x02, 0x80, 0x88, 0x89, 0x8A, 0x00]), rng.choice([0, 1, 2, 10, 125, 126, 127])]) + stream
        variants = [rng.choice(API_VARIANTS)]
    ending = ("eof", "silence")[(ji // 3) % 2]
    trace_on = (ji % 5 == 0)
    W.enableTrace(trace_on, handler=_NULL)
    if trace_on:
        res.count("frame_cases_with_trace_on")
    for name, kw in variants:
        res.count("frame_cases")
        res.case(("F", stream, ending, name, tuple(kw)), nontrivial=True)
        case = {"phase": "frames", "label": label, "stream": stream, "ending": ending, "api": name, "ws_kwargs": kw}
        if name == "close":
            close_case(res, W, stream, ending, case, label)
            continue
        script = [(name, True)] * 8
        segs = None
        terr = None
        if ji % 6 == 1 and len(stream) > 1:
            # the transport itself fails in the middle of the stream with one of its own errors
            import ssl as _ssl
            terr = [_ssl.SSLError(1, "[SSL: DECRYPTION_FAILED_OR_BAD_RECORD_MAC] decryption failed or bad record mac (_ssl.c:2580)"),
                    _ssl.SSLError("The read operation timed out"), _ssl.SSLZeroReturnError(6, "TLS/SSL connection has been closed (EOF)"),
                    OSError(113, "No route to host"), ConnectionAbortedError(103, "Software caused connection abort"), OSError("no errno here"),
                    _ssl.SSLError(), TimeoutError()][(ji // 6) % 8]
            cut = rng.randrange(0, len(stream))
            segs = [stream[:cut], (net.ERROR, terr), stream[cut:]]
            res.count("transport_errors_injected")
        try:
            obs = H.run_recv_script(stream, script, segs=segs, ending=ending, ws_kwargs=kw, timeout=2)
        except BaseException as e:  # noqa
            if isinstance(e, (KeyboardInterrupt, sched.SimAbort)):
                raise
            record_exception(res, W, e, "frames", label, case, None)
            continue
        last = obs["trace"][-1]["out"] if obs["trace"] else None
        if last and last[0] == "exc":
            res.count("exceptions_classified")
            if last[1].startswith("other:"):
                fr = last[3]
                res.violation("internal-exception", f"frames/{label} {name} {kw}: {last[2]} raised in {fr}", case, phase="frames",
                              exc_type=last[1][6:], where=fr[1] if fr else None, input_class=label, api=name,
                              skip_utf8=bool(kw.get("skip_utf8_validation")))
            else:
                res.count(f"exc:frames:{last[1]}")
        size_monitor(res, obs["conn"], "frames", label, case)
        if terr is not None:
            continue  # values after an injected transport error are not compared with the model
        # value consistency with the reference decoder on the consumed prefix
        pred, model = M.predict(stream, script, ending=ending, per_fragment=bool(kw.get("fire_cont_frame")),
                                validate_utf8=not kw.get("skip_utf8_validation"))
        issues, judged, unj = M.compare(pred, obs, per_fragment=bool(kw.get("fire_cont_frame")))
        res.count("values_compared", judged)
        for kind, detail, fields in issues:
            if kind == "value-mismatch":
                res.violation("inconsistent-value", f"frames/{label} {name}: {detail}", case, phase="frames", input_class=label)
            else:
                res.count("legality_differences_left_to_C05:" + kind)


def close_case(res, W, stream, ending, case, label):
    """close() while hostile bytes are pending: must return, never raise an internal error"""
    w = conn = None
    try:
        w, conn, peer = H.connected_ws(after=stream, timeout=2)
        if ending == "eof":
            conn.peer_close()
        t0 = sched.CURRENT.now
        w.close(timeout=1)
        res.count("close_calls")
    except BaseException as e:  # noqa
        if isinstance(e, (KeyboardInterrupt, sched.SimAbort)):
            raise
        record_exception(res, W, e, "close", label, case, conn)
    size_monitor(res, conn, "close", label, case)


def declared_pairs(res, W, rng, i):
    """streams that differ only in a declared length: the largest read
    requested from the transport must not grow with the declaration"""
    res.count("declared_length_pairs")
    body = rng.randbytes(100_000)
    maxreq = {}
    if i < 3:
        name = ["recv", "recv_frame", "recv_data_frame"][i]
        for bits in (20, 40, 62):
            n = 1 << bits
            stream = bytes([0x82, 127]) + n.to_bytes(8, "big") + body
            case = {"phase": "frames", "label": "declared-length", "declared": n, "api": name}
            try:
                obs = H.run_recv_script(stream, [(name, True)], ending="eof", timeout=2)
                maxreq[bits] = obs["conn"].max_recv_req
                res.count("frame_cases")
                res.case(("D", name, bits), nontrivial=True)
                last = obs["trace"][-1]["out"]
                if last[0] == "exc" and last[1].startswith("other:"):
                    res.violation("internal-exception", f"declared length 2^{bits} via {name}: {last[2]}", case, phase="frames", exc_type=last[1][6:],
                                  where=last[3][1] if last[3] else None, input_class="declared-length")
            except BaseException as e:  # noqa
                if isinstance(e, (KeyboardInterrupt, sched.SimAbort)):
                    raise
                record_exception(res, W, e, "frames", "declared-length", case, None)
        res.notes[f"max_recv_req_by_declared_frame_length:{name}"] = dict(maxreq)
        if maxreq and max(maxreq.values()) > min(maxreq.values()):
            res.violation("read-size-follows-declared-length", f"{name}: max recv() size by declared 2^bits: {maxreq}", {"api": name, "sizes": maxreq},
                          phase="frames", field="frame-length")
    else:
        status = [b"404 Not Found", b"500 Oops", b"200 OK"][i - 3]
        for decl in (1 << 21, 10 ** 9, 10 ** 12):
            H.reset_process_state()
            conns = []

            def on_conn(conn, decl=decl):
                conns.append(conn)
                H.HandshakePeer(conn, response=lambda req: b"HTTP/1.1 " + status + b"\r\nContent-Length: " + str(decl).encode() + b"\r\n\r\n" + body[:1000],
                                on_open=lambda c: c.peer_close())
            H.make_net(on_conn)
            case = {"phase": "handshake", "label": "declared-content-length", "declared": decl, "status": status}
            res.count("handshake_cases")
            res.case(("D", status, decl), nontrivial=True)
            try:
                W.create_connection("ws://sim.test/", timeout=2)
            except BaseException as e:  # noqa
                if isinstance(e, (KeyboardInterrupt, sched.SimAbort)):
                    raise
                record_exception(res, W, e, "handshake", "declared-content-length", case, conns[0] if conns else None)
            if conns:
                maxreq[decl] = conns[0].max_recv_req
        res.notes[f"max_recv_req_by_content_length:{status[:3].decode()}"] = {str(k): v for k, v in maxreq.items()}
        if maxreq and max(maxreq.values()) > min(maxreq.values()):
            res.violation("read-size-follows-declared-length", f"error body: max recv() size by Content-Length: {maxreq}",
                          {"status": status, "sizes": {str(k): v for k, v in maxreq.items()}}, phase="handshake", field="content-length")
