"""C18 - the URL alone determines target, port, resource and TLS; all
addresses are tried."""
from __future__ import annotations

import errno
import itertools
import random
import socket as _socket

from .. import harness as H
from ..ref import url as RU
from ..sim import shim

SHARDS = {"quick": 8, "thorough": 16}
META = {
    "level": "fault_enumeration",
    "technique": "runtime monitoring with fault injection: parse_url() and the full connect path on a simulated resolver/network compared with an RFC 3986 reference URL model; every address list of length 1-4 over {accept, refused, unreachable, other error} enumerated, socket options/timeouts read from the simulated sockets",
    "claim": "For the URL grammar product (scheme x host form x port x path x query x slashes, including malformed variants) parse_url() and connect() agreed with the reference: host/port/resource/TLS for valid URLs (name and port handed to the resolver, TLS wrap requested exactly for wss, request line target), ValueError with zero resolver and socket events otherwise; for all 340 address lists of length 1..4 the attempts followed resolver order, refused/unreachable entries fell through, the first accepting address won, any other error was raised at once, the last error was raised when all failed, every socket tried had the timeout, the default options and the user options applied, and every failed socket was closed.",
    "trusted": "reference URL parser wsverif/ref/url.py (RFC 3986 generic syntax, no urllib); simulated resolver/network",
    "rule": "case = URL string or (address outcome list, sockopt setting, timeout); distinct by that; non-trivial for URLs with a non-default component or malformed, and for address lists of length >= 2",
    "exhaustive": {"quick": True, "thorough": True},
    "exhaustive_space": {"quick": "all 340 address outcome lists of length 1..4 over 4 outcomes x 2 option settings; URL grammar product strided by 11", "thorough": "all 340 address lists x 3 option settings; full URL grammar product"},
    "bounds": "fragments, empty queries, upper-case schemes and out-of-range/non-numeric ports are recorded but not judged beyond 'no network activity when refused'",
    "required_counters": ["urls_valid", "urls_refused", "address_lists"],
    "assumptions": [],
}
META["claim"] += " " + "Also: the repository's tests re-run with a contract on parse_url."
META["claim"] += " " + 'Round 3b: a foreign socket.setdefaulttimeout() in force while connecting with timeout None / a value; resolver answers mixing address families in every order; scheme spellings.'
META["claim"] += " " + 'Round 4: connection failures that take a while to come back (each within the socket timeout, together beyond it); the addresses of an HTTP proxy tried in order with the configured timeout (http_proxy_timeout given as well) and options.'
META["claim"] += " " + 'Round 5: paths beginning with / containing empty segments, dot segments, blanks, encoded slashes; user socket options that share an option number at different levels.'
META["claim"] += " " + 'Rounds 6-7: connect(timeout=0); hosts no resolver can encode (judged by the resolver call and the address error); unreachable = ENETUNREACH or EHOSTUNREACH; the four-argument socket option form and bytes values.'
META["claim"] += " " + 'Round 8: link-local addresses with scope ids - connect() is given the socket address as resolved.'

SCHEMES = ["ws", "wss", "http", "https", "", None, "wsx", "ftp", "WSS", "Wss", "WS"]  # None = no colon at all
HOSTS = ["example.test", "EXAMPLE.Test", "10.1.2.3", "[2001:db8::1]", "[::1]", "user:pw@auth.test", "", "a-b.c_d.test"]
PORTS = [None, "1", "80", "443", "8080", "65535", "65536", "0", "abc", ""]
PATHS = ["", "/", "/a/b", "/a;p=1", "/%7E", "/a;p=1/b;q", "/x/", "//v2/stream", "///a//b/", "//", "/a//b", "/.", "/../x", "/a b", "/%2F%2f", "/:80", "/@x", "/a\\b"]
QUERIES = [None, "x=1", "a=1&b=2", "q=a;b", "u=http://x/?y"]
SLASHES = ["//", "/", ""]


def run(res, tier, seed, shard, nshards):
    W = H.ws()
    rng = random.Random((seed << 8) ^ shard ^ 0xC18)
    H.scrub_env()
    if shard == 0:
        H.contracts_workload(res, ["parse_url"])

    def scen():
        # ---- URLs ----
        i = 0
        for sch, host, port, path, q, sl in itertools.product(SCHEMES, HOSTS, PORTS, PATHS, QUERIES, SLASHES):
            i += 1
            if tier == "quick" and i % 11:
                continue
            if (i // (11 if tier == "quick" else 1)) % nshards != shard:
                continue
            if sch is None:
                url = f"{sl}{host}" + (f"_{port}" if port else "") + path.replace(":", "") + (f"?{q}".replace(":", "") if q else "")
                if ":" in url:
                    continue
            else:
                url = f"{sch}:{sl}{host}" + (f":{port}" if port is not None else "") + path + (f"?{q}" if q is not None else "")
            url_case(res, W, url, full=(i % 7 == 0 or tier == "thorough"))
        # ---- the valid sub-grammar, completely, with many ports ----
        vports = [None, 1, 2, 79, 80, 81, 442, 443, 444, 1024, 8080, 32768, 65534, 65535] + [rng.randrange(1, 65536) for _ in range(6)]
        for sch, host, port, path, q in itertools.product(["ws", "wss"], [h for h in HOSTS if h], vports, PATHS, QUERIES):
            i += 1
            if i % nshards != shard:
                continue
            url = f"{sch}://{host}" + (f":{port}" if port is not None else "") + path + (f"?{q}" if q is not None else "")
            url_case(res, W, url, full=(i % 5 == 0 or tier == "thorough"))
        # ---- address lists ----
        outcomes = ["accept", "refused", "unreachable", "eperm"]
        k = 0
        for n in range(1, 5):
            for lst in itertools.product(outcomes, repeat=n):
                for setting in range(3):
                    k += 1
                    if k % nshards != shard:
                        continue
                    addr_case(res, W, rng, lst, setting)
                    if (k // nshards) % 4 == 1:
                        # the timeout given to connect() itself, on an object that already carries another one (0 / 0.0 are timeouts too)
                        addr_case(res, W, rng, lst, setting, connect_timeout=[0, 0.0, 2.5][setting])
                    if len(lst) >= 2 and (k // nshards) % 3 == 0:
                        # the same list with failures that take a while to come back (each well within the socket timeout, all
                        # of them together longer than it)
                        addr_case(res, W, rng, lst, setting, slow=True)
        # ---- through an HTTP proxy: the proxy's addresses are the ones tried, with the configured timeout and options ----
        for pi, (timeout, ptimeout) in enumerate([(1.5, 7), (5, 0.3), (None, 2), (2, None), (3, 3)]):
            for lst in (("accept",), ("refused", "accept"), ("unreachable", "refused", "accept")):
                if (pi + len(lst)) % nshards == shard % max(1, min(nshards, 8)) or nshards == 1:
                    proxy_addr_case(res, W, rng, lst, timeout, ptimeout)

    H.in_sim(scen, watchdog=3000)


def url_case(res, W, url, full):
    try:
        exp = RU.parse(url)
        verdict = "valid"
    except RU.Refused as e:
        exp, verdict = str(e), "refused"
    except RU.Unjudged as e:
        exp, verdict = str(e), "unjudged"
    case = {"url": url}
    res.case(("url", url), nontrivial=True)
    try:
        got = W._url.parse_url(url)
        kind = "ret"
    except ValueError as e:
        got, kind = e, "ValueError"
    except Exception as e:  # noqa
        got, kind = e, "other:" + type(e).__name__
    if verdict == "valid":
        res.count("urls_valid")
        if kind != "ret":
            res.violation("valid-url-refused", f"{url}: {kind}: {got}", case, url_class="valid")
        else:
            host, port, resource, secure = got
            if (host or "").lower() != exp[0] or port != exp[1] or bool(secure) != exp[3]:
                res.violation("url-target", f"{url}: parse_url {got!r}, reference {exp!r}", case, component="host/port/tls")
            elif resource != exp[2]:
                cls = "path-params" if ";" in url.split("?")[0] else "other"
                res.violation("url-resource", f"{url}: resource {resource!r}, reference {exp[2]!r}", case, component="resource", resource_class=cls)
    elif verdict == "refused":
        res.count("urls_refused")
        if kind != "ValueError":
            res.violation("malformed-url-not-refused", f"{url} ({exp}): {kind}: {got!r}", case, url_class=exp)
    else:
        res.count("urls_unjudged")
        res.count("urls_unjudged:" + exp)
        if exp == "scheme letter case" and kind == "ret":
            # whether WS:// / Wss:// are accepted is not specified; if they are, they mean what the lower-case scheme means
            host, port, resource, secure = got
            low = url.split(":", 1)[0].lower()
            try:
                e2 = RU.parse(low + ":" + url.split(":", 1)[1])
            except (RU.Refused, RU.Unjudged):
                e2 = None
            if e2 is not None and (bool(secure) != e2[3] or port != e2[1]):
                res.violation("url-target", f"{url}: accepted as {got!r}, but the scheme read case-insensitively means port {e2[1]} secure={e2[3]}", case, component="scheme-case")
    if not full:
        return
    # the same through connect(): network activity and what the network saw
    H.reset_process_state()
    conns = []
    net_ = H.make_net(lambda c: (conns.append(c), H.HandshakePeer(c)))
    u0 = shim.uses.get("ssl.wrap_socket", 0)
    try:
        w = W.create_connection(url, timeout=2)
        ckind = "ret"
    except ValueError:
        ckind = "ValueError"
        w = None
    except Exception as e:  # noqa
        ckind = "other:" + type(e).__name__
        w = None
    res.count("urls_through_connect")
    if verdict in ("refused",) or (verdict == "unjudged" and ckind != "ret"):
        if verdict == "refused" and ckind != "ValueError":
            res.violation("malformed-url-not-refused", f"connect({url}) ({exp}): {ckind}", case, url_class=exp, via="connect")
        if net_.resolver_calls or net_.sockets:
            res.violation("network-activity-for-refused-url", f"connect({url}): resolver calls {net_.resolver_calls}, sockets {len(net_.sockets)}", case)
    elif verdict == "valid":
        if ckind == "other:WebSocketAddressException" and not _resolvable(exp[0]):
            # a well-formed URL whose host no resolver can look up (an empty or over-long label): the URL is accepted, the name and
            # port reach the resolver, the resolver's failure is the library's documented address error and nothing is connected
            res.count("urls_unresolvable_host")
            rc = net_.resolver_calls
            if len(rc) != 1 or (rc[0][0] or "").lower() != exp[0] or int(rc[0][1]) != exp[1] or net_.sockets:
                res.violation("resolver-target", f"{url}: resolver asked for {rc!r} (sockets {len(net_.sockets)}), reference {exp[:2]!r}", case)
        elif ckind != "ret":
            res.violation("valid-url-refused", f"connect({url}): {ckind}", case, url_class="valid", via="connect")
        else:
            rc = net_.resolver_calls
            if len(rc) != 1 or (rc[0][0] or "").lower() != exp[0] or int(rc[0][1]) != exp[1]:
                res.violation("resolver-target", f"{url}: resolver asked for {rc!r}, reference {exp[:2]!r}", case)
            wrapped = shim.uses.get("ssl.wrap_socket", 0) - u0
            if bool(wrapped) != exp[3]:
                res.violation("tls-usage", f"{url}: TLS wrap calls {wrapped}, secure={exp[3]}", case)
            if exp[3] and net_.tls_wraps and net_.tls_wraps[-1]["server_hostname"] != rc[0][0]:
                res.count("tls_sni_differs_recorded")
            line = conns[0].hs.request.split(b"\r\n")[0].decode("latin-1")
            if line != f"GET {exp[2]} HTTP/1.1":
                cls = "path-params" if ";" in url.split("?")[0] else "other"
                res.violation("request-target", f"{url}: request line {line!r}, reference resource {exp[2]!r}", case, resource_class=cls)
            res.count("connect_checked")
    if w is not None:
        w.shutdown()
    res.sample(case, cap=3)


def _resolvable(host):
    try:
        host.encode("idna")
        return True
    except UnicodeError:
        return False


def proxy_addr_case(res, W, rng, lst, timeout, ptimeout):
    """ws://target.test:8123/room/7?k=v through the HTTP proxy proxy.test:3128 whose name resolves to len(lst) addresses;
    http_proxy_timeout is given as well (it belongs to the SOCKS path): every socket tried gets the configured timeout and options"""
    H.reset_process_state()
    net_ = H.make_net()
    ips = [f"203.0.113.{i + 1}" for i in range(len(lst))]
    net_.add_host("proxy.test", ips)
    tunnels = []
    for ip, o in zip(ips, lst):
        if o == "accept":
            net_.listen(ip, 3128, ("accept", lambda c: tunnels.append(H.TunnelPeer(c))))
        else:
            net_.listen(ip, 3128, (o,))
    user_opts = [(_socket.SOL_SOCKET, _socket.SO_RCVBUF, 8192)]
    kw = dict(http_proxy_host="proxy.test", http_proxy_port=3128, proxy_type="http")
    if ptimeout is not None:
        kw["http_proxy_timeout"] = ptimeout
    case = {"gen": "proxy-addresses", "outcomes": lst, "timeout": timeout, "http_proxy_timeout": ptimeout}
    res.case(("proxy-addr", lst, timeout, ptimeout), nontrivial=True)
    res.count("proxy_address_lists")
    try:
        w = W.create_connection("ws://target.test:8123/room/7?k=v", timeout=timeout, sockopt=user_opts, **kw)
    except Exception as e:  # noqa
        res.violation("address-loop-aborted", f"through proxy, addresses {lst}: {type(e).__name__}: {e}", case, exc_type=type(e).__name__)
        return
    attempts = [a[1][0] for a in net_.connect_attempts]
    if attempts != ips:
        res.violation("address-order", f"through proxy: attempted {attempts}, expected {ips}", case, first_outcome=lst[0])
    socks = [s for s in net_.sockets if not getattr(s, "is_tls", False)]
    default = [tuple(o) for o in W._socket.DEFAULT_SOCKET_OPTION]
    for i, s in enumerate(socks):
        if s.gettimeout() != timeout or any(t != timeout for t in s.timeouts_set):
            res.violation("timeout-not-applied", f"through proxy (timeout={timeout!r}, http_proxy_timeout={ptimeout!r}): socket {i} has timeout {s.gettimeout()!r} "
                          f"(set calls {s.timeouts_set})", case, foreign_default="None")
            break
        for o in default + [tuple(o) for o in user_opts]:
            if o not in s.opts:
                res.violation("sockopt-not-applied", f"through proxy: socket {i} lacks option {o}; has {s.opts}", case, which="user" if o in [tuple(x) for x in user_opts] else "default")
    if tunnels and tunnels[0].connect_request is not None:
        first = tunnels[0].connect_request.split(b"\r\n")[0]
        if first != b"CONNECT target.test:8123 HTTP/1.1":
            res.violation("url-target", f"through proxy: CONNECT line {first!r}", case)
        inner = tunnels[0].inner
        if inner is not None and inner.request is not None and not inner.request.startswith(b"GET /room/7?k=v HTTP/1.1\r\n"):
            res.violation("url-resource", f"through proxy: request line {inner.request.split(b'\r\n')[0]!r}", case)
    w.shutdown()


def addr_case(res, W, rng, lst, setting, slow=False, connect_timeout=None):
    H.reset_process_state()
    net_ = H.make_net()
    ips = [f"198.51.100.{i + 1}" for i in range(len(lst))]
    if setting == 2:
        # (every other one link-local: its socket address carries a scope id)
        ips = [(f"fe80::{i + 1}" if i % 2 else f"2001:db8::{i + 1}") for i in range(len(lst))]
    if setting == 1:
        # dual-stack answer: IPv6 and IPv4 addresses alternate, IPv6 first (the usual resolver ordering)
        ips = [(f"2001:db8::{i + 1}" if i % 2 == 0 else f"198.51.100.{i + 1}") for i in range(len(lst))]
    net_.add_host("multi.test", ips)
    errs = {}
    for ip, o in zip(ips, lst):
        if o == "accept":
            net_.listen(ip, 8080, ("accept", lambda c: H.HandshakePeer(c)))
        elif o == "refused":
            net_.listen(ip, 8080, ("refused", [1.35, 3.4, 1.0][setting] if slow else 0))
        elif o == "unreachable":
            # both ways an address can be unreachable: no route to its network, no route to the host itself
            how = errno.EHOSTUNREACH if (ips.index(ip) + len(lst) + setting) % 2 else errno.ENETUNREACH
            res.count("unreachable:" + errno.errorcode[how])
            net_.listen(ip, 8080, ("unreachable", [1.35, 3.4, 1.0][setting] if slow else 0, how))
        else:
            errs[ip] = PermissionError(errno.EPERM, "Operation not permitted")
            net_.listen(ip, 8080, ("error", errs[ip]))
    # option names are only unique within their level: SO_SNDBUF == TCP_SYNCNT == 7, SO_RCVBUF == TCP_LINGER2 == 8 on Linux
    user_opts = [[], [(_socket.SOL_SOCKET, _socket.SO_RCVBUF, 4096 + setting), (_socket.IPPROTO_TCP, getattr(_socket, "TCP_LINGER2", 8), 7)],
                 # (the last entry: setsockopt()'s other call form, (level, optname, None, optlen) - here: clear the IP options)
                 [(_socket.SOL_SOCKET, _socket.SO_SNDBUF, 20000), (_socket.IPPROTO_TCP, getattr(_socket, "TCP_SYNCNT", 7), 3), (_socket.SOL_SOCKET, _socket.SO_SNDBUF, 30000),
                  (_socket.IPPROTO_IP, getattr(_socket, "IP_OPTIONS", 4), None, 0), (_socket.SOL_SOCKET, _socket.SO_KEEPALIVE, b"\x01\x00\x00\x00")]][setting]
    timeout = [3, 7.5, None][setting]
    via = ["create_connection", "default-timeout", "connect"][(len(lst) + sum(map(len, lst)) + setting) % 3]
    if connect_timeout is not None:
        via = "connect-with-own-timeout"
        timeout = connect_timeout
        res.count("connect_calls_with_their_own_timeout")
    # somebody else in the process has set the interpreter-wide socket default: the library's own setting must still be applied
    foreign = 0.25 if (len(lst) + setting) % 2 == 0 else None
    _socket.setdefaulttimeout(foreign)
    try:
        if via == "create_connection":
            w = W.create_connection("ws://multi.test:8080/", timeout=timeout, sockopt=user_opts)
        elif via == "default-timeout":
            # the process-wide default applies when the caller gives no timeout
            W.setdefaulttimeout(timeout)
            w = W.create_connection("ws://multi.test:8080/", sockopt=user_opts)
        elif via == "connect-with-own-timeout":
            w = W.WebSocket(sockopt=user_opts)
            w.settimeout(7)
            w.connect("ws://multi.test:8080/", timeout=connect_timeout)
        else:
            w = W.WebSocket(sockopt=user_opts)
            w.connect("ws://multi.test:8080/", timeout=timeout)
        kind, exc = "ret", None
    except Exception as e:  # noqa
        kind, exc, w = "exc", e, None
    finally:
        W.setdefaulttimeout(None)
        _socket.setdefaulttimeout(None)
    res.count("via:" + via)
    if foreign is not None:
        res.count("with_foreign_stdlib_default_timeout")
    res.count("address_lists")
    if slow:
        res.count("address_lists_with_slow_failures")
    res.case(("addr", lst, setting, slow, connect_timeout), nontrivial=len(lst) >= 2)
    case = {"outcomes": lst, "setting": setting, "slow_failures": slow, "via": via, "timeout": timeout}
    # reference
    exp_attempts = []
    exp_result = None
    for ip, o in zip(ips, lst):
        exp_attempts.append(ip)
        if o == "accept":
            exp_result = ("connected", ip)
            break
        if o == "eperm":
            exp_result = ("raise", "PermissionError")
            break
    if exp_result is None:
        exp_result = ("raise", {"refused": "ConnectionRefusedError", "unreachable": "OSError"}[lst[-1]])
    attempts = [a[1][0] for a in net_.connect_attempts]

    def bad(kind_, detail, **kw):
        res.violation(kind_, f"addresses {lst} setting {setting}{' (slow failures)' if slow else ''}: {detail}", case, **kw)

    if attempts != exp_attempts:
        bad("address-order", f"attempted {attempts}, expected {exp_attempts}", first_outcome=lst[0])
    elif net_.connect_addresses != net_.resolved_addresses[:len(net_.connect_addresses)]:
        # the socket address goes to connect() as the resolver returned it (for IPv6: with flow info and scope id)
        bad("address-order", f"connect() was given {net_.connect_addresses}, the resolver had returned {net_.resolved_addresses}", first_outcome=lst[0], component="sockaddr")
    if exp_result[0] == "connected":
        if kind != "ret":
            bad("address-loop-aborted", f"raised {type(exc).__name__}: {exc} although {exp_result[1]} accepts", exc_type=type(exc).__name__)
    else:
        if kind == "ret":
            bad("address-loop-connected", "returned a connection although no address may be used")
        elif type(exc).__name__ != exp_result[1] and not (exp_result[1] == "OSError" and type(exc) is OSError):
            bad("address-error", f"raised {type(exc).__name__}, expected {exp_result[1]} (the last error)", exc_type=type(exc).__name__)
    socks = [s for s in net_.sockets if not getattr(s, "is_tls", False)]
    if len(socks) != len(attempts):
        bad("socket-count", f"{len(socks)} sockets for {len(attempts)} attempts")
    default = [tuple(o) for o in W._socket.DEFAULT_SOCKET_OPTION]
    for i, s in enumerate(socks):
        if s.gettimeout() != timeout and not (i == len(socks) - 1 and exp_result[0] == "connected"):
            bad("timeout-not-applied", f"socket {i} has timeout {s.gettimeout()!r} (set calls {s.timeouts_set}), configured {timeout!r}", foreign_default=repr(foreign))
        elif i == len(socks) - 1 and exp_result[0] == "connected" and s.gettimeout() != timeout:
            bad("timeout-not-applied", f"connected socket has timeout {s.gettimeout()!r} (set calls {s.timeouts_set}), configured {timeout!r}", foreign_default=repr(foreign))
        for o in default + [tuple(o) for o in user_opts]:
            if o not in s.opts:
                bad("sockopt-not-applied", f"socket {i} lacks option {o}; has {s.opts}", which="user" if o in [tuple(x) for x in user_opts] else "default")
        failed = i < len(socks) - 1 or exp_result[0] == "raise"
        if failed and not s._closed:
            bad("failed-socket-not-closed", f"socket {i} ({attempts[i] if i < len(attempts) else '?'}) left open")
    if w is not None:
        w.shutdown()
    res.sample(case, cap=2)
