"""C19 - proxying is decided by options, environment and no_proxy exactly as
documented; CONNECT tunnel."""
from __future__ import annotations

import base64
import itertools
import os
import random

from .. import harness as H
from ..ref import http as RH
from ..sim import shim

SHARDS = {"quick": 9, "thorough": 17}  # the last shard runs the SOCKS part with a stand-in for python_socks on the import path
META = {
    "level": "exploration",
    "technique": "runtime monitoring: get_proxy_info() and the full connect path on a simulated network (address dialled, bytes written before the WebSocket request, TLS server name, Host of the tunnelled request) compared with an executable model of the documented proxy rules",
    "claim": "For all combinations of proxy option, the four proxy environment variables and the no_proxy sources, host names enumerated exhaustively over labels {a,b,ab,ba} up to 3 labels against every leading-dot domain over the same labels (all look-alike suffixes), IPv4 addresses inside/outside/at the edges of canonical CIDR blocks of every prefix length 0..32, proxy replies of every status class, garbage and EOF, and credentials none/user+password/unicode, the proxy decision, the dialled address, the CONNECT request, the 200-only gate, the TLS server name and the tunnelled upgrade request matched the model.",
    "trusted": "reference rules in this file (from the property text); simulated network and TLS wrap",
    "rule": "case = (host, no_proxy entry) / (ip, block) / (env+option combination, scheme) / (proxy reply, scheme, credentials); distinct by that tuple; non-trivial when a proxy source or a no_proxy entry is present",
    "exhaustive": {"quick": True, "thorough": True},
    "exhaustive_space": {"quick": "84 hosts x 84 leading-dot domains; 33 prefix lengths x edge addresses; 2^5 proxy-source subsets x 2 schemes x 4 no_proxy sources",
                         "thorough": "340 hosts x 340 leading-dot domains (labels {a,b,ab,ba}, up to 4 labels); 300 random canonical blocks per prefix length with edge addresses; all reply/credential combinations"},
    "bounds": "the real python_socks package is absent: the SOCKS branch is driven through a stand-in that records what the library hands to it (calling convention only); lower/upper-case env precedence, user-only credentials and non-canonical CIDR blocks recorded, not judged",
    "required_counters": ["exempt_cases", "proxied_cases", "tunnel_cases"],
    "assumptions": ["python_socks absent"],
}
META["claim"] += " " + 'Also: Basic credentials of 58+ bytes, redirects whose hops differ in the proxy decision, and the same decisions through WebSocketApp.run_forever().'
META["claim"] += " " + 'Round 3b: IPv6 literal targets against CIDR / literal / name no_proxy lists; WebSocketApp with an environment proxy and the exemption passed as run_forever option.'
META["claim"] += " " + 'Round 4: credentials whose base64 form needs + and /; no_proxy entries with a slash that are no IPv4 block, before and after a valid block, for every prefix length.'
META["claim"] += " " + 'Round 5: IPv4 targets in their other legal spellings (127.1, 2130706433, 0x7f.0.0.1, 0177.0.0.1 ...) against CIDR lists; REQUEST_METHOD / ALL_PROXY in the environment.'
META["claim"] += " " + "Rounds 6-7: unescaped sub-delimiters in environment credentials, a shared empty no_proxy list; credentials with blanks at the ends; overlapping / nested / doubled blocks in one list; the SOCKS branch driven through a stand-in for python_socks (dedicated shard): proxy used exactly when the target is not exempt, type / remote-DNS flag / address / credentials / destination handed over as configured, TLS with the origin's name through the tunnel, upgrade request addressed to the origin."
META["claim"] += " " + 'Round 8: 2xx CONNECT replies carrying Content-Length / Transfer-Encoding.'

LABELS = ["a", "b", "ab", "ba"]


def names(maxl=3):
    out = []
    for n in range(1, maxl + 1):
        for t in itertools.product(LABELS, repeat=n):
            out.append(".".join(t))
    return out


def ref_exempt(host, lst):
    if not lst:
        return False
    if "*" in lst:
        return True
    if host in lst:
        return True
    if ":" in host:
        return False  # an IPv6 literal is in no IPv4 block and in no DNS domain
    ip = ip_int(host)
    if ip is None:
        ip = aton_int(host)  # the other legal spellings of an IPv4 address: 127.1, 2130706433, 0x7f.0.0.1, 0177.0.0.1
    if ip is not None:
        for e in lst:
            if "/" in e:
                base, p = e.split("/", 1)
                b = ip_int(base)
                if b is None or not (p.isascii() and p.isdigit()) or not 0 <= int(p) <= 32:
                    continue  # not an IPv4 block at all: matches nothing
                p = int(p)
                mask = (0xFFFFFFFF << (32 - p)) & 0xFFFFFFFF
                if b & ~mask & 0xFFFFFFFF:
                    continue  # non-canonical block: not judged by generator anyway
                if ip & mask == b:
                    return True
        return False
    for e in lst:
        if e.startswith("."):
            d = e[1:]
            if host == d or host.endswith("." + d):
                return True
    return False


def ip_int(s):
    parts = s.split(".")
    if len(parts) != 4 or not all(p.isascii() and p.isdigit() and 0 <= int(p) <= 255 and (p == "0" or not p.startswith("0")) for p in parts):
        return None  # (a leading zero means octal to the resolver: left to aton_int)
    v = 0
    for p in parts:
        v = (v << 8) | int(p)
    return v


def aton_int(s):
    import socket
    if not s or not all(ch in "0123456789abcdefxABCDEFX." for ch in s):
        return None
    try:
        return int.from_bytes(socket.inet_aton(s), "big")
    except OSError:
        return None


def ip_str(v):
    return ".".join(str((v >> s) & 255) for s in (24, 16, 8, 0))


def set_env(env):
    H.scrub_env()
    for k, v in env.items():
        os.environ[k] = v


def run(res, tier, seed, shard, nshards):
    socks_shard = shard == nshards - 1
    nshards -= 1
    if socks_shard:
        import sys
        sys.path.insert(0, os.path.join(os.path.dirname(os.path.dirname(os.path.abspath(__file__))), "standins_socks"))
        W = H.ws()
        from . import _c19_socks
        H.in_sim(lambda: _c19_socks.socks_cases(res, W, random.Random((seed << 8) ^ 0x50C5), tier), watchdog=600)
        return
    W = H.ws()
    rng = random.Random((seed << 8) ^ shard ^ 0xC19)
    H.scrub_env()
    gpi = W._url.get_proxy_info
    k = 0

    def decide(host, secure, lst, tag, **vfields):
        nonlocal k
        exp = ref_exempt(host, lst)
        try:
            got = gpi(host, secure, "proxy.test", 3128, None, lst)
        except Exception as e:  # noqa
            res.violation("get_proxy_info-raised", f"{tag}: {type(e).__name__}: {e}", {"host": host, "no_proxy": lst}, exc_type=type(e).__name__, **vfields)
            return
        res.case((host, tuple(lst)), nontrivial=True)
        got_exempt = got[0] is None
        res.count("exempt_cases" if exp else "proxied_cases")
        if got_exempt != exp:
            res.violation("no_proxy-decision", f"{tag}: host {host!r} no_proxy {lst!r}: exempt={got_exempt}, documented rule says {exp}",
                          {"host": host, "no_proxy": lst}, expected_exempt=exp, **vfields)
        elif not exp and got != ("proxy.test", 3128, None):
            res.violation("proxy-info", f"{tag}: {got!r}", {"host": host, "no_proxy": lst}, **vfields)

    # (a) names x leading-dot domains -----------------------------------------
    hosts = names(3 if tier == "quick" else 4)
    for hi, h in enumerate(hosts):
        if hi % nshards != shard:
            continue
        for d in hosts:
            look = "lookalike" if (h.endswith(d) and not (h == d or h.endswith("." + d))) else "plain"
            decide(h, False, ["." + d], "domain", rule="leading-dot", name_class=look)
        decide(h, True, [h], "self", rule="host-itself")
        decide(h, False, ["*"], "star", rule="star")
        decide(h, False, ["x.test", "*", ".zz"], "star-in-list", rule="star")
        decide(h, False, [hosts[(hi + 1) % len(hosts)]], "other-host", rule="host-itself")
        decide(h, False, [], "empty", rule="none")
    # (a2) IPv6 literal targets: never inside an IPv4 block; exempt only when listed themselves or by "*"
    if shard == 3 % nshards:
        for h6 in ("::1", "2001:db8::1", "fe80::1", "::ffff:10.1.2.3"):
            for lst in (["10.0.0.0/8"], ["0.0.0.0/0"], ["127.0.0.0/8", ".a"], ["10.1.2.3/32", "other.test"], [h6], ["*"], ["10.0.0.0/8", h6], []):
                decide(h6, False, lst, "ipv6-literal", rule="ipv6")
                decide(h6, True, lst, "ipv6-literal", rule="ipv6")
    # (a3) IPv4 targets in their other legal spellings (short forms, one integer, hex / octal octets): same address, same blocks
    if shard == 4 % nshards:
        for spelled, dotted in (("127.1", "127.0.0.1"), ("2130706433", "127.0.0.1"), ("0x7f.0.0.1", "127.0.0.1"), ("0177.0.0.1", "127.0.0.1"), ("127.0.0.01", "127.0.0.1"),
                                ("10.1", "10.0.0.1"), ("10.1.2", "10.1.0.2"), ("0xa000001", "10.0.0.1"), ("192.168.513", "192.168.2.1")):
            for lst in (["127.0.0.0/8"], ["10.0.0.0/8"], ["192.168.0.0/16", ".a"], ["127.0.0.1/32"], ["10.0.0.1/32", "other.test"], ["172.16.0.0/12"], [dotted], [spelled], []):
                decide(spelled, False, lst, "ipv4-other-spelling", rule="cidr-other-spelling")
                res.count("ipv4_other_spellings_checked")
    # (a4) one (empty) list object given as the no_proxy option again and again while the environment's no_proxy changes: every
    #      decision reads the environment of its own moment, and the caller's list comes back as it went in
    if shard == 5 % nshards:
        for first_env, second_env in (("exempt.test,10.0.0.0/8", None), (None, "exempt.test"), ("a.test", "exempt.test"), ("*", None), ("exempt.test", "other.test")):
            for container in ("list", "tuple-then-list"):
                shared = []
                H.scrub_env()
                outcomes = []
                for envv in (first_env, second_env, first_env):
                    H.scrub_env()
                    if envv is not None:
                        os.environ["no_proxy"] = envv
                    try:
                        got = gpi("exempt.test", False, "proxy.test", 3128, None, shared if container == "list" else (tuple(shared) if not outcomes else shared))
                    except Exception as e:  # noqa
                        res.violation("get_proxy_info-raised", f"shared empty no_proxy list: {type(e).__name__}: {e}", {"env": envv}, exc_type=type(e).__name__, rule="shared-list")
                        break
                    finally:
                        H.scrub_env()
                    exp_exempt = bool(envv) and ref_exempt("exempt.test", [x.strip() for x in envv.split(",")])
                    outcomes.append((envv, got[0] is None, exp_exempt))
                res.case(("shared-empty-list", first_env, second_env, container), nontrivial=True)
                res.count("shared_no_proxy_list_cases")
                wrong = [(e, g, x) for (e, g, x) in outcomes if g != x]
                if wrong or shared != []:
                    res.violation("no_proxy-decision", f"one empty no_proxy list object reused while $no_proxy went {first_env!r} -> {second_env!r} -> {first_env!r}: "
                                  f"(environment, exempt, expected) = {outcomes}; the caller's list is now {shared!r}", {"host": "exempt.test", "no_proxy": shared},
                                  expected_exempt=None, rule="shared-list")
    # (b) IPv4 blocks -------------------------------------------------------------
    for p in range(33):
        if p % nshards != shard:
            continue
        reps = 2 if tier == "quick" else 300
        for _ in range(reps):
            hostmask = (1 << (32 - p)) - 1
            base = rng.getrandbits(32) & ~hostmask & 0xFFFFFFFF
            block = f"{ip_str(base)}/{p}"
            cands = {base, base | hostmask, base | (rng.getrandbits(32) & hostmask)}
            if base > 0:
                cands.add(base - 1)
            if (base | hostmask) < 0xFFFFFFFF:
                cands.add((base | hostmask) + 1)
            if p > 0:
                cands.add(base ^ (1 << (32 - p)))
            cands.add(rng.getrandbits(32))
            for ip in sorted(cands):
                decide(ip_str(ip), rng.random() < 0.5, [block], f"cidr/{p}", rule="cidr", prefix=p)
                decide(ip_str(ip), False, ["other.test", block, ".a"], f"cidr-in-list/{p}", rule="cidr", prefix=p)
        # several blocks in one list that overlap, nest or share their network address (a wide one and a narrow one, either order,
        # the same block twice): a target is exempt when any of them contains it
        for q in sorted({0, 8, 16, 24, 32, (p + 7) % 33, (p * 5) % 33} - {p}):
            wide, narrow = min(p, q), max(p, q)
            wmask = (1 << (32 - wide)) - 1
            nmask = (1 << (32 - narrow)) - 1
            base = rng.getrandbits(32) & ~wmask & 0xFFFFFFFF
            b_wide, b_narrow = f"{ip_str(base)}/{wide}", f"{ip_str(base)}/{narrow}"
            in_narrow = base | (rng.getrandbits(32) & nmask)
            in_wide_only = base | (rng.getrandbits(32) & wmask) | (1 << (32 - narrow) if narrow > wide and narrow <= 32 and (1 << (32 - narrow)) & wmask else 0)
            for lst in ([b_wide, b_narrow], [b_narrow, b_wide], [b_wide, b_wide], [b_narrow, "other.test", b_wide, b_narrow]):
                for ip in (in_narrow, in_wide_only, base, base | wmask):
                    decide(ip_str(ip), rng.random() < 0.5, lst, f"cidr-overlapping/{wide}+{narrow}", rule="cidr-overlap", prefix=p)
                    res.count("lists_with_overlapping_blocks")
        res.count(f"prefix_lengths_seen")
        # entries with a slash that are no IPv4 block (IPv6 blocks, names, out-of-range or missing prefix lengths) match nothing
        # and hide nothing: a valid block before or after them still decides
        for bad_entry in ("::1/128", "fe80::/10", "name/8", "1.2.3.4/33", "/8", "1.2.3/8", "10.0.0.0/", "10.0.0.0/x", "10.0.0.0/-1", "10.0.0.0/8/8", "300.1.1.1/8"):
            hostmask = (1 << (32 - p)) - 1
            base = rng.getrandbits(32) & ~hostmask & 0xFFFFFFFF
            block = f"{ip_str(base)}/{p}"
            inside = base | (rng.getrandbits(32) & hostmask)
            for lst in ([bad_entry, block], [block, bad_entry], [bad_entry], ["other.test", bad_entry, ".a", block]):
                decide(ip_str(inside), False, lst, f"cidr-with-invalid-entry/{p}", rule="cidr-invalid-neighbour", prefix=p)
                res.count("lists_with_invalid_slash_entries")

    # (c) proxy sources: option x env vars x scheme x no_proxy source -----------
    srcs = ["opt", "http_proxy", "https_proxy", "HTTP_PROXY", "HTTPS_PROXY"]
    combos = []
    for r in range(0, len(srcs) + 1):
        for sub in itertools.combinations(srcs, r):
            for secure in (False, True):
                for nps in ("none", "option", "env", "ENV"):
                    for target in ("in", "out"):
                        combos.append((sub, secure, nps, target))
    for ci, (sub, secure, nps, target) in enumerate(combos):
        if ci % nshards != shard:
            continue
        env = {}
        for s in sub:
            if s != "opt":
                env[s] = f"http://{'U' if s.isupper() else 'l'}{'s' if 'https' in s.lower() else 'p'}.proxy.test:{3000 + srcs.index(s)}"
        host = "in.corp.test" if target == "in" else "out.example.test"
        np_list = [".corp.test"]
        # unrelated variables that other software gives a meaning to (a CGI gateway's REQUEST_METHOD makes urllib distrust HTTP_PROXY;
        # ALL_PROXY / all_proxy are honoured by curl-like tools): the documented decision does not depend on them
        noise = {}
        if ci % 3 == 1:
            noise = {"REQUEST_METHOD": "GET"} if ci % 2 else {"REQUEST_METHOD": "", "ALL_PROXY": "http://all.proxy.test:1", "all_proxy": "socks5://all.proxy.test:2"}
            env.update(noise)
            res.count("proxy_source_cases_with_unrelated_env")
        kw = {}
        if nps == "option":
            kw["no_proxy"] = np_list
        elif nps == "env":
            env["no_proxy"] = ",".join(np_list)
        elif nps == "ENV":
            env["NO_PROXY"] = ", ".join(np_list)
        set_env(env)
        opt = ("opt.proxy.test", 8888) if "opt" in sub else (None, 0)
        try:
            got = gpi(host, secure, opt[0], opt[1], None, kw.get("no_proxy"))
        except Exception as e:  # noqa
            res.violation("get_proxy_info-raised", f"sources {sub} secure={secure}: {type(e).__name__}: {e}", {"sources": sub}, exc_type=type(e).__name__)
            continue
        finally:
            H.scrub_env()
            for k_ in noise:
                os.environ.pop(k_, None)
        res.case(("src", sub, secure, nps, target, tuple(sorted(noise))), nontrivial=bool(sub))
        exempt = nps != "none" and target == "in"
        fam = "https_proxy" if secure else "http_proxy"
        allowed = set()
        if not exempt:
            if "opt" in sub:
                allowed = {("opt.proxy.test", 8888)}
            else:
                for s in sub:
                    if s.lower() == fam:
                        allowed.add((f"{'U' if s.isupper() else 'l'}{'s' if 'https' in s.lower() else 'p'}.proxy.test", 3000 + srcs.index(s)))
        res.count("exempt_cases" if exempt else ("proxied_cases" if allowed else "direct_cases"))
        g = (got[0].lower(), got[1]) if got[0] else None
        allowed = {(a.lower(), b) for a, b in allowed}
        case = {"sources": sub, "secure": secure, "no_proxy_source": nps, "target": host, "unrelated_env": noise}
        if not allowed:
            if g is not None:
                why = "exempt" if exempt else "no proxy configured for this scheme"
                res.violation("proxied-but-should-be-direct", f"{case}: got {got!r} ({why})", case, reason=why)
        elif g not in allowed:
            res.violation("proxy-source", f"{case}: got {got!r}, expected one of {sorted(allowed)}", case)
        if len(allowed) > 1:
            res.count("env_case_precedence_recorded")

    # (d) tunnel through the simulated network ------------------------------------
    def scen():
        replies = ["200", "200-lower", "201", "204", "301", "407", "403", "404", "500", "503", "garbage", "eof", "200-extra-headers",
                   # a Content-Length (or Transfer-Encoding) on the 2xx reply to CONNECT means nothing (RFC 9110 9.3.6): the tunnel starts right behind the head
                   "200-content-length", "200-content-length-0", "200-chunked"]
        creds = [None, ("user", "pass"), ("üser", "pässwörd"), ("user", None),
                 ("firstname.lastname@example-corporation.test", "tok_" + "A1b2C3d4" * 9), ("u" * 28, "p" * 29), ("u" * 28, "p" * 28),
                 # credentials whose base64 form uses the characters + and / (and padding of every length)
                 ("svc", "pass?"), ("a", "x>y?z~"), ("~~~", ">>>"), ("k?", "?>"), ("ab", "~"),
                 ("svc+ws", "Tr1+x+9"), ("a+b", "c d+e"), ("u!$'()*,;=", "p+%2B"),
                 # blanks and tabs at the ends are part of the credentials (RFC 7617 allows any character but CTLs in a password)
                 ("alice", "s3cret "), (" bob", "pw"), ("carol", "tab\t"), ("dave", " both "), ("  ", "  "),
                 ("".join(rng.choice("abcXYZ019?>~<|}{") for _ in range(rng.randrange(1, 9))), "".join(rng.choice("abcXYZ019?>~<|}{") for _ in range(rng.randrange(1, 12))))]
        idx = 0
        for reply in replies:
            for secure in (False, True):
                for cred in creds:
                    for via in ("option", "env"):
                        idx += 1
                        if idx % nshards != shard:
                            continue
                        tunnel_case(res, W, rng, reply, secure, cred, via)
        # redirects: the proxy decision is taken per hop
        if shard == 1 % nshards:
            for variant in ("exempt-then-proxied", "proxied-then-exempt", "ws-env-then-wss", "wss-env-then-ws"):
                redirect_hops_case(res, W, variant)
        # the same decision through WebSocketApp.run_forever(), which forwards its own (partly defaulted) proxy options
        if shard == 2 % nshards:
            for variant in ("option", "option+type-http", "env", "option-exempt", "env-exempt-by-option", "env-exempt-by-star", "none"):
                for secure in (False, True):
                    app_path_case(res, W, variant, secure)
        # direct connection when exempt: no CONNECT, origin dialled
        if shard == 0:
            tunnel_case(res, W, rng, "200", False, None, "option", exempt=True)
            tunnel_case(res, W, rng, "200", True, None, "env", exempt=True)

    H.in_sim(scen, watchdog=3000)
    H.scrub_env()


def tunnel_case(res, W, rng, reply, secure, cred, via, exempt=False):
    H.reset_process_state()
    H.scrub_env()
    state = {"connect_req": None, "after": bytearray(), "origin_conns": [], "proxy_conns": []}

    def proxy_conn(conn):
        state["proxy_conns"].append(conn)
        buf = bytearray()
        inner = {"peer": None}

        def data(c, d):
            if inner["peer"] is not None:
                inner["peer"]._data(c, d)
                return
            buf.extend(d)
            i = buf.find(b"\r\n\r\n")
            if i < 0:
                return
            state["connect_req"] = bytes(buf[:i + 4])
            rest = bytes(buf[i + 4:])
            if reply.startswith("200"):
                line = {"200": b"HTTP/1.1 200 Connection established\r\n\r\n", "200-lower": b"HTTP/1.0 200 ok\r\n\r\n",
                        "200-extra-headers": b"HTTP/1.1 200 OK\r\nVia: 1.1 p\r\nProxy-Agent: x\r\n\r\n",
                        "200-content-length": b"HTTP/1.1 200 Connection established\r\nContent-Length: 137\r\nContent-Type: text/html\r\n\r\n",
                        "200-content-length-0": b"HTTP/1.1 200 Connection established\r\nContent-Length: 0\r\n\r\n",
                        "200-chunked": b"HTTP/1.1 200 Connection established\r\nTransfer-Encoding: chunked\r\n\r\n"}[reply]
                c.deliver(line)
                inner["peer"] = H.HandshakePeer(c)
                c.on_client_data = data
                if rest:
                    inner["peer"]._data(c, rest)
            elif reply == "garbage":
                c.deliver(b"\x00\x01garbage\r\n\r\n")
            elif reply == "eof":
                c.peer_close()
            else:
                c.deliver(f"HTTP/1.1 {reply} X\r\nContent-Length: 0\r\n\r\n".encode())
        conn.on_client_data = data
        conn.tunnel_inner = inner

    def origin_conn(conn):
        state["origin_conns"].append(conn)
        H.HandshakePeer(conn)

    net_ = H.make_net(origin_conn, hosts={"proxy.test": ["203.0.113.9"], "origin.test": ["198.51.100.7"]})
    net_.listen("203.0.113.9", 3128, ("accept", proxy_conn))
    scheme = "wss" if secure else "ws"
    url = f"{scheme}://origin.test:9443/chat?x=1"
    opts = {}
    if via == "option":
        opts.update(http_proxy_host="proxy.test", http_proxy_port=3128)
        if cred:
            opts["http_proxy_auth"] = cred
    else:
        auth = ""
        if cred:
            from urllib.parse import quote
            # sub-delimiters such as + ! $ ' ( ) * , ; = stand for themselves in the userinfo part (RFC 3986): written unescaped
            auth = quote(cred[0], safe="+!$'()*,;=") + (":" + quote(cred[1], safe="+!$'()*,;=") if cred[1] else "") + "@"
        os.environ["https_proxy" if secure else "http_proxy"] = f"http://{auth}proxy.test:3128"
    if exempt:
        opts["http_no_proxy"] = ["origin.test"]
    try:
        w = W.create_connection(url, timeout=2, **opts)
        kind, exc = "ret", None
    except Exception as e:  # noqa
        kind, exc, w = "exc", e, None
    finally:
        H.scrub_env()
    res.count("tunnel_cases")
    res.case(("tunnel", reply, secure, cred, via, exempt), nontrivial=True)
    case = {"reply": reply, "secure": secure, "cred": cred, "via": via, "exempt": exempt}

    def bad(kind_, detail, **kw):
        res.violation(kind_, f"{case}: {detail}", case, **kw)

    dialled = [a[1] for a in net_.connect_attempts]
    if exempt:
        if dialled != [("198.51.100.7", 9443)] or state["connect_req"] is not None:
            bad("exempt-target-proxied", f"dialled {dialled}")
        if w:
            w.shutdown()
        return
    if dialled != [("203.0.113.9", 3128)]:
        bad("dialled-address", f"dialled {dialled}, expected the proxy only")
        if w:
            w.shutdown()
        return
    req = state["connect_req"]
    if req is None:
        bad("no-connect-request", f"first bytes {bytes(state['proxy_conns'][0].sent[:40])!r}")
        return
    try:
        method, target, version, headers, rest = RH.parse_request(req)
    except RH.Malformed as e:
        bad("connect-malformed", str(e))
        return
    if method != "CONNECT" or target != "origin.test:9443":
        bad("connect-target", f"{method} {target}")
    if [v.lower() for v in RH.get_all(headers, "Host")] != ["origin.test:9443"]:
        bad("connect-host", repr(RH.get_all(headers, "Host")))
    pa = RH.get_all(headers, "Proxy-Authorization")
    if cred is None:
        if pa:
            bad("unexpected-proxy-authorization", repr(pa))
    elif cred[1] is None:
        res.count("user_only_credentials_recorded")
    else:
        want = "Basic " + base64.b64encode(f"{cred[0]}:{cred[1]}".encode("utf-8")).decode()
        if pa != [want]:
            bad("proxy-authorization", f"{pa!r}, expected {want!r}", unicode=any(ord(ch) > 127 for ch in cred[0] + cred[1]))
    ok = reply.startswith("200")
    pconn = state["proxy_conns"][0]
    if ok:
        if kind != "ret":
            bad("tunnel-failed-on-200", f"{type(exc).__name__}: {exc}", exc_type=type(exc).__name__)
            return
        inner = pconn.tunnel_inner["peer"]
        if inner is None or inner.request is None:
            bad("no-upgrade-through-tunnel", "")
        else:
            m2, t2, v2, h2, _ = RH.parse_request(inner.request)
            if t2 != "/chat?x=1" or [v.lower() for v in RH.get_all(h2, "Host")] != ["origin.test:9443"]:
                bad("tunnelled-request", f"{t2} Host={RH.get_all(h2, 'Host')}")
        if secure:
            if not pconn.tls or pconn.tls["server_hostname"] != "origin.test":
                bad("tunnel-tls-name", f"tls={pconn.tls}")
            # TLS must start after the CONNECT exchange, before the upgrade request
            kinds = [ev[2] for ev in pconn.log]
            if "tls" not in kinds:
                bad("tunnel-tls-missing", "")
        elif pconn.tls:
            bad("ws-wrapped-in-tls", repr(pconn.tls))
        w.shutdown()
    else:
        res.count("non200_replies")
        if kind == "ret":
            bad("proceeded-on-non-200", f"reply {reply}: connect() returned", reply=reply)
            w.shutdown()
        else:
            res.count("non200_exc:" + type(exc).__name__)
            extra = bytes(pconn.sent[len(req):])
            if extra:
                bad("bytes-after-refused-connect", f"{len(extra)} bytes written after the proxy refused", reply=reply)
            if not pconn.client_closed:
                bad("proxy-transport-leaked", f"reply {reply}", reply=reply)
    res.sample(case, cap=3)


def redirect_hops_case(res, W, variant):
    """hop 1 answers 302 to a second origin; each hop's route (direct / through the proxy) follows from its own
    host and scheme"""
    H.reset_process_state()
    H.scrub_env()
    log = []  # (who, first line)

    def proxy_conn(conn):
        buf = bytearray()
        inner = {"peer": None}

        def data(c, d):
            if inner["peer"] is not None:
                inner["peer"]._data(c, d)
                return
            buf.extend(d)
            i = buf.find(b"\r\n\r\n")
            if i < 0:
                return
            line = bytes(buf[:i]).split(b"\r\n")[0].decode()
            log.append(("proxy", line))
            rest = bytes(buf[i + 4:])
            c.deliver(b"HTTP/1.1 200 Connection established\r\n\r\n")
            target = line.split(" ")[1]
            inner["peer"] = H.HandshakePeer(c, response=origin_response(target.split(":")[0]))
            if rest:
                inner["peer"]._data(c, rest)
        conn.on_client_data = data

    def origin_response(hostname):
        def resp(req):
            key = H.request_key(req) or ""
            if hostname == "first.test":
                return f"HTTP/1.1 302 Found\r\nLocation: {second_url}\r\n\r\n".encode()
            return H.response_101(key)
        return resp

    def origin_conn(conn):
        ip = conn.addr[0]
        hostname = {"198.51.100.1": "first.test", "198.51.100.2": "second.test"}[ip]
        log.append(("direct", hostname))
        H.HandshakePeer(conn, response=origin_response(hostname))

    net_ = H.make_net(origin_conn, hosts={"proxy.test": ["203.0.113.9"], "first.test": ["198.51.100.1"], "second.test": ["198.51.100.2"]})
    net_.listen("203.0.113.9", 3128, ("accept", proxy_conn))
    opts = {}
    if variant == "exempt-then-proxied":
        first_url, second_url = "ws://first.test/", "ws://second.test/"
        opts.update(http_proxy_host="proxy.test", http_proxy_port=3128, http_no_proxy=["first.test"])
        expect = [("direct", "first.test"), ("proxy", "CONNECT second.test:80 HTTP/1.1")]
    elif variant == "proxied-then-exempt":
        first_url, second_url = "ws://first.test/", "ws://second.test/"
        opts.update(http_proxy_host="proxy.test", http_proxy_port=3128, http_no_proxy=["second.test"])
        expect = [("proxy", "CONNECT first.test:80 HTTP/1.1"), ("direct", "second.test")]
    elif variant == "ws-env-then-wss":
        first_url, second_url = "ws://first.test/", "wss://second.test/"
        os.environ["http_proxy"] = "http://proxy.test:3128"
        expect = [("proxy", "CONNECT first.test:80 HTTP/1.1"), ("direct", "second.test")]
    else:
        first_url, second_url = "wss://first.test/", "ws://second.test/"
        os.environ["https_proxy"] = "http://proxy.test:3128"
        expect = [("proxy", "CONNECT first.test:443 HTTP/1.1"), ("direct", "second.test")]
    exc = None
    try:
        w = W.create_connection(first_url, timeout=2, **opts)
        w.shutdown()
    except Exception as e:  # noqa
        exc = e
    finally:
        H.scrub_env()
    res.count("tunnel_cases")
    res.count("redirect_hop_cases")
    res.case(("redirect-hops", variant), nontrivial=True)
    case = {"variant": variant, "routes": log}
    if exc is not None:
        res.violation("redirect-hop-failed", f"{variant}: {type(exc).__name__}: {exc}; routes {log}", case, variant=variant)
    elif log != expect:
        res.violation("redirect-hop-route", f"{variant}: hops went {log}, expected {expect}", case, variant=variant)


def app_path_case(res, W, variant, secure):
    from .. import appsim
    from ..ref import rfc6455 as R6
    H.reset_process_state()
    H.scrub_env()
    run = appsim.AppRun([dict(outcome="ok", script=[(0.2, "frames", R6.encode(R6.TEXT, b"hi")), (0.5, "close", b"")])],
                        url=("wss" if secure else "ws") + "://origin.test:9443/chat", via_proxy=(variant in ("option", "option+type-http", "env")), last_repeats=False)
    run.network.add_host("proxy.test", ["203.0.113.9"])
    run.network.add_host("origin.test", ["198.51.100.7"])
    kw = {}
    if variant.startswith("option"):
        kw.update(http_proxy_host="proxy.test", http_proxy_port=3128)
    if variant == "option+type-http":
        kw["proxy_type"] = "http"
    if variant == "option-exempt":
        kw["http_no_proxy"] = ["origin.test"]
    if variant == "env-exempt-by-option":
        kw["http_no_proxy"] = ["other.test", "origin.test"]
    if variant == "env-exempt-by-star":
        kw["http_no_proxy"] = ("*",)
    if variant.startswith("env"):
        os.environ["https_proxy" if secure else "http_proxy"] = "http://proxy.test:3128"
    try:
        run.run_forever(**kw)
    finally:
        H.scrub_env()
    res.count("tunnel_cases")
    res.count("app_path_cases")
    res.case(("app-path", variant, secure), nontrivial=True)
    case = {"path": "WebSocketApp.run_forever", "variant": variant, "secure": secure}
    dialled = [a[1] for a in run.network.connect_attempts]
    msgs = [a[0] for (t, n, a, ci, ac) in run.trace if n == "on_message"]
    errs = [repr(a[0])[:120] for (t, n, a, ci, ac) in run.trace if n == "on_error"]
    proxied = variant in ("option", "option+type-http", "env")
    want = [("203.0.113.9", 3128)] if proxied else [("198.51.100.7", 9443)]
    if errs or msgs != ["hi"]:
        res.violation("app-proxy-connection-failed", f"{case}: errors {errs}, messages {msgs}", case, variant=variant, via="app")
    elif dialled != want:
        res.violation("dialled-address", f"{case}: dialled {dialled}, expected {want}", case, variant=variant, via="app")
    elif proxied and run.connect_requests != ["CONNECT origin.test:9443 HTTP/1.1"]:
        res.violation("connect-target", f"{case}: CONNECT lines {run.connect_requests}", case, variant=variant, via="app")
