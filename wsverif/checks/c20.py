"""C20 - cookies are replayed only to hosts inside the domain that set them."""
from __future__ import annotations

import itertools
import random

from .. import harness as H
from ..ref import http as RH

SHARDS = {"quick": 8, "thorough": 16}
META = {
    "level": "exploration",
    "technique": "runtime monitoring: Cookie header of every handshake request in enumerated histories of connections (real connect() path on the simulated network, process-wide jar reset per history) compared with an executable cookie-jar model",
    "claim": "For all histories up to length 3 (quick: all of length <= 2, sampled length 3) / 3 plus sampled length 4 (thorough) of handshake responses carrying Set-Cookie headers (names {a,b} and {a,a-b}, values {1,2}, domains x.t / X.T / .x.t / s.x.t / y.t / t / none, one or two Set-Cookie lines, also on redirects) followed by connections to x.t, X.t, s.x.t, y.t, t and the look-alikes ax.t, x-t, s-x.t, sxx.t, with no caller cookie or one that is unrelated to / equal to / a substring of the jar cookies, the Cookie header sent was exactly the name-sorted cookies of the domains covering the target (label boundary, case-insensitive, latest value winning) followed by the caller's cookie, and absent when empty.",
    "trusted": "reference jar model in this file; strict request parser; simulated network",
    "rule": "case = (history of responses, probe host, caller cookie); distinct by that tuple; non-trivial when the history stores at least one cookie",
    "exhaustive": {"quick": False, "thorough": False},
    "exhaustive_space": {"quick": "all histories of length <= 2 over 35 response kinds x 6 probes", "thorough": "all histories of length <= 3 over 35 response kinds x 6 probes"},
    "bounds": "one Domain per response; cookie attributes other than Domain not driven; order among equal names from different domains not judged",
    "required_counters": ["cookie_headers_checked", "nonempty_expected"],
    "assumptions": [],
}
META["claim"] += " " + "Also: look-alike hosts with the domain's dot replaced, and caller cookies equal to / contained in jar cookies."
META["claim"] += " " + "Round 3b: Host-header override to and from the cookie's domain; Set-Cookie data of 5-12 kB per response."
META["claim"] += " " + 'Round 4: IPv6 literal as cookie domain and target; one custom-header list object passed to every connection of a history (it must come back unchanged).'
META["claim"] += " " + 'Rounds 6-7: nine spellings of the Domain attribute, commas in values; empty values (sent as name=, winning when latest); the Domain attribute on one of two Set-Cookie lines only (the other cookie left out of the comparison).'
META["claim"] += " " + 'Round 8: names ending in a digit; two handshakes finishing at the same time for a domain already in the jar.'

DOMAINS = ["x.t", "X.T", ".x.t", "s.x.t", "y.t", "t", None, "::1"]
PROBES = ["x.t", "X.t", "s.x.t", "ax.t", "y.t", "t", "x-t", "s-x.t", "sxx.t", "[::1]", "[::2]"]


def cookie_sets(names):
    a, b = names
    return [((a, "1"),), ((a, "2"),), ((b, "1"),), ((a, "1"), (b, "2")), ((a, "2"), (b, "1"))]


# values that are legal cookie values and contain the characters a header-unfolding step would trip over (comma followed by name=)
COMMA_SETS = [(("prefs", "lang=en,tz=utc"),), (("tok", "YWJjZA==,ZGVmZw=="),), (("track", "src=mail,sid=evil"), ("sid", "good")), (("a", "1,2,3"),), (("a", "x,b=9"), ("b", "1"))]


class RefJar:
    def __init__(self):
        self.jar = {}

    def add(self, domain, cookies):
        if domain is None:
            return
        d = domain.lower()
        if not d.startswith("."):
            d = "." + d
        slot = self.jar.setdefault(d, {})
        for n, v in cookies:
            slot[n] = v

    def header(self, host, caller):
        h = host.lower()
        pairs = []
        for d, slot in self.jar.items():
            if h == d[1:] or h.endswith(d):
                pairs.extend(slot.items())
        pairs.sort(key=lambda kv: kv[0])
        return pairs, caller


def run(res, tier, seed, shard, nshards):
    W = H.ws()
    rng = random.Random((seed << 8) ^ shard ^ 0xC20)
    H.scrub_env()
    if shard == 0:
        H.contracts_workload(res, ["SimpleCookieJar.get"])
    kinds_ab = [(d, cs) for d in DOMAINS for cs in cookie_sets(("a", "b"))]
    kinds_pre = [(d, cs) for d in DOMAINS for cs in cookie_sets(("a", "a-b"))]
    histories = []
    maxfull = 2 if tier == "quick" else 3
    for n in range(1, maxfull + 1):
        for hst in itertools.product(kinds_ab, repeat=n):
            histories.append(hst)
    for _ in range(3000 if tier == "quick" else 20000):
        n = maxfull + 1
        histories.append(tuple(rng.choice(kinds_ab) for _ in range(n)))
    for _ in range(600 if tier == "quick" else 6000):
        histories.append(tuple(rng.choice(kinds_pre) for _ in range(rng.randrange(1, 4))))
    # large cookie data: long values, many cookies in one response (the jar has no size limit in the statement)
    big_sets = [(("a", "V" * 5000),), (("a", "v" * 2500), ("b", "w" * 2500)), tuple((f"n{i:03d}", "x" * 6) for i in range(400)), (("a", "u" * 4090),), (("a", "t" * 4100),)]
    for bs in big_sets:
        for d in ("x.t", ".x.t", "X.T"):
            histories.append(((d, bs),))
            histories.append(((d, (("a", "old"),)), (d, bs)))

    for cs in COMMA_SETS:
        for d in ("x.t", ".x.t"):
            histories.append(((d, cs),))
            histories.append(((d, (("sid", "good"),)), (d, cs)))
    # empty values (a cookie that is set, and blank): sent as "name=", and the latest value wins when it is the empty one
    for d in ("x.t", ".x.t", "X.T"):
        for cs in ((("a", ""),), (("a", ""), ("b", "2")), (("a", "1"), ("b", ""))):
            histories.append(((d, cs),))
            histories.append(((d, (("a", "old"), ("b", "old"))), (d, cs)))
            histories.append(((d, cs), (d, (("a", "new"),))))
            histories.append(((d, cs), ("y.t", (("a", "9"),))))

    # host and domain names that end in a digit (dc1, rack12.lan9): names all the same - the label-boundary rule applies to them
    digit_probes = ["dc1", "api.dc1", "a.b.dc1", "xdc1", "dc11", "1", "c1", "n1.rack12.lan9", "rack12.lan9", "rack2.lan9", "lan9", "10.0.0.1"]
    digit_hist = []
    for d in ("dc1", ".dc1", "DC1", "rack12.lan9"):
        for cs in cookie_sets(("a", "b"))[:3]:
            digit_hist.append(((d, cs),))
            digit_hist.append((("x.t", (("a", "9"),)), (d, cs)))

    def scen():
        for i, hst in enumerate(histories):
            if i % nshards != shard:
                continue
            history_case(res, W, rng, hst)
        for i, hst in enumerate(digit_hist):
            if i % nshards == shard:
                history_case(res, W, rng, hst, probes=digit_probes)
                res.count("histories_with_names_ending_in_a_digit")

    H.in_sim(scen, watchdog=3000)
    if shard == 1 % nshards:
        concurrent_responses(res, W, tier, seed)


def concurrent_responses(res, W, tier, seed):
    """Two handshakes that finish at the same time (two threads), both responses setting cookies for a domain already in the jar: both
    cookies are there afterwards - every repository line of either thread as the preemption point, and random line-level schedules."""
    from ..sim import sched, shim
    from . import c12
    sched.install_line_monitor(shim.PREFIX)

    def factory():
        def scen():
            S = sched.CURRENT
            H.reset_process_state()
            setc = {"first.test": "Set-Cookie: z=0; Domain=x.t", "t0.test": "Set-Cookie: a=1; Domain=x.t", "t1.test": "Set-Cookie: b=2; Domain=X.T"}
            requests = []

            def on_conn(conn):
                def resp(req):
                    requests.append(req)
                    host = [ln.split(b":", 1)[1].strip().decode() for ln in req.split(b"\r\n") if ln.lower().startswith(b"host:")][0]
                    extra = [setc[host]] if host in setc else []
                    return H.response_101(H.request_key(req) or "", extra)
                H.HandshakePeer(conn, response=resp)
            H.make_net(on_conn)
            W.create_connection("ws://first.test/", timeout=2).shutdown()
            errors = []

            def worker(t):
                try:
                    W.create_connection(f"ws://t{t}.test/", timeout=2).shutdown()
                except BaseException as e:  # noqa
                    if isinstance(e, sched.SimAbort):
                        raise
                    errors.append((t, e))
            actors = [S.spawn(worker, t, name=f"T{t}") for t in (0, 1)]
            S.arm(line_points=True)
            S.block(lambda: all(a.state == sched.DONE for a in actors), None, why="join")
            S.disarm()
            n0 = len(requests)
            W.create_connection("ws://s.x.t/", timeout=2).shutdown()
            _, _, _, headers, _ = RH.parse_request(requests[n0])
            return {"cookie": RH.get_all(headers, "Cookie"), "errors": errors, "actors": actors}
        return scen

    def judge_(obs, S):
        issues = []
        ck = obs["cookie"]
        if obs["errors"]:
            issues.append(("connect-failed", f"two concurrent handshakes: {obs['errors'][0][1]!r}", {"exc_type": type(obs["errors"][0][1]).__name__}))
        elif ck != ["a=1; b=2; z=0"]:
            issues.append(("cookie-set", f"after two concurrent handshakes that set a=1 and b=2 for a domain already holding z=0, the next request to s.x.t carried Cookie {ck!r}, "
                           f"expected ['a=1; b=2; z=0']", {"diff": "lost", "upper": True, "probe_class": "other"}))
        return issues, {"gen": "concurrent-responses", "decisions": list(S.decisions)[:200]}, tuple(ck), S.switches > 0
    tag = ("concurrent-responses",)
    c12.explore(res, factory, judge_, tag, "sweep", 200 if tier == "quick" else 5000, seed, "concurrent_response_schedules")
    c12.explore(res, factory, judge_, tag, "random", 25 if tier == "quick" else 1500, seed, "concurrent_response_schedules")


def history_case(res, W, rng, hst, probes=None):
    H.reset_process_state()
    ref = RefJar()
    plan = {"next_set_cookie": None, "redirect": False}
    requests = []

    def on_conn(conn):
        sc = plan["next_set_cookie"]
        redirect = plan["redirect"]
        plan["next_set_cookie"] = None
        plan["redirect"] = False

        def resp(req):
            requests.append(req)
            key = H.request_key(req) or ""
            extra = list(sc or [])
            if redirect:
                return ("HTTP/1.1 302 Found\r\nLocation: ws://landing.test/\r\n" + "".join(e + "\r\n" for e in extra) + "\r\n").encode()
            return H.response_101(key, extra)
        H.HandshakePeer(conn, response=resp)

    H.make_net(on_conn)
    stored = False
    # half of the histories pass one and the same custom-header list object to every connection, as an application keeping its
    # headers in a module constant does
    shared = ["X-App: c20"] if (len(hst) + sum(len(cs) for _, cs in hst)) % 2 == 0 else None
    hkw = {"header": shared} if shared is not None else {}
    if shared is not None:
        res.count("histories_with_shared_header_list")
    unjudged_names = set()
    for hi, (domain, cs) in enumerate(hst):
        two_lines = len(cs) == 2 and rng.random() < 0.5
        # the attribute in the spellings RFC 6265 5.2 allows (name matched caselessly, white space around "=" ignored)
        spelling = rng.choice(["; Domain={}", "; Domain={}", "; Domain={}", "; domain={}", "; DOMAIN={}", "; Domain = {}", ";Domain={}", "; Domain\t=\t{}", "; Domain= {}"])
        dom = spelling.format(domain) if domain is not None else ""
        if domain is not None:
            res.count("domain_attribute_spellings:" + spelling.strip("; {}").replace("\t", "TAB").replace(" ", "SP"))
        optional = ()
        if two_lines:
            # the Domain attribute on every line, or on one of them only (then the cookie of the other line has no Domain of its own:
            # whether the response's Domain counts for it too is left open - it is taken out of the comparison)
            pos = rng.choice(["all", "all", "first", "last"]) if domain is not None else "all"
            res.count("two_line_responses_domain_on:" + pos)
            lines = [f"Set-Cookie: {n}={v}{dom if pos == 'all' or (pos == 'first') == (i == 0) else ''}" for i, (n, v) in enumerate(cs)]
            if pos != "all":
                optional = (cs[1][0],) if pos == "first" else (cs[0][0],)
        else:
            lines = ["Set-Cookie: " + "; ".join(f"{n}={v}" for n, v in cs) + dom]
        unjudged_names.update(optional)
        if rng.random() < 0.3:
            lines = [ln + "; Path=/" for ln in lines]
        plan["next_set_cookie"] = lines
        plan["redirect"] = rng.random() < 0.15
        try:
            w = W.create_connection(f"ws://setter{hi}.test/", timeout=2, **hkw)
            w.shutdown()
        except Exception as e:  # noqa
            res.violation("connect-failed", f"history {hst}: {type(e).__name__}: {e}", {"history": hst}, exc_type=type(e).__name__)
            return
        ref.add(domain, cs)
        stored = stored or domain is not None
    for probe in (probes or PROBES):
        caller = rng.choice([None, "me=1", "a=1", "=1", "b=2", "a=1; b=2"])
        n0 = len(requests)
        # the Host header override names a virtual host; cookies follow the host actually connected to
        override = rng.choice([None, None, None, "x.t", "y.t", "front.test:8443", "S.X.T"])
        kw = {"cookie": caller} if caller else {}
        kw.update(hkw)
        if override:
            kw["host"] = override
            res.count("probes_with_host_override")
        try:
            w = W.create_connection(f"ws://{probe}/", timeout=2, **kw)
            w.shutdown()
        except Exception as e:  # noqa
            res.violation("connect-failed", f"probe {probe}: {type(e).__name__}: {e}", {"history": hst, "probe": probe}, exc_type=type(e).__name__)
            continue
        req = requests[n0]
        _, _, _, headers, _ = RH.parse_request(req)
        ck = RH.get_all(headers, "Cookie")
        if unjudged_names and ck:
            ncall = len(caller.split("; ")) if caller else 0
            items = ck[0].split("; ")
            jar_items = items[:len(items) - ncall] if ncall else items
            kept = [it for it in jar_items if it.split("=", 1)[0] not in unjudged_names] + (items[len(items) - ncall:] if ncall else [])
            ck = [("; ".join(kept))] if kept else []
        pairs, _ = ref.header(probe[1:-1] if probe.startswith("[") else probe, caller)
        if unjudged_names:
            # cookies that came without a Domain of their own next to one that had it: out of the comparison, here and on the wire
            pairs = [(n, v) for n, v in pairs if n not in unjudged_names]
            res.count("probes_with_unjudged_names")
        exp_items = [f"{n}={v}" for n, v in pairs] + (caller.split("; ") if caller else [])
        res.case((hst, probe, caller), nontrivial=stored)
        res.count("cookie_headers_checked")
        case = {"history": hst, "probe": probe, "caller_cookie": caller, "host_override": override}
        if pairs:
            res.count("nonempty_expected")
        if not exp_items:
            if ck:
                leak = "lookalike" if probe in ("ax.t", "x-t", "s-x.t", "sxx.t") else "outside"
                res.violation("cookie-leak", f"history {hst} probe {probe}: Cookie {ck!r} sent, none expected", case, probe_class=leak)
            continue
        if len(ck) != 1:
            res.violation("cookie-header-missing", f"history {hst} probe {probe}: Cookie headers {ck!r}, expected {'; '.join(exp_items)!r}", case,
                          upper=any(d and d != d.lower() for d, _ in hst))
            continue
        got_items = ck[0].split("; ")
        if sorted(got_items) != sorted(exp_items):
            extra = [g for g in got_items if g not in exp_items]
            missing = [e for e in exp_items if e not in got_items]
            cls = "leak" if extra and not missing else "lost" if missing and not extra else "different"
            res.violation("cookie-set", f"history {hst} probe {probe}: Cookie {ck[0]!r}, expected {'; '.join(exp_items)!r}", case, diff=cls,
                          upper=any(d and d != d.lower() for d, _ in hst), probe_class="lookalike" if probe == "ax.t" else "other")
            continue
        # order: names non-decreasing among jar cookies, caller's cookie last
        ncaller = len(caller.split("; ")) if caller else 0
        jar_part = got_items[:-ncaller] if caller else got_items
        if caller and "; ".join(got_items[-ncaller:]) != caller:
            res.violation("cookie-order", f"caller cookie not last: {ck[0]!r}", case, order="caller-not-last")
        names = [g.split("=", 1)[0] for g in jar_part]
        if names != sorted(names):
            res.violation("cookie-order", f"history {hst} probe {probe}: Cookie {ck[0]!r} not sorted by name", case, order="not-name-sorted")
        if shared is not None and shared != ["X-App: c20"]:
            res.violation("cookie-leak", f"history {hst} probe {probe}: the caller's header list was changed to {shared!r}", case, probe_class="caller-header-list")
            return
        res.sample(case, cap=3)
