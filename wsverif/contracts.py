"""Runtime contracts (icontract) on the real functions, applied from the
harness without editing the repository.  Each postcondition calls a reference
model; every evaluation is counted (zero evaluations == no evidence).

Used (a) by generated workloads and (b) by an extra run of the repository's
own test-suite under `wsverif/contracts_conftest.py` - a free additional
workload.  If icontract is not installed the module degrades to a no-op and
says so.
"""
from __future__ import annotations

import os
import sys

DEPS = os.path.join(os.path.dirname(os.path.dirname(os.path.abspath(__file__))), ".deps")
if os.path.isdir(DEPS) and DEPS not in sys.path:
    sys.path.append(DEPS)

try:
    import icontract

    HAVE_ICONTRACT = True
except Exception:  # noqa
    icontract = None
    HAVE_ICONTRACT = False

from .ref import rfc6455 as R
from .ref import url as RU
from .ref import utf8 as U

counters = {}
violations = []


class ContractBroken(AssertionError):
    pass


def _count(name):
    counters[name] = counters.get(name, 0) + 1


# ---- named condition functions (argument names match the wrapped functions) ----


def format_roundtrips(self, result):
    """ABNF.format(): the bytes decode to one frame with this object's fields."""
    _count("ABNF.format")
    try:
        f = R.decode_one(result)
    except R.Incomplete:
        return False
    data = self.data.encode("utf-8") if isinstance(self.data, str) else bytes(self.data)
    ok = (f.end == len(result) and f.fin == self.fin and f.opcode == self.opcode and f.masked == self.mask_value and f.minimal
          and f.rsv == (self.rsv1 << 2 | self.rsv2 << 1 | self.rsv3))
    if self.mask_value:
        ok = ok and f.payload == data
    return ok


def mask_is_xor(mask_key, data, result):
    _count("ABNF.mask")
    k = mask_key.encode("latin-1") if isinstance(mask_key, str) else bytes(mask_key)
    d = data.encode("latin-1") if isinstance(data, str) else bytes(data or b"")
    if len(k) != 4:
        return True
    return result == R.unmask(k, d)


def utf8_matches_reference(utfbytes, result):
    _count("validate_utf8")
    if isinstance(utfbytes, str):
        return True
    return bool(result) == U.is_valid(bytes(utfbytes))


def parse_url_matches_reference(url, result):
    _count("parse_url")
    try:
        exp = RU.parse(url)
    except (RU.Refused, RU.Unjudged):
        return True  # raising is checked elsewhere; a result for a refused URL is judged by C18
    host, port, resource, secure = result
    return (host or "").lower() == exp[0] and port == exp[1] and resource == exp[2] and bool(secure) == exp[3]


def recv_strict_exact(self, bufsize, result):
    _count("frame_buffer.recv_strict")
    return len(result) == bufsize


def cookie_get_sorted_and_scoped(self, host, result):
    _count("SimpleCookieJar.get")
    if not result:
        return True
    names = [x.split("=", 1)[0] for x in result.split("; ")]
    if names != sorted(names):
        return False
    h = (host or "").lower()
    allowed = set()
    for d, c in self.jar.items():
        if h == d[1:] or h.endswith(d):
            allowed.update(c.keys())
    return set(names) <= allowed


_applied = False


def apply(W):
    """Wrap the real functions of module `W` (websocket).  Idempotent."""
    global _applied
    if _applied or not HAVE_ICONTRACT:
        return HAVE_ICONTRACT
    _applied = True
    def ens(cond):
        err = type("Broken_" + cond.__name__, (ContractBroken,), {})
        return icontract.ensure(cond, error=err)
    A = W._abnf
    A.ABNF.format = ens(format_roundtrips)(A.ABNF.format)
    A.ABNF.mask = staticmethod(ens(mask_is_xor)(A.ABNF.mask))
    A.frame_buffer.recv_strict = ens(recv_strict_exact)(A.frame_buffer.recv_strict)
    ut = W._utils
    wrapped = ens(utf8_matches_reference)(ut.validate_utf8)
    ut.validate_utf8 = wrapped
    A.validate_utf8 = wrapped
    u = W._url
    wrapped_url = ens(parse_url_matches_reference)(u.parse_url)
    u.parse_url = wrapped_url
    for m in (W._http, W._app, W._core):
        if getattr(m, "parse_url", None) is not None:
            m.parse_url = wrapped_url
    cj = W._cookiejar
    cj.SimpleCookieJar.get = ens(cookie_get_sorted_and_scoped)(cj.SimpleCookieJar.get)
    return True


def under_repo_tests(repo, names, timeout=300):
    """Run the repository's own tests with the contracts switched on (separate
    process).  -> dict(counters=..., failed=[...], passed=int, ok=bool)"""
    import json
    import subprocess
    import tempfile

    verif = os.path.dirname(os.path.dirname(os.path.abspath(__file__)))
    out = tempfile.NamedTemporaryFile(prefix="wsverif-contracts-", suffix=".json", delete=False).name
    env = dict(os.environ)
    env.update({"PYTHONPATH": verif + os.pathsep + repo, "WSVERIF_CONTRACT_OUT": out, "PYTHONDONTWRITEBYTECODE": "1", "WSVERIF_REPO": repo})
    r = subprocess.run([sys.executable, "-m", "pytest", "-q", "-p", "no:cacheprovider", "-p", "wsverif.contracts_plugin", "--timeout=600",
                        os.path.join(repo, "websocket", "tests")], cwd=repo, env=env, capture_output=True, text=True, timeout=timeout)
    try:
        data = json.load(open(out))
    except Exception:  # noqa
        data = {"counters": {}, "broken": [], "have": False}
    finally:
        try:
            os.unlink(out)
        except OSError:
            pass
    data["pytest_exit"] = r.returncode
    data["tail"] = r.stdout.strip().splitlines()[-1:] if r.stdout else []
    data["failed_tests"] = [ln for ln in r.stdout.splitlines() if ln.startswith("FAILED")][:10]
    return data
