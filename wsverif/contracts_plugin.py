"""pytest plugin: run the repository's own tests with the wsverif contracts on.
    pytest -p wsverif.contracts_plugin websocket/tests
Counters are written to $WSVERIF_CONTRACT_OUT at the end of the session."""
import json
import os


def pytest_configure(config):
    import websocket
    from wsverif import contracts

    config._wsverif_have = contracts.apply(websocket)


def pytest_sessionfinish(session, exitstatus):
    from wsverif import contracts

    out = os.environ.get("WSVERIF_CONTRACT_OUT")
    if out:
        with open(out, "w") as f:
            json.dump({"counters": contracts.counters, "have": contracts.HAVE_ICONTRACT}, f)
