"""Check driver: sharding, verdicts, evidence, replays, known findings."""
from __future__ import annotations

import hashlib
import importlib
import json
import os
import signal
import subprocess
import sys
import time

VERIF = os.path.dirname(os.path.dirname(os.path.abspath(__file__)))
REPO = os.path.realpath(os.environ.get("WSVERIF_REPO", "/repo"))
EVIDENCE_DIR = os.environ.get("WSVERIF_EVIDENCE_DIR") or os.path.join(VERIF, "evidence")
OUT_DIR = os.environ.get("WSVERIF_OUT_DIR") or os.path.join(VERIF, "out")
KNOWN_FINDINGS = os.path.join(VERIF, "known_findings.json")
PY = sys.executable

ALL_IDS = [f"C{i:02d}" for i in range(1, 21)]


def h64(obj) -> int:
    if not isinstance(obj, (bytes, bytearray)):
        obj = repr(obj).encode()
    return int.from_bytes(hashlib.blake2b(obj, digest_size=8).digest(), "big")


def jsonable(o, depth=0):
    if isinstance(o, (bytes, bytearray)):
        b = bytes(o)
        if len(b) > 96:
            return {"hex_head": b[:64].hex(), "len": len(b), "h64": "%016x" % h64(b)}
        return {"hex": b.hex()}
    if isinstance(o, dict):
        return {str(k): jsonable(v, depth + 1) for k, v in o.items()}
    if isinstance(o, (list, tuple, set, frozenset)):
        return [jsonable(v, depth + 1) for v in o]
    if isinstance(o, (str, int, float, bool)) or o is None:
        if isinstance(o, str) and len(o) > 400:
            return o[:400] + f"...(+{len(o) - 400})"
        return o
    if isinstance(o, BaseException):
        return f"{type(o).__name__}: {o}"[:300]
    return repr(o)[:300]


class Result:
    """Accumulates what one shard observed."""

    MAX_SIGS = 400_000

    def __init__(self, prop, shard=0, nshards=1):
        self.prop = prop
        self.shard = shard
        self.nshards = nshards
        self.evaluations = 0
        self.sigs = set()
        self.sig_overflow = 0
        self.counters = {}
        self.samples = []
        self.violations = []
        self.inconclusive = []
        self.notes = {}
        self._viol_keys = set()

    def case(self, sig=None, nontrivial=True):
        self.evaluations += 1
        if sig is not None and nontrivial:
            if len(self.sigs) < self.MAX_SIGS:
                self.sigs.add(sig if isinstance(sig, int) else h64(sig))
            else:
                self.sig_overflow += 1

    def count(self, name, n=1):
        self.counters[name] = self.counters.get(name, 0) + n

    def sample(self, s, cap=4):
        if len(self.samples) < cap:
            self.samples.append(jsonable(s))

    def violation(self, kind, detail, case, **fields):
        """kind: short stable mechanism class.  fields: structured attributes
        that known-finding predicates can match (exc_type, where, input_class...)."""
        rec = {"property": self.prop, "kind": kind, "detail": str(detail)[:600]}
        rec.update({k: jsonable(v) for k, v in fields.items()})
        rec["case"] = jsonable(case)
        try:
            from . import harness as _H
            if _H.AMB.on and _H.AMB.last is not None and isinstance(rec["case"], dict):
                rec["case"]["ambient"] = dict(_H.AMB.last)
        except Exception:  # noqa
            pass
        key = (kind,) + tuple(sorted((k, json.dumps(v, sort_keys=True, default=str)) for k, v in rec.items() if k not in ("detail", "case", "property")))
        self.count("violations_raw")
        self.count("viol:" + kind)
        rec["_key"] = "%016x" % h64(key)
        rec["_shard"] = [self.shard, self.nshards]
        # keep at most 3 witnesses per distinct mechanism key
        n = sum(1 for v in self.violations if v["_key"] == rec["_key"])
        if n < 3:
            self.violations.append(rec)

    def inconc(self, reason):
        if reason not in self.inconclusive:
            self.inconclusive.append(reason)

    def dump(self):
        return {
            "prop": self.prop,
            "evaluations": self.evaluations,
            "sigs": sorted(self.sigs),
            "sig_overflow": self.sig_overflow,
            "counters": self.counters,
            "samples": self.samples,
            "violations": self.violations,
            "inconclusive": self.inconclusive,
            "notes": self.notes,
        }


def merge(dumps, prop):
    out = {
        "prop": prop, "evaluations": 0, "sigs": set(), "sig_overflow": 0, "counters": {},
        "samples": [], "violations": [], "inconclusive": [], "notes": {},
    }
    for d in dumps:
        out["evaluations"] += d["evaluations"]
        out["sigs"].update(d["sigs"])
        out["sig_overflow"] += d.get("sig_overflow", 0)
        for k, v in d["counters"].items():
            out["counters"][k] = out["counters"].get(k, 0) + v
        for s in d["samples"]:
            if len(out["samples"]) < 8:
                out["samples"].append(s)
        out["violations"].extend(d["violations"])
        for r in d["inconclusive"]:
            if r not in out["inconclusive"]:
                out["inconclusive"].append(r)
        for k, v in d.get("notes", {}).items():
            out["notes"].setdefault(k, v)
    return out


# ---------------------------------------------------------------------------
# known findings


def load_known():
    try:
        with open(KNOWN_FINDINGS) as f:
            return json.load(f)["findings"]
    except FileNotFoundError:
        return []


def _match(entry, viol):
    if entry.get("status") != "open":
        return False
    if entry["property"] != viol["property"]:
        return False
    for k, want in entry["match"].items():
        got = viol.get(k)
        if isinstance(want, list):
            if got not in want:
                return False
        elif got != want:
            return False
    return True


# ---------------------------------------------------------------------------


from .sim.net import SpinDetected as _SPIN  # noqa: E402


def check_module(prop):
    return importlib.import_module(f"wsverif.checks.{prop.lower()}")


def run_shard(prop, tier, seed, shard, nshards):
    mod = check_module(prop)
    res = Result(prop, shard, nshards)
    try:
        mod.run(res, tier, seed, shard, nshards)
    except Exception as e:  # noqa
        from .sim import net as _net, sched as _sched
        if isinstance(e, (_sched.Deadlock, _sched.NotTerminated)):
            # a call of the library blocked for ever / outlived the virtual horizon inside a batch of cases:
            # that is an observation (the rest of this shard's batch is lost)
            res.violation("hang", f"{type(e).__name__} while running a batch of cases: {str(e)[:300]}", {"shard": shard, "nshards": nshards},
                          how=type(e).__name__)
        elif isinstance(e, _sched.WatchdogExpired):
            res.inconc(f"wall-clock watchdog: {e}")
        else:
            raise
    except _SPIN as e:
        res.violation("spin", f"transport read spin while running a batch of cases: {e}", {"shard": shard, "nshards": nshards})
    return res.dump()


def _spin_path(prop, tier, shard):
    return os.path.join(OUT_DIR, "shards", f"{prop}-{tier}-{shard}.spin")


_spin_fd = None


def _read_spin_marker(prop, tier, shard):
    try:
        with open(_spin_path(prop, tier, shard), "rb") as f:
            return json.loads(f.read().decode("utf-8", "replace").strip())
    except Exception:  # noqa
        return None


def spin_guard(prop, tier, shard, label, case=None, cpu_seconds=90):
    global _spin_fd
    """Called by a shard before a case that must return: notes the case in a marker file and (re)arms a CPU-time timer whose expiry
    kills the process (SIGPROF, default action) - a call that spins inside C code (a regular expression, say) cannot be interrupted
    any other way.  cpu_seconds=0 disarms.  The parent turns 'killed by SIGPROF + marker' into a cpu-spin violation."""
    if not cpu_seconds:
        signal.setitimer(signal.ITIMER_PROF, 0)
        if _spin_fd is not None:
            os.close(_spin_fd)
            _spin_fd = None
        try:
            os.unlink(_spin_path(prop, tier, shard))
        except OSError:
            pass
        return
    if _spin_fd is None:
        os.makedirs(os.path.join(OUT_DIR, "shards"), exist_ok=True)
        _spin_fd = os.open(_spin_path(prop, tier, shard), os.O_CREAT | os.O_TRUNC | os.O_WRONLY, 0o644)
    # one fixed-size record rewritten in place (this runs before every case)
    rec = json.dumps({"label": label, "case": jsonable(case), "cpu_seconds": cpu_seconds})[:2000]
    os.pwrite(_spin_fd, rec.encode("utf-8", "replace").ljust(2048), 0)
    signal.setitimer(signal.ITIMER_PROF, cpu_seconds)


def _worker_cmd(prop, tier, seed, shard, nshards, out):
    # a check may ask for interpreter flags for some of its shards (e.g. -b: BytesWarning for str(bytes), as CI runs often have it)
    mod = check_module(prop)
    flags = list(mod.shard_pyflags(tier, shard, nshards)) if hasattr(mod, "shard_pyflags") else []
    return [PY] + flags + ["-m", "wsverif", "shard", prop, "--tier", tier, "--seed", str(seed),
                           "--shard", str(shard), "--nshards", str(nshards), "--out", out]


def run_check(prop, tier, seed, jobs=None):
    t0 = time.time()
    mod = check_module(prop)
    nshards = mod.SHARDS.get(tier, 1) if hasattr(mod, "SHARDS") else 1
    jobs = jobs or min(nshards, os.cpu_count() or 1)
    timeout = getattr(mod, "SHARD_TIMEOUT", {}).get(tier, 900 if tier == "quick" else 3600)
    os.makedirs(os.path.join(OUT_DIR, "shards"), exist_ok=True)
    env = dict(os.environ)
    env["PYTHONPATH"] = VERIF + os.pathsep + REPO
    env["PYTHONDONTWRITEBYTECODE"] = "1"
    env.setdefault("PYTHONHASHSEED", "0")
    dumps = []
    inconclusive = []
    spin_violations = []
    queue = list(range(nshards))
    pending = []
    done = []
    while queue or pending:
        while queue and len(pending) < jobs:
            i = queue.pop(0)
            o = os.path.join(OUT_DIR, "shards", f"{prop}-{tier}-{i}.json")
            try:
                os.unlink(o)
            except FileNotFoundError:
                pass
            p = subprocess.Popen(_worker_cmd(prop, tier, seed, i, nshards, o), env=env, cwd=VERIF)
            pending.append((i, p, o, time.time()))
        still = []
        for i, p, o, st in pending:
            rc = p.poll()
            if rc is None:
                if time.time() - st > timeout:
                    p.kill()
                    p.wait()
                    inconclusive.append(f"shard {i} exceeded wall-clock limit {timeout}s")
                else:
                    still.append((i, p, o, st))
                continue
            if rc != 0 or not os.path.exists(o):
                spin = _read_spin_marker(prop, tier, i) if rc == -signal.SIGPROF else None
                if spin is not None:
                    # the shard was killed by its CPU-time guard (spin_guard below): one case burnt more processor time than any
                    # legitimate case comes near - a verdict on CPU time, which does not depend on how loaded the machine is
                    key = ("cpu-spin", spin.get("label"))
                    spin_violations.append({"property": prop, "kind": "cpu-spin", "where": spin.get("label"),
                                            "detail": f"{spin.get('label')}: the call did not return within {spin.get('cpu_seconds')} s of CPU time "
                                                      f"(the shard process was stopped by its CPU-time guard)",
                                            "case": spin, "_key": "%016x" % h64(key), "_shard": [i, nshards]})
                else:
                    inconclusive.append(f"shard {i} crashed (exit {rc})")
                continue
            with open(o) as f:
                dumps.append(json.load(f))
            os.unlink(o)
        pending = still
        if pending:
            time.sleep(0.05)
    m = merge(dumps, prop)
    m["inconclusive"].extend(inconclusive)
    m["violations"].extend(spin_violations)
    return finish(prop, tier, seed, mod, m, time.time() - t0, nshards)


def finish(prop, tier, seed, mod, m, wall, nshards):
    known = load_known()
    new_viol, known_hits = [], {}
    for v in m["violations"]:
        for e in known:
            if _match(e, v):
                known_hits.setdefault(e["id"], [e, 0])[1] += 1
                break
        else:
            new_viol.append(v)
    # de-duplicate new violations by mechanism key
    seen, uniq = set(), []
    for v in new_viol:
        if v["_key"] not in seen:
            seen.add(v["_key"])
            uniq.append(v)
    replay_paths = []
    for v in uniq:
        d = os.path.join(OUT_DIR, "replays", prop)
        os.makedirs(d, exist_ok=True)
        p = os.path.join(d, v["_key"] + ".json")
        with open(p, "w") as f:
            json.dump({"property": prop, "tier": tier, "seed": seed, "violation": v}, f, indent=1, default=str)
        replay_paths.append(p)
    distinct = len(m["sigs"]) + m.get("sig_overflow", 0) * 0
    meta = getattr(mod, "META", {})
    min_eval = meta.get("min_evaluations", {}).get(tier, 1)
    required = meta.get("required_counters", [])
    for c in required:
        if m["counters"].get(c, 0) == 0:
            m["inconclusive"].append(f"deciding monitor/counter '{c}' was never reached")
    if m["evaluations"] < min_eval:
        m["inconclusive"].append(f"only {m['evaluations']} evaluations (< {min_eval})")
    if distinct < 2:
        m["inconclusive"].append("fewer than 2 distinct non-trivial cases observed")
    ev = {
        "property_id": prop,
        "tier": tier,
        "seed": seed,
        "level": meta.get("level", "exploration"),
        "coverage": {
            "evaluations": m["evaluations"],
            "distinct_nontrivial": distinct,
            "rule": meta.get("rule", ""),
            "samples": m["samples"] or [None],
            "exhaustive": bool(meta.get("exhaustive", {}).get(tier, False)),
            "exhaustive_space": meta.get("exhaustive_space", {}).get(tier, ""),
            "counters": dict(sorted(m["counters"].items())),
            "shards": nshards,
            "bounds": meta.get("bounds", ""),
            "known_findings_matched": {k: v[1] for k, v in known_hits.items()},
            "new_violation_kinds": sorted({v["kind"] for v in uniq}),
            "inconclusive": m["inconclusive"],
            "notes": m["notes"],
            "sig_overflow_uncounted": m.get("sig_overflow", 0),
        },
        "assumptions": meta.get("assumptions", []),
        "wall_s": round(wall, 3),
        "violations": len(uniq),
    }
    os.makedirs(EVIDENCE_DIR, exist_ok=True)
    with open(os.path.join(EVIDENCE_DIR, f"{prop}.json"), "w") as f:
        json.dump(ev, f, indent=1, sort_keys=False, default=str)
        f.write("\n")
    # ---- report ----
    print(f"[{prop}] tier={tier} seed={seed} evaluations={m['evaluations']} distinct_nontrivial={distinct} wall={wall:.1f}s")
    interesting = {k: v for k, v in sorted(m["counters"].items())}
    print(f"[{prop}] observed: " + ", ".join(f"{k}={v}" for k, v in list(interesting.items())[:60]))
    for k, (e, n) in sorted(known_hits.items()):
        print(f"KNOWN-FINDING: property={prop} {e['id']}: {e['what']} (matched {n} witness(es))")
    if uniq:
        for v, p in zip(uniq, replay_paths):
            print(f"VIOLATION property={prop} replay={p}")
            print(f"   kind={v['kind']} detail={v['detail'][:300]}")
        return 1
    if m["inconclusive"]:
        for r in m["inconclusive"]:
            print(f"INCONCLUSIVE property={prop} reason={r}")
        return 2
    print(f"[{prop}] HELD on everything observed")
    return 0


def replay(path):
    """Re-execute the shard that produced the recorded violation (all checks are deterministic for a given
    tier/seed/shard under PYTHONHASHSEED=0) and show the violations with the same mechanism key."""
    with open(path) as f:
        rec = json.load(f)
    v = rec["violation"]
    prop, tier, seed = rec["property"], rec["tier"], rec["seed"]
    shard, nshards = v.get("_shard", [0, 1])
    print(f"recorded violation ({prop}, tier={tier}, seed={seed}, shard {shard}/{nshards}):")
    print(json.dumps({k: v[k] for k in v if k != "case"}, indent=1)[:3000])
    print("case:", json.dumps(v.get("case"), indent=1)[:3000])
    if os.environ.get("PYTHONHASHSEED") != "0":
        env = dict(os.environ, PYTHONHASHSEED="0", PYTHONPATH=VERIF + os.pathsep + REPO, PYTHONDONTWRITEBYTECODE="1")
        return subprocess.call([PY, "-m", "wsverif", "replay", path], env=env, cwd=VERIF)
    print(f"\nre-executing shard {shard}/{nshards} of {prop} ({tier}, seed {seed}) against {REPO} ...")
    d = run_shard(prop, tier, seed, shard, nshards)
    same = [x for x in d["violations"] if x["_key"] == v["_key"]]
    print(f"violations in this shard now: {len(d['violations'])}; with the recorded mechanism key: {len(same)}")
    for x in same[:3]:
        print(" -", x["kind"], x["detail"][:600])
    if same:
        print("REPRODUCED")
        return 1
    print("NOT REPRODUCED on the current tree (the recorded mechanism no longer occurs in this shard)")
    return 0
