"""Simulator fidelity cross-check: the same WebSocketApp scenario is run (a)
on the simulator and (b) on real loopback TCP with real threads and wall-clock
time; the callback traces (names, normalised arguments) and the return values
must agree.  A disagreement is a harness problem, reported as *inconclusive*
('simulator fidelity'), never as a violation of the library.

Only scenarios whose outcome does not depend on timing races are used."""
from __future__ import annotations

import socket
import struct
import threading
import time

from . import appsim
from . import harness as H
from .ref import rfc6455 as R
from .sim import sched

SCALE = 0.1  # real seconds per virtual second of the scenario script


class RealServer(threading.Thread):
    """Plays one connection plan of appsim on a real loopback socket."""

    def __init__(self, plan):
        super().__init__(daemon=True)
        self.plan = plan
        self.lsock = socket.socket(socket.AF_INET, socket.SOCK_STREAM)
        self.lsock.setsockopt(socket.SOL_SOCKET, socket.SO_REUSEADDR, 1)
        self.lsock.bind(("127.0.0.1", 0))
        self.lsock.listen(4)
        self.port = self.lsock.getsockname()[1]
        self.error = None

    def run(self):
        try:
            self.lsock.settimeout(10)
            conn, _ = self.lsock.accept()
            self.serve(conn)
        except Exception as e:  # noqa
            self.error = e
        finally:
            try:
                self.lsock.close()
            except OSError:
                pass

    def serve(self, conn):
        conn.settimeout(10)
        buf = b""
        while b"\r\n\r\n" not in buf:
            d = conn.recv(4096)
            if not d:
                return
            buf += d
        req, _, rest = buf.partition(b"\r\n\r\n")
        req += b"\r\n\r\n"
        p = self.plan
        if p["outcome"] == "reject":
            conn.sendall(f"HTTP/1.1 {p.get('status', 403)} Nope\r\nContent-Length: 0\r\n\r\n".encode())
            conn.close()
            return
        resp = p["response"](req) if callable(p.get("response")) else H.response_101(H.request_key(req) or "")
        conn.sendall(resp)
        t0 = time.monotonic()
        closed = threading.Event()
        client_buf = bytearray(rest)

        def reader():
            # answer the client's close frame like appsim.ServerConn does
            try:
                while not closed.is_set():
                    try:
                        d = conn.recv(4096)
                    except socket.timeout:
                        continue
                    except OSError:
                        return
                    if not d:
                        return
                    client_buf.extend(d)
                    frames, pos = R.decode_all(bytes(client_buf))
                    del client_buf[:pos]
                    for f in frames:
                        if f.opcode == R.CLOSE and p.get("answer_close", True):
                            try:
                                conn.sendall(R.encode(R.CLOSE, f.payload[:2]))
                                conn.shutdown(socket.SHUT_WR)
                            except OSError:
                                pass
                            return
            except Exception:  # noqa
                return

        conn.settimeout(0.2)
        rt = threading.Thread(target=reader, daemon=True)
        rt.start()
        try:
            for item in p.get("script", ()):
                dt, action, *args = item
                delay = t0 + dt * SCALE - time.monotonic()
                if delay > 0:
                    time.sleep(delay)
                if action == "frames":
                    conn.sendall(args[0])
                elif action == "segments":
                    for seg in args[0]:
                        conn.sendall(seg)
                elif action == "eof":
                    conn.shutdown(socket.SHUT_WR)
                elif action == "reset":
                    conn.setsockopt(socket.SOL_SOCKET, socket.SO_LINGER, struct.pack("ii", 1, 0))
                    closed.set()
                    conn.close()
                    return
                elif action == "close":
                    conn.sendall(R.encode(R.CLOSE, args[0]))
                    if len(args) > 1 and args[1]:
                        conn.shutdown(socket.SHUT_WR)
        except OSError:
            pass
        rt.join(4)
        closed.set()
        try:
            conn.close()
        except OSError:
            pass


def normalise(trace):
    out = []
    for name, args in trace:
        if name == "on_error":
            out.append((name, type(args[0]).__name__))
        else:
            out.append((name, tuple(a if not isinstance(a, (bytes, bytearray)) else bytes(a) for a in args)))
    return out


def run_real(W, sc, watchdog=12.0):
    """-> dict(trace, ret) or dict(inconclusive=reason)"""
    plan = sc["plan"][0]
    trace = []
    hooks = sc["hooks"]
    raising = sc["raising"]
    if plan["outcome"] in ("refused", "unreachable"):
        s = socket.socket()
        s.bind(("127.0.0.1", 0))
        port = s.getsockname()[1]
        s.close()  # nothing listens there now
        server = None
    else:
        server = RealServer(plan)
        server.start()
        port = server.port
    names = sc["callbacks"] or appsim.AppRun.CALLBACKS[:8]
    box = {}

    def mk(name):
        def cb(app, *args):
            trace.append((name, args))
            h = hooks.get(name)
            if h is not None:
                h(None, app, *args)
            r = raising.get(name)
            if r is not None:
                raise r()
        return cb

    app = W.WebSocketApp(f"ws://127.0.0.1:{port}/", **{n: mk(n) for n in names})
    fired = []

    def dog():
        fired.append(True)
        try:
            app.close()
        except Exception:  # noqa
            pass

    timer = threading.Timer(watchdog, dog)
    timer.daemon = True
    timer.start()
    kw = {}
    for k, v in sc["run_kwargs"].items():
        kw[k] = v
    try:
        box["ret"] = app.run_forever(**kw)
    except BaseException as e:  # noqa
        box["ret"] = "raised:" + type(e).__name__
    timer.cancel()
    if server is not None:
        server.join(6)
    if fired:
        return {"inconclusive": "real-socket run hit the wall-clock watchdog"}
    return {"trace": normalise(trace), "ret": box["ret"]}


def run_sim(W, sc):
    out = {}

    def scen():
        H.reset_process_state()
        run = appsim.AppRun(list(sc["plan"]), hooks=sc["hooks"], raising=sc["raising"], callbacks=sc["callbacks"], last_repeats=False)
        out["run"] = run
        run.run_forever(**sc["run_kwargs"])
        return run

    S = sched.Sched(horizon=400, watchdog=60)
    try:
        S.run(scen)
    except sched.SimFailure as e:
        return {"inconclusive": f"simulated run failed: {e}"}
    run = out["run"]
    return {"trace": normalise([(n, a) for (t, n, a, ci, ac) in run.trace]), "ret": run.ret}


TIMING_FREE = (
    "server-close-nobody", "server-close-code", "server-close-code-reason", "server-close-same-segment", "server-close-immediately",
    "server-close-then-eof", "server-close-fragmented-before", "eof", "eof-immediately", "reset", "eof-mid-frame", "illegal-frame",
    "illegal-opcode", "invalid-utf8", "cont-without-start", "refused", "rejected-403", "rejected-500", "bad-accept",
    "close-from-on_open", "close-from-on_message", "close-from-on_data", "close-from-on_ping", "close-from-on_pong",
    "close-with-status-from-on_message", "raise-in-on_open-then-server-close", "raise-in-on_message-then-server-close",
    "raise-in-on_data-then-server-close", "raise-in-on_ping-then-server-close", "raise-in-on_close",
)


def compare(W, sc, attempts=3):
    """-> (agree: bool | None, detail).  The real-socket run depends on wall-clock scheduling: a disagreement has to
    reproduce on every one of `attempts` tries before it is reported."""
    last = (None, "not run")
    for _ in range(attempts):
        last = _compare_once(W, sc)
        if last[0] is True:
            return last
    return last


def _compare_once(W, sc):
    a = run_sim(W, sc)
    b = run_real(W, sc)
    if "inconclusive" in a or "inconclusive" in b:
        return None, a.get("inconclusive") or b.get("inconclusive")
    ta, tb = a["trace"], b["trace"]
    # OS error types differ legitimately between a simulated and a real refusal/reset; compare categories
    def cat(t):
        out = []
        for n, x in t:
            if n == "on_error" and x in ("ConnectionRefusedError", "ConnectionResetError", "OSError", "BrokenPipeError",
                                          "WebSocketConnectionClosedException"):
                out.append((n, "transport-or-closed"))
            else:
                out.append((n, x))
        return out
    if cat(ta) != cat(tb) or a["ret"] != b["ret"]:
        return False, f"sim trace {ta} ret {a['ret']!r} != real trace {tb} ret {b['ret']!r}"
    return True, f"{len(ta)} callbacks, ret {a['ret']!r}"
