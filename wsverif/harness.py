"""Scenario helpers shared by the checks."""
from __future__ import annotations

import base64
import hashlib
import os
import sys

from .sim import net, sched, shim

GUID = "258EAFA5-E914-47DA-95CA-C5AB0DC85B11"

_ws = None


def ws():
    """The library under test, imported through the shims from $WSVERIF_REPO."""
    global _ws
    if _ws is None:
        _ws = shim.import_websocket()
        import logging

        logging.getLogger("websocket").setLevel(logging.CRITICAL + 10)
    return _ws


# ---------------------------------------------------------------------------
# Ambient conditions.  Many realistic defects only show under a condition that has nothing to do with the property at hand:
# trace logging on, thread-safety locks off, a TLS transport, writes routed through a dispatcher object, a process that holds
# many descriptors.  All of these are behaviour-neutral for the frame-level properties, so single-threaded batches of cases can
# run under a randomly drawn combination of them (deterministic per seed); the combination in force is added to every witness.


class _Ambient:
    hop_budget = 0
    on = False
    rng = None
    dims = ()
    last = None
    counts = {}


AMB = _Ambient()
_AMB_NULL = None


class ambient:
    """with H.ambient(seed, res): ...   (never around scheduler explorations: trace logging changes the line-level points)"""

    ALL = ("trace", "multithread", "tls", "dispatcher", "high_fd", "warn_error", "thread_hop", "truthy")

    def __init__(self, seed, res=None, dims=ALL):
        import random
        self.seed, self.res, self.dims = seed, res, tuple(dims)
        self.random = random

    def __enter__(self):
        AMB.on = True
        AMB.rng = self.random.Random(("ambient", self.seed).__repr__())
        AMB.dims = self.dims
        AMB.counts = {}
        AMB.last = None
        AMB.hop_budget = 200
        import warnings
        AMB.saved_filters = warnings.filters[:]
        return self

    def __exit__(self, *a):
        AMB.on = False
        AMB.last = None
        net.SimSocket.fd_base = 10
        net.SimSocket.recv_type = bytes
        import warnings
        warnings.filters[:] = AMB.saved_filters
        warnings._filters_mutated()
        try:
            ws().enableTrace(False)
        except Exception:  # noqa
            pass
        if self.res is not None:
            for k, v in AMB.counts.items():
                self.res.count("ambient:" + k, v)
        return False


def _draw_ambient():
    if not AMB.on:
        return None
    r = AMB.rng
    a = {
        "trace": ("trace" in AMB.dims and r.random() < 0.2),
        "multithread": (r.random() < 0.5) if "multithread" in AMB.dims else None,
        "tls": ("tls" in AMB.dims and r.random() < 0.25),
        "dispatcher": ("dispatcher" in AMB.dims and r.random() < 0.25),
        "high_fd": ("high_fd" in AMB.dims and r.random() < 0.15),
        # the application runs with warnings turned into errors (python -W error, a test runner's filterwarnings=error)
        "warn_error": ("warn_error" in AMB.dims and r.random() < 0.2),
        # every API call of the connection is made by another (fresh) thread, one after the other (a thread pool / run_in_executor)
        "thread_hop": ("thread_hop" in AMB.dims and r.random() < 0.04 and AMB.hop_budget > 0),
        # boolean options spelled 1 / 0 instead of True / False
        "truthy": ("truthy" in AMB.dims and r.random() < 0.2),
        # constructor options passed by position (in the published order) instead of by keyword
        "positional": ("truthy" in AMB.dims and r.random() < 0.2),
    }
    AMB.last = a
    if a["thread_hop"]:
        # real threads are slow under the baton scheduler (milliseconds per call): a bounded number of connections per batch
        AMB.hop_budget -= 1
    for k, v in a.items():
        if v:
            AMB.counts[k] = AMB.counts.get(k, 0) + 1
    if a["multithread"] is False:
        AMB.counts["locks_off"] = AMB.counts.get("locks_off", 0) + 1
    AMB.counts["connections"] = AMB.counts.get("connections", 0) + 1
    return a


def _apply_ambient(W, ws_kwargs, manage_trace=True):
    """-> (ws_kwargs, wrap_in_tls)"""
    global _AMB_NULL
    a = _draw_ambient()
    kw = dict(ws_kwargs or {})
    if a is None:
        return kw, False
    if manage_trace and "trace" in AMB.dims:
        if _AMB_NULL is None:
            import logging
            _AMB_NULL = logging.NullHandler()
        W.enableTrace(bool(a["trace"]), handler=_AMB_NULL)
    if a["multithread"] is not None:
        kw.setdefault("enable_multithread", a["multithread"])
    if a["truthy"]:
        for k in ("enable_multithread", "fire_cont_frame", "skip_utf8_validation"):
            if isinstance(kw.get(k), bool):
                kw[k] = int(kw[k])
    if a["dispatcher"] and "dispatcher" not in kw:
        kw["dispatcher"] = W._dispatcher.DispatcherBase(type("App", (), {"keep_running": True})(), 5)
    net.SimSocket.fd_base = 1100 if a["high_fd"] else 10
    if "warn_error" in AMB.dims:
        import warnings
        warnings.filters[:] = AMB.saved_filters
        warnings._filters_mutated()
        if a["warn_error"]:
            warnings.simplefilter("error")
    return kw, bool(a["tls"])


# the constructor's published parameter order (README / docstring of the pinned release)
WS_POSITIONAL = ("get_mask_key", "sockopt", "sslopt", "fire_cont_frame", "enable_multithread", "skip_utf8_validation", "dispatcher")
WS_DEFAULTS = {"get_mask_key": None, "sockopt": None, "sslopt": None, "fire_cont_frame": False, "enable_multithread": True, "skip_utf8_validation": False, "dispatcher": None}


def make_ws(W, ws_kwargs):
    """WebSocket(**ws_kwargs) - or, under the ambient draw "positional", the same options passed by position in the published order."""
    kw = dict(ws_kwargs or {})
    if AMB.on and AMB.last and AMB.last.get("positional") and kw and set(kw) <= set(WS_POSITIONAL):
        last = max(WS_POSITIONAL.index(k) for k in kw)
        args = [kw.get(k, WS_DEFAULTS[k]) for k in WS_POSITIONAL[: last + 1]]
        AMB.counts["positional_constructions"] = AMB.counts.get("positional_constructions", 0) + 1
        return W.WebSocket(*args)
    return W.WebSocket(**kw)


class InjectedInterrupt(KeyboardInterrupt):
    """An interruption of a blocking call that is not an Exception (Ctrl-C, a gevent/eventlet style Timeout, a cancellation), injected
    by a workload into a transport read: the application catches it and calls again."""


def on_another_thread(fn):
    """Run fn() on a fresh thread (an actor of the running simulation) and wait for it; its result or exception is the caller's."""
    S = sched.CURRENT
    if S is None:
        return fn()
    box = {}

    def body():
        try:
            box["r"] = fn()
        except BaseException as e:  # noqa
            if isinstance(e, sched.SimAbort):
                raise
            box["e"] = e
    a = S.spawn(body, name="hop")
    S.block(lambda: a.state == sched.DONE, None, why="join hop")
    if "e" in box:
        raise box["e"]
    return box.get("r")


def accept_for(key: str) -> str:
    return base64.b64encode(hashlib.sha1((key + GUID).encode()).digest()).decode()


def request_key(request: bytes):
    for line in request.split(b"\r\n")[1:]:
        if line.lower().startswith(b"sec-websocket-key:"):
            return line.split(b":", 1)[1].strip().decode("latin-1")
    return None


def response_101(key: str, extra_headers=()) -> bytes:
    lines = [
        "HTTP/1.1 101 Switching Protocols",
        "Upgrade: websocket",
        "Connection: Upgrade",
        f"Sec-WebSocket-Accept: {accept_for(key)}",
    ]
    lines.extend(extra_headers)
    return ("\r\n".join(lines) + "\r\n\r\n").encode("latin-1")


class HandshakePeer:
    """Answers the opening request, then hands every later client byte to
    `on_frame_bytes`.  `after` = bytes delivered right behind the response
    (same segment unless cuts given)."""

    def __init__(self, conn, after=b"", cuts=None, response=None, on_open=None, on_bytes=None, extra_headers=()):
        self.conn = conn
        self.buf = bytearray()
        self.request = None
        self.after = after
        self.cuts = cuts
        self.response = response
        self.on_open = on_open
        self.on_bytes = on_bytes
        self.extra_headers = extra_headers
        self.client_stream = bytearray()  # bytes after the request
        conn.on_client_data = self._data
        conn.hs = self

    def _data(self, conn, data):
        if self.request is None:
            self.buf += data
            i = self.buf.find(b"\r\n\r\n")
            if i < 0:
                return
            self.request = bytes(self.buf[: i + 4])
            rest = bytes(self.buf[i + 4 :])
            key = request_key(self.request)
            resp = self.response(self.request) if callable(self.response) else self.response
            if resp is None:
                resp = response_101(key or "", self.extra_headers)
            self.response_bytes = resp
            conn.deliver(resp + self.after, cuts=self.cuts)
            if self.on_open:
                self.on_open(conn)
            if rest:
                self.client_stream += rest
                if self.on_bytes:
                    self.on_bytes(conn, rest)
        else:
            self.client_stream += data
            if self.on_bytes:
                self.on_bytes(conn, data)


class TunnelPeer:
    """An HTTP proxy on the simulated network: reads the CONNECT head, answers 200 and then lets `inner_factory(conn)` (usually a
    HandshakePeer) serve the tunnelled bytes.  tunnel_offset = index into conn.sent where the tunnelled bytes start."""

    def __init__(self, conn, inner_factory=None, reply=b"HTTP/1.1 200 Connection established\r\n\r\n"):
        self.conn = conn
        self.buf = bytearray()
        self.connect_request = None
        self.inner_factory = inner_factory or (lambda c: HandshakePeer(c))
        self.inner = None
        self.tunnel_offset = None
        self.reply = reply
        conn.on_client_data = self._data
        conn.tunnel = self

    def _data(self, conn, data):
        self.buf += data
        i = self.buf.find(b"\r\n\r\n")
        if i < 0:
            return
        self.connect_request = bytes(self.buf[: i + 4])
        rest = bytes(self.buf[i + 4:])
        self.tunnel_offset = len(conn.sent) - len(rest)
        conn.deliver(self.reply)
        self.inner = self.inner_factory(conn)
        if rest:
            conn.on_client_data(conn, rest)


def connected_ws(after=b"", cuts=None, timeout=None, on_bytes=None, on_open=None, url="ws://sim.test/", ws_kwargs=None, connect_kwargs=None):
    """WebSocket connected over a SimSocket (socket=...).  -> (ws, conn, peer)"""
    W = ws()
    ws_kwargs, amb_tls = _apply_ambient(W, ws_kwargs)
    so, conn = net.pair()
    peer = HandshakePeer(conn, after=after, cuts=cuts, on_bytes=on_bytes, on_open=on_open)
    if amb_tls:
        so = net.SimTLSSocket(so)
    w = make_ws(W, ws_kwargs)
    if timeout is not None:
        so.settimeout(timeout)
        w.sock_opt.timeout = timeout
    w.connect(url, socket=so, **(connect_kwargs or {}))
    return w, conn, peer


def in_sim(fn, *args, strategy=None, horizon=3600.0, watchdog=30.0, batch_horizon=3600.0):
    """Run fn inside a fresh simulation; returns (result, sched).  With
    batch_horizon (default) the virtual horizon is restarted at every new
    connection, so that a batch of independent cases does not add up to a
    spurious 'not terminated'."""
    s = sched.Sched(strategy=strategy, horizon=horizon, watchdog=watchdog)
    s.batch_horizon = batch_horizon
    r = s.run(fn, *args)
    return r, s


def repo_frame_of(exc):
    """Innermost frame of the traceback that lies in the repository:
    (file basename, function name, line)."""
    tb = exc.__traceback__
    last = None
    while tb is not None:
        f = tb.tb_frame.f_code
        if f.co_filename.startswith(shim.PREFIX):
            last = (os.path.basename(f.co_filename), f.co_name, tb.tb_lineno)
        tb = tb.tb_next
    return last


def documented_exception(W, e):
    """C17's notion: the library's hierarchy or the transport's own error."""
    import ssl

    return isinstance(e, (W.WebSocketException, OSError, ssl.SSLError))


# ---------------------------------------------------------------------------
# generic executor for receive scripts (C02-C07, C03)


def classify_exc(W, e):
    if isinstance(e, (W.WebSocketProtocolException, W.WebSocketPayloadException)):
        return "protocol"
    if isinstance(e, W.WebSocketConnectionClosedException):
        return "closed"
    if isinstance(e, W.WebSocketTimeoutException):
        return "timeout"
    if isinstance(e, OSError):
        return "transport"
    return "other:" + type(e).__name__


def shape_value(name, v, per_fragment=False):
    if name in ("recv", "next", "iter"):
        return ("str", v) if isinstance(v, str) else ("bytes", bytes(v))
    if name == "recv_frame":
        return (int(v.fin), int(v.opcode), _b(v.data))
    if name == "recv_data":
        return (int(v[0]), _b(v[1]))
    op, fr = v
    return (int(op), _b(fr.data), int(fr.fin))


def _b(d):
    if isinstance(d, str):
        return d.encode("utf-8")
    return bytes(d)


def run_recv_script(stream, script, segs=None, ending="eof", ws_kwargs=None, timeout=5, head_cuts=None, max_timeouts=50, nonblocking=False, tls=False, half_closed=False, lf_only=False, extra_headers=()):
    """Run `script` (list of (name, control_frame)) against `stream` delivered
    behind the handshake response.  segs: list of bytes/(TIMEOUT,None) items
    for the frame part (default: one segment).  Returns dict with the observed
    trace.  Must run inside a simulation."""
    from .ref import rfc6455 as R

    W = ws()
    ws_kwargs, amb_tls = _apply_ambient(W, ws_kwargs)
    tls = tls or amb_tls
    so, conn = net.pair()
    peer = HandshakePeer(conn, response=(lambda req: response_101(request_key(req) or "", extra_headers).replace(b"\r\n", b"\n")) if lf_only else None,
                         extra_headers=extra_headers)
    if tls:
        # the transport is a TLS socket (one segment = one record; would-block shows as SSLWantReadError)
        so = net.SimTLSSocket(so)
    w = make_ws(W, ws_kwargs)
    so.settimeout(timeout)
    w.sock_opt.timeout = timeout
    state = {}

    def on_open(c):
        # frames behind the response
        pass

    if head_cuts is None:
        # response in one segment, frames per `segs`
        peer.after = b""

        def finish(c):
            if ending == "eof":
                c.peer_close()
            elif ending == "reset":
                c.peer_reset()

        def on_open(c):  # noqa
            if segs is None:
                c.deliver(stream)
                finish(c)
                return
            # ("pause", dt) items split the plan into groups delivered at later virtual times;
            # ("eagain", None) makes the next transport read fail with EAGAIN although the socket has a timeout
            groups, cur, t = [], [], 0.0
            for it in segs:
                if isinstance(it, tuple) and it[0] == "pause":
                    groups.append((t, cur))
                    cur = []
                    t += it[1]
                elif isinstance(it, tuple) and it[0] == "eagain":
                    import errno as _errno
                    cur.append((net.ERROR, BlockingIOError(_errno.EAGAIN, "Resource temporarily unavailable")))
                elif isinstance(it, tuple) and it[0] == "interrupt":
                    cur.append((net.ERROR, InjectedInterrupt()))
                else:
                    cur.append(it)
            groups.append((t, cur))
            S = sched.CURRENT
            state["pending"] = len(groups)

            def deliver(group, last):
                c.deliver_segments(group)
                state["pending"] -= 1
                if last:
                    finish(c)
            for gi, (gt, group) in enumerate(groups):
                if gt == 0.0 or S is None:
                    deliver(group, gi == len(groups) - 1)
                else:
                    S.at(S.now + gt, deliver, group, gi == len(groups) - 1)
        peer.on_open = on_open
    else:
        # the whole server byte stream (response + frames) cut at head_cuts
        peer.after = stream
        peer.cuts = head_cuts

        def on_open(c):  # noqa
            if ending == "eof":
                c.peer_close()
            elif ending == "reset":
                c.peer_reset()
        peer.on_open = on_open
    try:
        w.connect("ws://sim.test/", socket=so)
    except BaseException as e:  # noqa
        if isinstance(e, (sched.SimAbort, KeyboardInterrupt)):
            raise
        # the opening handshake itself failed under this delivery of the stream: reported as the outcome of the first call
        name0, cf0 = script[0]
        return {"trace": [{"call": name0, "cf": cf0, "out": ("exc", "connect:" + classify_exc(W, e), repr(e)[:120], repo_frame_of(e)), "writes": [], "write_rest": 0,
                           "consumed": 0}], "timeouts": 0, "wouldblocks": 0, "post_timeout_bad": [], "conn": conn, "ws": w, "sock": so, "peer": peer,
                "resp_len": len(getattr(peer, "response_bytes", b"") or b"")}
    if half_closed:
        # the client has started the closing handshake itself and goes on receiving what the server still sends
        w.send_close()
    if nonblocking:
        # switch to non-blocking mode after the opening handshake, as an event-loop integration would
        w.settimeout(0)
    resp_len = len(peer.response_bytes)
    trace = []
    timeouts = 0
    wouldblocks = 0
    post_timeout_bad = []
    hop = bool(AMB.on and AMB.last and AMB.last.get("thread_hop"))

    def call(name, cf):
        if name == "recv":
            return w.recv()
        if name == "next":
            return next(w)
        if name == "iter":
            return next(iter(w))
        if name == "recv_data":
            return w.recv_data(cf)
        if name == "recv_data_frame":
            return w.recv_data_frame(cf)
        return w.recv_frame()

    for name, cf in script:
        before_w = len(peer.client_stream)
        tries = 0
        while True:
            try:
                v = on_another_thread(lambda: call(name, cf)) if hop else call(name, cf)
                out = ("ret", shape_value(name, v))
            except BaseException as e:  # noqa
                if isinstance(e, InjectedInterrupt) and tries < max_timeouts:
                    # the interruption this workload injected: the application calls again, like after a timeout
                    timeouts += 1
                    tries += 1
                    if (not w.connected and not half_closed) or so._closed:
                        post_timeout_bad.append((len(trace), w.connected, so._closed))
                    continue
                if isinstance(e, (sched.SimAbort, KeyboardInterrupt)):
                    raise
                k = classify_exc(W, e)
                import ssl as _ssl
                if nonblocking and isinstance(e, (BlockingIOError, _ssl.SSLWantReadError)) and state.get("pending", 0) > 0 and tries < 10 * max_timeouts:
                    # nothing to read right now: come back when the next segment is there
                    wouldblocks += 1
                    tries += 1
                    if (not w.connected and not half_closed) or so._closed:
                        post_timeout_bad.append((len(trace), w.connected, so._closed))
                    sched.CURRENT.sleep(0.5)
                    continue
                if k == "timeout" and (conn.rx or state.get("pending", 0) > 0) and tries < max_timeouts:
                    # an injected timeout: the call is retried
                    timeouts += 1
                    tries += 1
                    if (not w.connected and not half_closed) or so._closed:
                        post_timeout_bad.append((len(trace), w.connected, so._closed))
                    continue
                out = ("exc", k, repr(e)[:120], repo_frame_of(e))
            break
        written = bytes(peer.client_stream[before_w:])
        frames, rest = R.decode_all(written)
        wr = [(f.opcode, f.payload, f.fin, f.masked, f.rsv) for f in frames]
        trace.append({"call": name, "cf": cf, "out": out, "writes": wr, "write_rest": len(written) - rest,
                      "consumed": conn.consumed - resp_len})
        if out[0] == "exc" or (name != "recv_frame" and not w.connected and not half_closed):
            break
    return {"trace": trace, "timeouts": timeouts, "wouldblocks": wouldblocks, "post_timeout_bad": post_timeout_bad, "conn": conn, "ws": w,
            "sock": so, "peer": peer, "resp_len": resp_len}


# Texts that Python's own text machinery treats specially (byte-order mark and the utf-8-sig codec, line separators and
# splitlines/strip, NUL, normalisation and case folding, non-characters, the ends of the planes): valid text all the same,
# to be delivered / sent unchanged.
TRICKY_TEXTS = ["\ufeff", "\ufeffabc", "ab\ufeffc", " lead", "trail ", "\t\n", "line\r\nbreak\n", "\u2028\u2029", "\x85", "e\u0301", "\ufb01",
                "\u212b", "\xdf", "\u0130", "\x00", "\x00mid\x00", "\ufffd", "\ufffe\uffff", "\U0010ffff", "\ud7ff\ue000", "\x7f", "\x1b[0m",
                "\xa0", "\u200b", "%41%00", "\\x00\\n"]


# ---------------------------------------------------------------------------
# simulated network helpers


def make_net(on_conn=None, hosts=None):
    """SimNetwork where every address accepts and runs a HandshakePeer
    (or on_conn(conn) when given)."""
    n = net.SimNetwork()

    def accept(conn):
        if on_conn is not None:
            on_conn(conn)
        else:
            HandshakePeer(conn)

    n.default_outcome = ("accept", accept)
    n.default_ips = ["192.0.2.1"]
    for h, ips in (hosts or {}).items():
        n.add_host(h, ips)
    shim.set_network(n)
    return n


def reset_process_state():
    """Process-wide library state that must not leak between cases."""
    W = ws()
    W._handshake.CookieJar.jar.clear()
    W.setdefaulttimeout(None)
    W.enableTrace(False)
    W.setReconnect(0)


PROXY_ENV = ["http_proxy", "https_proxy", "HTTP_PROXY", "HTTPS_PROXY", "no_proxy", "NO_PROXY", "WEBSOCKET_CLIENT_CA_BUNDLE", "SSLKEYLOGFILE"]


def scrub_env():
    for k in PROXY_ENV:
        os.environ.pop(k, None)


def contracts_workload(res, names):
    """Extra workload: the repository's own tests run with the wsverif
    contracts on the real functions (see wsverif/contracts.py).  Only the
    contracts listed in `names` are attributed to the calling check."""
    from . import contracts, core

    try:
        d = contracts.under_repo_tests(core.REPO, names)
    except Exception as e:  # noqa
        res.notes["contracts_under_repo_tests"] = f"not run: {type(e).__name__}: {e}"
        return
    if not d.get("have"):
        res.notes["contracts_under_repo_tests"] = "icontract not installed (setup_cmd not run?): contract workload skipped"
        return
    for n in names:
        res.count("contract_evals_under_repo_tests:" + n, d["counters"].get(n, 0))
    res.notes["contracts_under_repo_tests"] = {"pytest_exit": d["pytest_exit"], "tail": d["tail"]}
    if d["pytest_exit"] != 0:
        mine = [t for t in d["failed_tests"]]
        broken = [n for n in names if any(("Broken_" in t) for t in mine)]
        # a repository test that fails only with the contracts on: either the contract is too strict or a defect the tests do not assert
        res.violation("contract-broken-under-repo-tests", f"repository tests failed with contracts on: {mine[:4]} {d['tail']}", {"failed": mine}, contracts=list(names))
