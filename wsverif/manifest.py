"""Generates /verif/MANIFEST.json from the check modules (python -m wsverif.manifest)."""
import importlib
import json
import os

from . import core

PY = "/venv/bin/python"
ENVP = "PYTHONHASHSEED=0 PYTHONDONTWRITEBYTECODE=1"

PENDING_REASON = "check not built yet in this round (planned in DESIGN.md section 4); not claimed until its monitor exists"


def build():
    checks, na = [], []
    for pid in core.ALL_IDS:
        try:
            mod = importlib.import_module(f"wsverif.checks.{pid.lower()}")
        except ModuleNotFoundError:
            na.append({"property_id": pid, "reason": PENDING_REASON})
            continue
        meta = mod.META
        checks.append({
            "property_id": pid,
            "quick_cmd": f"{ENVP} {PY} -m wsverif check {pid} --tier quick",
            "thorough_cmd": f"{ENVP} {PY} -m wsverif check {pid} --tier thorough",
            "evidence_file": f"/verif/evidence/{pid}.json",
            "replay_cmd_template": f"{PY} -m wsverif replay {{path}}",
            "engine": "wsverif",
            "level_claimed": {
                "category": meta.get("level", "exploration"),
                "text": meta["claim"],
                "design_ref": f"DESIGN.md section 4, {pid}",
            },
            "level_note": meta["trusted"],
            "technique": meta["technique"],
        })
    man = {
        "version": 1,
        "setup_cmd": "/venv/bin/pip install --no-index --find-links /opt/veriftools/wheels --target /verif/.deps icontract jsonschema >/verif/.setup.log 2>&1 || echo 'optional deps not installed (checks do not depend on them)'",
        "hooks": {
            "guard": "WEBSOCKET_CLIENT_VERIF",
            "enable": "no in-source hooks: instrumentation is done from the harness by caller-routed global shims (wsverif/sim/shim.py) installed before `import websocket`; the guard name is reserved and unused by the source",
            "baseline_off_cmd": "cd /repo && /venv/bin/python -m pytest -ra -q -p no:cacheprovider --timeout=900 --continue-on-collection-errors",
            "source_commits": [],
            "add_only": True,
        },
        "engines": [
            {"name": "wsverif", "path": "/verif/wsverif", "serves_properties": [c["property_id"] for c in checks],
             "kind_free_text": "runtime monitoring: deterministic baton scheduler with virtual time (sim/sched.py), simulated TCP/TLS/resolver/selector with transport log (sim/net.py), caller-routed shims (sim/shim.py), reference models written from the RFCs (ref/), per-property monitors (checks/)"},
        ],
        "checks": checks,
        "not_applicable": na,
        "notes": "Exit codes: 0 held on everything observed, 1 VIOLATION (new, not listed in known_findings.json), 2 INCONCLUSIVE (deciding monitor not reached / watchdog). Checks import the library from /repo's working tree on every run (override: WSVERIF_REPO). Repository fixes made for genuine defects are listed as 'fixed' in /verif/known_findings.json.",
    }
    return man


if __name__ == "__main__":
    m = build()
    with open(os.path.join(core.VERIF, "MANIFEST.json"), "w") as f:
        json.dump(m, f, indent=1)
        f.write("\n")
    print("checks:", [c["property_id"] for c in m["checks"]], "not_applicable:", [n["property_id"] for n in m["not_applicable"]])
