"""Oracles that compare an observed receive trace with the reference model."""
from __future__ import annotations

from .ref import rfc6455 as R
from .ref.client_model import ClientModel


def predict(stream, script, ending="eof", per_fragment=False, validate_utf8=True):
    m = ClientModel(stream, ending=ending, per_fragment=per_fragment, validate_utf8=validate_utf8)
    out = []
    for name, cf in script:
        o, wr = m.call(name, cf)
        out.append({"call": name, "out": o, "writes": wr, "pos": m.pos})
        if o[0] in ("exc", "unjudged"):
            break
        if name != "recv_frame" and m.close_offset is not None:
            break
    return out, m


def compare(pred, obs, per_fragment=False):
    """-> list of (kind, detail, fields).  Empty list = conforming.  Also
    returns number of steps judged via the second element."""
    issues = []
    judged = 0
    trace = obs["trace"]
    for i, p in enumerate(pred):
        if p["out"][0] == "unjudged":
            return issues, judged, p["out"][1]
        if i >= len(trace):
            issues.append(("trace-short", f"step {i} ({p['call']}): model expects {brief(p['out'])} but the client script already stopped",
                           {"step_call": p["call"]}))
            return issues, judged, None
        o = trace[i]
        judged += 1
        po, oo = p["out"], o["out"]
        if po[0] == "exc":
            if oo[0] == "ret":
                issues.append(("illegal-accepted" if po[1] == "protocol" else "missing-exception",
                               f"step {i} {p['call']}: expected {po[1]} exception ({po[2] if len(po) > 2 else ''}), got value {brief(oo)}",
                               {"why": po[2] if len(po) > 2 else po[1], "call": p["call"]}))
            elif oo[1] != po[1]:
                issues.append(("wrong-exception", f"step {i} {p['call']}: expected {po[1]} ({po[2] if len(po) > 2 else ''}), got {oo[1]} {oo[2]}",
                               {"why": po[2] if len(po) > 2 else po[1], "got": oo[1], "expected": po[1], "call": p["call"], "where": oo[3] and oo[3][1]}))
        else:
            if oo[0] == "exc":
                issues.append(("legal-rejected" if oo[1] == "protocol" else "unexpected-exception",
                               f"step {i} {p['call']}: expected value {brief(po)}, got {oo[1]} {oo[2]}",
                               {"got": oo[1], "call": p["call"], "where": oo[3] and oo[3][1]}))
            else:
                pv, ov = po[1], oo[1]
                if per_fragment and p["call"] == "recv_data_frame":
                    same = pv[1] == ov[1] and pv[2] == ov[2] and (pv[0] == R.CONT or pv[0] == ov[0])
                elif per_fragment and p["call"] == "recv_data":
                    same = pv[1] == ov[1] and (pv[0] == R.CONT or pv[0] == ov[0])
                else:
                    same = pv == ov
                if not same:
                    issues.append(("value-mismatch", f"step {i} {p['call']}: expected {brief(po)}, got {brief(oo)}", {"call": p["call"]}))
        # writes made during this call
        exp_w = p["writes"]
        got_w = o["writes"]
        bad = None
        if o["write_rest"]:
            bad = f"{o['write_rest']} bytes written that do not form a whole frame"
        elif len(exp_w) != len(got_w):
            bad = f"expected writes {[w[0] for w in exp_w]}, got opcodes {[g[0] for g in got_w]}"
        else:
            for e, g in zip(exp_w, got_w):
                op, payload, fin, masked, rsv = g
                if not masked or not fin or rsv:
                    bad = f"reply frame malformed: fin={fin} masked={masked} rsv={rsv}"
                elif e[0] == "pong" and (op != R.PONG or payload != e[1]):
                    bad = f"expected pong({e[1][:16].hex()}.. len {len(e[1])}), got opcode {op} payload len {len(payload)}"
                elif e[0] == "close" and (op != R.CLOSE or len(payload) == 1):
                    bad = f"expected close reply, got opcode {op}"
                if bad:
                    break
        if bad and not (po[0] == "exc" and oo[0] == "exc" and False):
            issues.append(("writes-mismatch", f"step {i} {p['call']}: {bad}", {"call": p["call"]}))
        if issues:
            return issues, judged, None
    if len(trace) > len(pred):
        extra = trace[len(pred)]
        issues.append(("trace-long", f"client script continued with {brief(extra['out'])} after the model stopped", {}))
    return issues, judged, None


def brief(o):
    if o[0] == "ret":
        v = o[1]
        def b(x):
            if isinstance(x, (bytes, bytearray)):
                return (x[:12].hex() + (".." if len(x) > 12 else "") + f"/{len(x)}")
            if isinstance(x, tuple):
                return "(" + ",".join(b(y) for y in x) + ")"
            if isinstance(x, str):
                return repr(x[:16]) + (f"/{len(x)}" if len(x) > 16 else "")
            return repr(x)
        return "ret" + b(v)
    return " ".join(str(x) for x in o[:3])


def write_order_monitor(obs, model):
    """C07's ordering clause on the transport log: every pong is written
    after the read that completed its ping and before any further read;
    nothing else is ever written (except the reply to a close frame)."""
    conn = obs["conn"]
    base = obs["resp_len"]
    req_len = len(obs["peer"].request)
    expected_at = {}  # absolute consumed offset -> list of expected frames
    for end, payload in model.ping_offsets:
        expected_at.setdefault(base + end, []).append(("pong", payload))
    if model.close_offset is not None:
        expected_at.setdefault(base + model.close_offset, []).append(("close",))
    marks = sorted(expected_at)
    issues = []
    consumed = 0
    sent_off = 0
    pending_expect = []  # expectations that became due at the last read
    window = bytearray()  # bytes written since the last data-returning read
    checked = 0

    def close_window():
        nonlocal window, pending_expect, checked
        frames, rest = R.decode_all(bytes(window))
        got = [("pong", f.payload) if f.opcode == R.PONG else ("close",) if f.opcode == R.CLOSE else ("other", f.opcode) for f in frames]
        if rest != len(window):
            issues.append(("write-order", f"partial frame written between reads ({len(window) - rest} bytes)", {}))
        elif got != pending_expect:
            issues.append(("write-order", f"between two reads expected writes {[(e[0], len(e[1]) if len(e) > 1 else None) for e in pending_expect]}, "
                                          f"got {[(g[0], len(g[1]) if len(g) > 1 and isinstance(g[1], bytes) else g[1:]) for g in got]}", {}))
        checked += len(pending_expect)
        window = bytearray()
        pending_expect = []

    for ev in conn.log:
        kind = ev[2]
        if kind == "send":
            n = ev[4]
            if isinstance(n, int):
                piece = bytes(conn.sent[sent_off:sent_off + n])
                if sent_off >= req_len:
                    window += piece
                sent_off += n
        elif kind == "recv":
            data = ev[4]
            # a new read begins: everything due must have been written by now
            close_window()
            if isinstance(data, (bytes, bytearray)) and data:
                before = consumed
                consumed += len(data)
                for m in marks:
                    if before < m <= consumed:
                        pending_expect.extend(expected_at[m])
    close_window()
    return issues, checked
