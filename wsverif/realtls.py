"""Real TLS on loopback for the few clauses that need an actual ssl.SSLSocket
(record coalescing with the handshake response; closing a TLS connection)."""
from __future__ import annotations

import os
import shutil
import socket
import ssl
import threading
import time

from . import core
from . import harness as H
from .ref import rfc6455 as R


def minted(tag):
    from .checks import c11
    d = os.path.join(core.OUT_DIR, "tls", f"{os.getpid()}-{tag}")
    shutil.rmtree(d, ignore_errors=True)
    return d, c11.mint(d)


class ScriptedTLSServer(threading.Thread):
    """One connection: TLS handshake, read the upgrade request, then run `script(conn, response_bytes)`."""

    def __init__(self, certkey, script):
        super().__init__(daemon=True)
        self.ctx = ssl.SSLContext(ssl.PROTOCOL_TLS_SERVER)
        self.ctx.load_cert_chain(*certkey)
        self.script = script
        self.lsock = socket.socket()
        self.lsock.setsockopt(socket.SOL_SOCKET, socket.SO_REUSEADDR, 1)
        self.lsock.bind(("127.0.0.1", 0))
        self.lsock.listen(2)
        self.port = self.lsock.getsockname()[1]
        self.client_bytes = bytearray()
        self.error = None

    def run(self):
        try:
            self.lsock.settimeout(10)
            raw, _ = self.lsock.accept()
            raw.settimeout(10)
            conn = self.ctx.wrap_socket(raw, server_side=True)
            buf = b""
            while b"\r\n\r\n" not in buf:
                d = conn.recv(4096)
                if not d:
                    return
                buf += d
            self.script(self, conn, H.response_101(H.request_key(buf) or ""))
        except Exception as e:  # noqa
            self.error = e
        finally:
            try:
                self.lsock.close()
            except OSError:
                pass

    def drain(self, conn, seconds, stay_open=False):
        """collect what the client writes for a while.  stay_open: a peer that never reacts - not even to a TLS
        close_notify or to end of stream - and just keeps the TCP connection open for the whole period"""
        conn.settimeout(0.2)
        t0 = time.monotonic()
        while time.monotonic() - t0 < seconds:
            try:
                d = conn.recv(4096)
            except (socket.timeout, ssl.SSLWantReadError):
                continue
            except (OSError, ssl.SSLError):
                if stay_open:
                    time.sleep(max(0.0, seconds - (time.monotonic() - t0)))
                return
            if not d:
                if stay_open:
                    time.sleep(max(0.0, seconds - (time.monotonic() - t0)))
                return
            self.client_bytes += d
