"""Executable model of what a caller of the receive API must observe for a
given server byte stream (written from RFC 6455 and the statements of
C02-C07; independent of the repository code)."""
from __future__ import annotations

from . import rfc6455 as R


class ClientModel:
    def __init__(self, stream: bytes, ending="eof", per_fragment=False, validate_utf8=True):
        self.buf = bytes(stream)
        self.pos = 0
        self.ending = ending  # "eof" | "silence" | "reset"
        self.per_fragment = per_fragment
        self.seq = R.Sequencer(per_fragment=per_fragment, validate_utf8=validate_utf8)
        self.validate_utf8 = validate_utf8
        self.ping_offsets = []  # (end offset, payload) of every ping answered
        self.close_offset = None

    def _next(self):
        try:
            f = R.decode_one(self.buf, self.pos)
        except R.Incomplete:
            return None
        self.pos = f.end
        return f

    def _end(self):
        return ("exc", {"eof": "closed", "silence": "timeout", "reset": "transport"}[self.ending])

    def _illegal(self, f):
        why = R.frame_illegal_reason(f)
        if why == "close-reason-utf8" and not self.validate_utf8:
            # validation off: reason bytes pass unchecked; the code is still judged
            code = (f.payload[0] << 8) | f.payload[1]
            cls = R.close_code_class(code)
            return None if cls == "accept" else ("close-code" if cls == "reject" else "?close-code-unjudged")
        return why

    def call(self, name, control_frame=False):
        if name in ("next", "iter"):
            name = "recv"  # the iteration protocol is documented as sequential recv() calls
        return self._call(name, control_frame)

    def _call(self, name, control_frame=False):
        """-> (outcome, writes).  outcome = ("ret", value) | ("exc", kind) | ("unjudged", why)
        writes = list of ("pong", payload) | ("close",)"""
        writes = []
        if name == "recv_frame":
            f = self._next()
            if f is None:
                return self._end(), writes
            why = self._illegal(f)
            if why:
                if why.startswith("?"):
                    return ("unjudged", why), writes
                return ("exc", "protocol", why), writes
            return ("ret", (f.fin, f.opcode, f.payload)), writes
        while True:
            f = self._next()
            if f is None:
                return self._end(), writes
            why = self._illegal(f)
            if why:
                if why.startswith("?"):
                    return ("unjudged", why), writes
                return ("exc", "protocol", why), writes
            if f.opcode == R.PING:
                writes.append(("pong", f.payload))
                self.ping_offsets.append((f.end, f.payload))
                if control_frame and name != "recv":
                    return ("ret", self._shape(name, R.PING, f.payload, 1)), writes
                continue
            if f.opcode == R.PONG:
                if control_frame and name != "recv":
                    return ("ret", self._shape(name, R.PONG, f.payload, 1)), writes
                continue
            if f.opcode == R.CLOSE:
                writes.append(("close",))
                self.close_offset = f.end
                if name == "recv":
                    return ("ret", ("str", "")), writes
                return ("ret", self._shape(name, R.CLOSE, f.payload, 1)), writes
            evs = self.seq.feed(f)
            for ev in evs:
                if ev[0] == "error":
                    return ("exc", "protocol", ev[1]), writes
                if ev[0] == "message":
                    _, op, data = ev
                    if name == "recv":
                        if op == R.TEXT:
                            if not self.validate_utf8:
                                try:
                                    return ("ret", ("str", data.decode("utf-8"))), writes
                                except UnicodeDecodeError:
                                    return ("unjudged", "recv() of invalid text with validation off"), writes
                            return ("ret", ("str", data.decode("utf-8"))), writes
                        return ("ret", ("bytes", data)), writes
                    return ("ret", self._shape(name, op, data, 1)), writes
                if ev[0] == "fragment":
                    _, fop, data, fin = ev
                    if name == "recv":
                        if fop == R.TEXT:
                            try:
                                return ("ret", ("str", data.decode("utf-8"))), writes
                            except UnicodeDecodeError:
                                return ("unjudged", "recv() of a text fragment cut inside a code point"), writes
                        if fop == R.BINARY:
                            return ("ret", ("bytes", data)), writes
                        return ("unjudged", "recv() result for a continuation fragment"), writes
                    return ("ret", self._shape(name, fop, data, fin)), writes

    def _shape(self, name, op, data, fin):
        if name == "recv_data":
            return (op, bytes(data))
        return (op, bytes(data), fin)  # recv_data_frame: (opcode, payload, fin of the frame object)
