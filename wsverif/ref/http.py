"""Strict HTTP/1.1 request parser (RFC 7230 message syntax) for C10/C19."""
from __future__ import annotations

import re

TOKEN = re.compile(rb"^[!#$%&'*+\-.^_`|~0-9A-Za-z]+$")


class Malformed(Exception):
    pass


def parse_request(data: bytes):
    """-> (method, target, version, [(name, value)], rest_after_head)
    Raises Malformed with a reason."""
    end = data.find(b"\r\n\r\n")
    if end < 0:
        raise Malformed("no empty line terminating the header section")
    head = data[:end]
    rest = data[end + 4:]
    lines = head.split(b"\r\n")
    for ln in lines:
        if b"\r" in ln or b"\n" in ln:
            raise Malformed(f"bare CR or LF inside a line: {ln[:40]!r}")
        if b"\x00" in ln:
            raise Malformed("NUL in header section")
    parts = lines[0].split(b" ")
    if len(parts) != 3:
        raise Malformed(f"request line does not have three space separated parts: {lines[0][:60]!r}")
    method, target, version = parts
    if not TOKEN.match(method):
        raise Malformed("method is not a token")
    if not target or any(c <= 0x20 or c == 0x7F for c in target):
        raise Malformed("request target empty or contains control/space")
    if version != b"HTTP/1.1":
        raise Malformed(f"version {version!r}")
    headers = []
    for ln in lines[1:]:
        if not ln:
            raise Malformed("empty line inside the header section")
        if ln[:1] in b" \t":
            raise Malformed("obsolete line folding / leading whitespace")
        if b":" not in ln:
            raise Malformed(f"header line without colon: {ln[:60]!r}")
        name, value = ln.split(b":", 1)
        if not TOKEN.match(name):
            raise Malformed(f"header name is not a token: {name[:40]!r}")
        headers.append((name.decode("ascii"), value.strip(b" \t").decode("latin-1")))
    return method.decode(), target.decode("latin-1"), version.decode(), headers, rest


def get_all(headers, name):
    n = name.lower()
    return [v for k, v in headers if k.lower() == n]


def tokens(value):
    return [t.strip().lower() for t in value.split(",") if t.strip()]
