"""Reference RFC 6455 framing model, written from the RFC (section 5), not
from the repository.  Byte-wise, explicit offsets, no struct tricks shared with
the code under test."""
from __future__ import annotations

from . import utf8 as _utf8

CONT, TEXT, BINARY, CLOSE, PING, PONG = 0x0, 0x1, 0x2, 0x8, 0x9, 0xA
DATA_OPS = (CONT, TEXT, BINARY)
CONTROL_OPS = (CLOSE, PING, PONG)
KNOWN_OPS = DATA_OPS + CONTROL_OPS


class Frame:
    __slots__ = ("fin", "rsv", "opcode", "masked", "key", "length", "len_class", "payload", "start", "end", "minimal")

    def __init__(self, **kw):
        for k, v in kw.items():
            setattr(self, k, v)

    def as_tuple(self):
        return (self.fin, self.opcode, bytes(self.payload))

    def __repr__(self):
        return f"Frame(fin={self.fin} rsv={self.rsv} op={self.opcode} masked={self.masked} len={self.length}/{self.len_class} [{self.start}:{self.end}])"


class Incomplete(Exception):
    def __init__(self, need):
        self.need = need


def xor_bytewise(key: bytes, data: bytes) -> bytes:
    out = bytearray(len(data))
    for i in range(len(data)):
        out[i] = data[i] ^ key[i & 3]
    return bytes(out)


def xor_fast(key: bytes, data: bytes) -> bytes:
    """Independent of the repository's big-int trick: uses bytes.translate per
    residue class (4 translations)."""
    n = len(data)
    out = bytearray(n)
    for r in range(4):
        k = key[r]
        table = bytes(b ^ k for b in range(256))
        out[r::4] = data[r::4].translate(table)
    return bytes(out)


def unmask(key, data):
    return xor_bytewise(key, data) if len(data) <= 4096 else xor_fast(key, data)


def decode_one(buf: bytes, pos: int = 0) -> Frame:
    """Decode the frame starting at buf[pos].  Raises Incomplete."""
    n = len(buf)
    if n - pos < 2:
        raise Incomplete(2 - (n - pos))
    b0 = buf[pos]
    b1 = buf[pos + 1]
    fin = 1 if b0 & 0x80 else 0
    rsv = (b0 >> 4) & 0x7
    opcode = b0 & 0x0F
    masked = 1 if b1 & 0x80 else 0
    l7 = b1 & 0x7F
    p = pos + 2
    if l7 <= 125:
        length = l7
        len_class = 7
    elif l7 == 126:
        if n - p < 2:
            raise Incomplete(2 - (n - p))
        length = (buf[p] << 8) | buf[p + 1]
        p += 2
        len_class = 16
    else:
        if n - p < 8:
            raise Incomplete(8 - (n - p))
        length = 0
        for i in range(8):
            length = (length << 8) | buf[p + i]
        p += 8
        len_class = 64
    key = None
    if masked:
        if n - p < 4:
            raise Incomplete(4 - (n - p))
        key = bytes(buf[p : p + 4])
        p += 4
    if n - p < length:
        raise Incomplete(length - (n - p))
    raw = bytes(buf[p : p + length])
    payload = unmask(key, raw) if masked else raw
    minimal = (
        (len_class == 7)
        or (len_class == 16 and length > 125)
        or (len_class == 64 and length > 0xFFFF)
    )
    return Frame(
        fin=fin, rsv=rsv, opcode=opcode, masked=masked, key=key, length=length,
        len_class=len_class, payload=payload, start=pos, end=p + length, minimal=minimal,
    )


def decode_all(buf: bytes):
    """-> (frames, rest_offset).  Stops at the first incomplete frame."""
    frames = []
    pos = 0
    while pos < len(buf):
        try:
            f = decode_one(buf, pos)
        except Incomplete:
            break
        frames.append(f)
        pos = f.end
    return frames, pos


def encode(opcode, payload: bytes, fin=1, rsv=0, key: bytes | None = None, len_class=None) -> bytes:
    """Server (key=None) or client (key=4 bytes) frame.  len_class forces a
    (possibly non-minimal) length encoding."""
    n = len(payload)
    b0 = (0x80 if fin else 0) | ((rsv & 7) << 4) | (opcode & 0x0F)
    if len_class is None:
        len_class = 7 if n <= 125 else (16 if n <= 0xFFFF else 64)
    m = 0x80 if key is not None else 0
    if len_class == 7:
        assert n <= 125
        head = bytes([b0, m | n])
    elif len_class == 16:
        assert n <= 0xFFFF
        head = bytes([b0, m | 126, n >> 8, n & 0xFF])
    else:
        head = bytes([b0, m | 127]) + bytes((n >> (8 * (7 - i))) & 0xFF for i in range(8))
    if key is not None:
        return head + key + unmask(key, payload)
    return head + payload


# ---------------------------------------------------------------------------
# legality (exactly the list in property C05)

# close codes: classes
def close_code_class(code: int) -> str:
    """'accept' | 'reject' | 'unjudged'"""
    if code in (1000, 1001, 1002, 1003, 1007, 1008, 1009, 1010, 1011) or 3000 <= code <= 4999:
        return "accept"
    if code < 1000 or code in (1004, 1005, 1006, 1015) or code >= 5000:
        return "reject"
    return "unjudged"  # 1012-1014, 1016-2999: registry dependent


def frame_illegal_reason(f: Frame):
    """Reason string when the frame *by itself* is forbidden, else None."""
    if f.rsv:
        return "rsv"
    if f.opcode not in KNOWN_OPS:
        return "opcode"
    if f.opcode in CONTROL_OPS:
        if not f.fin:
            return "fragmented-control"
        if f.length > 125:
            return "long-control"
    if f.opcode == CLOSE:
        if f.length == 1:
            return "close-1-byte"
        if f.length >= 2:
            code = (f.payload[0] << 8) | f.payload[1]
            cls = close_code_class(code)
            if cls == "reject":
                return "close-code"
            if not _utf8.is_valid(f.payload[2:]):
                return "close-reason-utf8"
            if cls == "unjudged":
                return "?close-code-unjudged"
    return None


class Sequencer:
    """Message reassembly model.  feed(frame) returns a list of events:
       ("message", opcode, payload)  complete message
       ("fragment", opcode_of_frame, payload, fin)   (per-fragment mode)
       ("ping", payload) / ("pong", payload) / ("close", payload)
       ("error", reason)   - protocol/payload error; model stops afterwards
    """

    def __init__(self, per_fragment=False, validate_utf8=True):
        self.per_fragment = per_fragment
        self.validate_utf8 = validate_utf8
        self.op = None
        self.parts = []
        self.dead = False

    def in_message(self):
        return self.op is not None

    def feed(self, f: Frame):
        if self.dead:
            return []
        why = frame_illegal_reason(f)
        if why and not why.startswith("?"):
            self.dead = True
            return [("error", why)]
        if why == "?close-code-unjudged":
            self.dead = True
            return [("unjudged", why)]
        if f.opcode == PING:
            return [("ping", f.payload)]
        if f.opcode == PONG:
            return [("pong", f.payload)]
        if f.opcode == CLOSE:
            self.dead = True
            return [("close", f.payload)]
        if f.opcode == CONT:
            if self.op is None:
                self.dead = True
                return [("error", "cont-without-message")]
        else:
            if self.op is not None:
                self.dead = True
                return [("error", "data-inside-message")]
            self.op = f.opcode
            self.parts = []
        self.parts.append(f.payload)
        if self.per_fragment:
            ev = ("fragment", f.opcode, f.payload, f.fin)
            if f.fin:
                self.op = None
                self.parts = []
            return [ev]
        if f.fin:
            op, data = self.op, b"".join(self.parts)
            self.op = None
            self.parts = []
            if op == TEXT and self.validate_utf8 and not _utf8.is_valid(data):
                self.dead = True
                return [("error", "text-utf8")]
            return [("message", op, data)]
        return []
