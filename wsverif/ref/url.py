"""Reference URL model for C18/C10, written from RFC 3986 generic syntax
(no urllib)."""
from __future__ import annotations


class Refused(Exception):
    """The URL must be refused with ValueError before any network activity."""


class Unjudged(Exception):
    pass


def parse(url: str):
    """-> (host, port, resource, secure).  host: lower-case, IPv6 without brackets."""
    if ":" not in url:
        raise Refused("no scheme separator")
    scheme, rest = url.split(":", 1)
    if scheme not in ("ws", "wss"):
        if scheme.lower() in ("ws", "wss"):
            raise Unjudged("scheme letter case")
        raise Refused("foreign scheme")
    if not rest.startswith("//"):
        raise Refused("no authority (missing slashes)")
    rest = rest[2:]
    # authority ends at the first "/", "?" or "#"
    end = len(rest)
    for ch in "/?#":
        i = rest.find(ch)
        if i >= 0:
            end = min(end, i)
    authority, tail = rest[:end], rest[end:]
    if "#" in tail:
        raise Unjudged("fragment")
    if "@" in authority:
        authority = authority.rsplit("@", 1)[1]
    port = None
    if authority.startswith("["):
        close = authority.find("]")
        if close < 0:
            raise Unjudged("unterminated IPv6 literal")
        host = authority[1:close]
        after = authority[close + 1:]
        if after.startswith(":"):
            port = after[1:]
        elif after:
            raise Unjudged("garbage after IPv6 literal")
    else:
        if ":" in authority:
            host, port = authority.rsplit(":", 1)
        else:
            host = authority
    if not host:
        raise Refused("no host")
    if port is not None and port != "":
        if not port.isdigit():
            raise Unjudged("non-numeric port")
        pnum = int(port)
        if not (1 <= pnum <= 65535):
            raise Unjudged("port out of range")
    else:
        pnum = None
    secure = scheme == "wss"
    if pnum is None:
        pnum = 443 if secure else 80
    if "?" in tail:
        path, query = tail.split("?", 1)
    else:
        path, query = tail, None
    resource = path if path else "/"
    if query is not None:
        if query == "":
            raise Unjudged("empty query")
        resource += "?" + query
    return host.lower(), pnum, resource, secure
