"""Reference UTF-8 well-formedness, generated from Unicode Table 3-7
(Well-Formed UTF-8 Byte Sequences).  Not derived from the repository's DFA.

States are tuples of the continuation ranges still expected; () = accepting.
"""
from __future__ import annotations

# (lead lo, lead hi, [ (lo,hi) for each continuation byte ])
TABLE_3_7 = [
    (0x00, 0x7F, []),
    (0xC2, 0xDF, [(0x80, 0xBF)]),
    (0xE0, 0xE0, [(0xA0, 0xBF), (0x80, 0xBF)]),
    (0xE1, 0xEC, [(0x80, 0xBF), (0x80, 0xBF)]),
    (0xED, 0xED, [(0x80, 0x9F), (0x80, 0xBF)]),
    (0xEE, 0xEF, [(0x80, 0xBF), (0x80, 0xBF)]),
    (0xF0, 0xF0, [(0x90, 0xBF), (0x80, 0xBF), (0x80, 0xBF)]),
    (0xF1, 0xF3, [(0x80, 0xBF), (0x80, 0xBF), (0x80, 0xBF)]),
    (0xF4, 0xF4, [(0x80, 0x8F), (0x80, 0xBF), (0x80, 0xBF)]),
]

START = ()
REJECT = "reject"

_LEAD = {}
for lo, hi, conts in TABLE_3_7:
    for b in range(lo, hi + 1):
        _LEAD[b] = tuple(conts)


def step(state, byte):
    if state == REJECT:
        return REJECT
    if state == START:
        return _LEAD.get(byte, REJECT)
    lo, hi = state[0]
    if lo <= byte <= hi:
        return state[1:]
    return REJECT


def run(data: bytes, state=START):
    for b in data:
        state = step(state, b)
        if state == REJECT:
            return REJECT
    return state


def is_valid(data: bytes) -> bool:
    return run(bytes(data)) == START


def is_valid_cpython(data: bytes) -> bool:
    try:
        bytes(data).decode("utf-8", "strict")
        return True
    except UnicodeDecodeError:
        return False


def all_states():
    """All reachable reference states (including REJECT)."""
    seen = {START}
    todo = [START]
    while todo:
        s = todo.pop()
        for b in range(256):
            t = step(s, b)
            if t not in seen:
                seen.add(t)
                todo.append(t)
    return seen


def state_cover():
    """state -> one shortest byte string reaching it from START."""
    cover = {START: b""}
    todo = [START]
    while todo:
        nxt = []
        for s in todo:
            for b in range(256):
                t = step(s, b)
                if t not in cover:
                    cover[t] = cover[s] + bytes([b])
                    nxt.append(t)
        todo = nxt
    return cover


def completions(state):
    """One suffix that drives `state` to START (accept), or None for REJECT."""
    if state == REJECT:
        return None
    return bytes(lo for lo, hi in state)


def byte_classes():
    """Partition of 0..255 by behaviour in every reference state; returns the
    list of classes (each a sorted list of bytes)."""
    states = sorted(all_states(), key=repr)
    sig = {}
    for b in range(256):
        k = tuple(repr(step(s, b)) for s in states)
        sig.setdefault(k, []).append(b)
    return sorted(sig.values())
