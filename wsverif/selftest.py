"""Mutation self-test: does each monitor fire on a realistic break?

  python -m wsverif.selftest [--only C01,C06] [--tests] [--tier quick] [--jobs 8]

Each mutant (mutants/mutants.py) is a textual replacement applied to a scratch
copy of $REPO/websocket (under /tmp, removed afterwards).  The property's
check runs with WSVERIF_REPO pointing at the copy and must exit 1 with a
VIOLATION line (a KNOWN-FINDING does not count).  With --tests the repository's
own test-suite is also run on the copy to confirm the mutant passes it.
Also applies /verif/seeded/<id>/patch.diff changes the same way.
"""
from __future__ import annotations

import argparse
import concurrent.futures as cf
import glob
import importlib.util
import json
import os
import shutil
import subprocess
import sys
import tempfile
import time

VERIF = os.path.dirname(os.path.dirname(os.path.abspath(__file__)))
REPO = os.path.realpath(os.environ.get("WSVERIF_REPO", "/repo"))
PY = sys.executable


def load_mutants():
    spec = importlib.util.spec_from_file_location("mutants", os.path.join(VERIF, "mutants", "mutants.py"))
    m = importlib.util.module_from_spec(spec)
    spec.loader.exec_module(m)
    out = list(m.MUTANTS)
    for d in sorted(glob.glob(os.path.join(VERIF, "seeded", "*", "meta.json"))):
        meta = json.load(open(d))
        if meta.get("neutralised"):
            continue  # behaviour-preserving on the current tree (see its meta.json)
        out.append({"id": "seeded/" + os.path.basename(os.path.dirname(d)), "prop": meta["property"],
                    "patch": os.path.join(os.path.dirname(d), "patch.diff"), "note": meta.get("needs", "")})
    return out


def make_copy(mut):
    d = tempfile.mkdtemp(prefix="wsverif-mut-")
    shutil.copytree(os.path.join(REPO, "websocket"), os.path.join(d, "websocket"),
                    ignore=shutil.ignore_patterns("__pycache__"))
    if "patch" in mut:
        r = subprocess.run(["patch", "-p1", "-s", "-d", d, "-i", mut["patch"]], capture_output=True, text=True)
        if r.returncode != 0:
            shutil.rmtree(d, ignore_errors=True)
            raise RuntimeError(f"patch failed: {r.stdout} {r.stderr}")
        return d
    edits = mut.get("edits") or [(mut["file"], mut["old"], mut["new"])]
    for fn, old, new in edits:
        p = os.path.join(d, "websocket", fn)
        s = open(p).read()
        if s.count(old) != 1:
            shutil.rmtree(d, ignore_errors=True)
            raise RuntimeError(f"mutant {mut['id']}: pattern occurs {s.count(old)} times in {fn}")
        open(p, "w").write(s.replace(old, new))
    return d


def run_one(mut, tier, tests):
    t0 = time.time()
    rec = {"id": mut["id"], "prop": mut["prop"], "note": mut.get("note", "")}
    try:
        d = make_copy(mut)
    except Exception as e:  # noqa
        rec["status"] = "stale"
        rec["error"] = str(e)
        return rec
    try:
        env = dict(os.environ)
        env.update({"WSVERIF_REPO": d, "WSVERIF_EVIDENCE_DIR": os.path.join(d, "evidence"), "WSVERIF_OUT_DIR": os.path.join(d, "out"),
                    "PYTHONPATH": VERIF + os.pathsep + d, "PYTHONDONTWRITEBYTECODE": "1", "PYTHONHASHSEED": "0"})
        if tests:
            r = subprocess.run([PY, "-m", "pytest", "-q", "-p", "no:cacheprovider", "--timeout=900", "websocket/tests"], cwd=d,
                               env=env, capture_output=True, text=True, timeout=600)
            rec["tests_pass"] = r.returncode == 0
            rec["tests_tail"] = r.stdout.strip().splitlines()[-1:] if r.stdout else []
        props = mut["prop"] if isinstance(mut["prop"], list) else [mut["prop"]]
        rec["checks"] = {}
        caught = False
        for prop in props:
            r = subprocess.run([PY, "-m", "wsverif", "check", prop, "--tier", tier, "--jobs", "4"], cwd=VERIF, env=env,
                               capture_output=True, text=True, timeout=3000)
            viol = [l for l in r.stdout.splitlines() if l.startswith("VIOLATION")]
            kinds = [l.strip() for l in r.stdout.splitlines() if l.strip().startswith("kind=")]
            rec["checks"][prop] = {"exit": r.returncode, "violations": len(viol), "kinds": kinds[:4],
                                   "stderr_tail": r.stderr.strip().splitlines()[-2:] if r.returncode not in (0, 1) else []}
            if r.returncode == 1 and viol:
                caught = True
        rec["status"] = "caught" if caught else "MISSED"
    finally:
        shutil.rmtree(d, ignore_errors=True)
    rec["wall_s"] = round(time.time() - t0, 1)
    return rec


def main():
    ap = argparse.ArgumentParser()
    ap.add_argument("--only", default="")
    ap.add_argument("--tests", action="store_true")
    ap.add_argument("--tier", default="quick")
    ap.add_argument("--jobs", type=int, default=4)
    a = ap.parse_args()
    muts = load_mutants()
    if a.only:
        keys = a.only.split(",")
        muts = [m for m in muts if any(m["id"].startswith(k) or k in (m["prop"] if isinstance(m["prop"], list) else [m["prop"]]) for k in keys)]
    recs = []
    with cf.ThreadPoolExecutor(a.jobs) as ex:
        for rec in ex.map(lambda m: run_one(m, a.tier, a.tests), muts):
            recs.append(rec)
            print(f"{rec['status']:7s} {rec['id']:40s} {rec.get('wall_s', '')}s  {rec.get('tests_pass', '')} "
                  + "; ".join(f"{p}:exit={c['exit']} {c['kinds'][:1]}" for p, c in rec.get("checks", {}).items()) + (rec.get("error", "")), flush=True)
    summary = {"caught": sum(r["status"] == "caught" for r in recs), "missed": sum(r["status"] == "MISSED" for r in recs),
               "stale": sum(r["status"] == "stale" for r in recs), "tier": a.tier}
    out = os.path.join(VERIF, "evidence", "selftest.json")
    prev = {}
    if a.only and os.path.exists(out):
        prev = {r["id"]: r for r in json.load(open(out)).get("mutants", [])}
    for r in recs:
        prev[r["id"]] = r
    allrecs = sorted(prev.values(), key=lambda r: r["id"]) if a.only else recs
    with open(out, "w") as f:
        json.dump({"summary_last_invocation": summary, "mutants": allrecs}, f, indent=1)
    print(summary)
    return 0 if summary["missed"] == 0 and summary["stale"] == 0 else 1


if __name__ == "__main__":
    sys.exit(main())
