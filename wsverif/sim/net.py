"""Simulated TCP/TLS transport, resolver and selector.

Semantics follow Linux + CPython's socket module:
  * recv on a locally closed socket  -> OSError(EBADF)
  * recv after the peer's FIN        -> b""
  * recv timeout                      -> socket.timeout (TimeoutError)
  * reset                             -> ConnectionResetError
  * close() does NOT wake a blocked reader; shutdown() does (reader sees EOF)
  * selector: a closed fd never fires; registering a closed socket -> ValueError

Each connection keeps a *transport log* at the library/transport boundary; the
monitors read only that log and the values returned by the library's API.
"""
from __future__ import annotations

import collections
import errno
import itertools
import socket as _socket

from . import sched as _sched

DATA, TIMEOUT, EOF, RESET, ERROR = "data", "timeout", "eof", "reset", "error"

_real_timeout = _socket.timeout


class SpinDetected(BaseException):
    """>= SPIN_LIMIT consecutive transport reads that neither consumed a byte
    nor let (virtual) time pass."""


SPIN_LIMIT = 1000


class Conn:
    """One TCP connection as seen from the client side."""

    _ids = itertools.count(1)

    def __init__(self, net=None, peer=None, addr=None):
        self.id = next(Conn._ids)
        self.net = net
        self.peer = peer
        self.addr = addr
        self.rx = collections.deque()  # items: (kind, payload)
        self.log = []  # transport log
        self.sent = bytearray()  # all bytes accepted from the client
        self.sent_pieces = []  # (actor, bytes) in acceptance order
        self.consumed = 0  # bytes handed to the client
        self.delivered = 0  # bytes queued for the client so far
        self.arrivals = []  # (virtual time, end offset) of each delivered chunk
        self.write_plan = None  # iterator of max sizes accepted per send()
        self.client_closed = False
        self.client_shutdown = False
        self.closed_at = None
        self.opened_at = None
        self.on_client_data = None  # fn(conn, bytes)
        self.on_client_close = None
        self.tls = None  # dict when wrapped
        self.send_error = None  # exception to raise on next send
        self.send_delay = 0.0  # virtual seconds every accepted send() takes (a slow / congested transport)
        self.max_recv_req = 0
        self.recv_calls = 0
        self.calls_after_close = []
        self.idle_streak = 0
        self.max_idle_streak = 0
        s = _sched.CURRENT
        if s is not None and s.batch_horizon:
            s.horizon = s.now + s.batch_horizon

    # ---- peer side API (called from scripts / timers) ----
    def deliver(self, data: bytes, cuts=None):
        """Queue bytes for the client.  `cuts` = positions where segment
        boundaries fall (each segment is returned by at most one recv)."""
        if not data:
            return
        pos = 0
        for c in sorted(set(cuts or ())):
            if 0 < c < len(data) and c > pos:
                self.rx.append((DATA, bytes(data[pos:c])))
                pos = c
        self.rx.append((DATA, bytes(data[pos:])))
        self.delivered += len(data)
        now = self._now()
        self.arrivals.append((now, self.delivered))

    def deliver_segments(self, segs):
        for s in segs:
            if isinstance(s, (bytes, bytearray)):
                if s:
                    self.rx.append((DATA, bytes(s)))
                    self.delivered += len(s)
                    self.arrivals.append((self._now(), self.delivered))
            else:
                self.rx.append(s)

    def inject_timeout(self, n=1):
        for _ in range(n):
            self.rx.append((TIMEOUT, None))

    def peer_close(self):
        self.rx.append((EOF, None))

    def peer_reset(self):
        self.rx.append((RESET, None))

    def peer_error(self, exc):
        self.rx.append((ERROR, exc))

    def _now(self):
        s = _sched.CURRENT
        return s.now if s is not None else 0.0

    def readable(self):
        return bool(self.rx)


def _actor_name():
    a = _sched.current_actor()
    return a.name if a is not None else None


class SimSocket:
    """The client's socket object."""

    # descriptor numbers as a kernel hands them out: the lowest free number at or above fd_base (a scenario can raise the base to
    # model a process that already has many descriptors open: select.select() only works below FD_SETSIZE = 1024)
    fd_base = 10
    _fds_in_use = {}  # fd -> weak reference to the socket holding it (a dead or closed holder frees the number)
    is_sim = True

    def _alloc_fd(self):
        import weakref
        cls = SimSocket
        fd = cls.fd_base
        while True:
            ref = cls._fds_in_use.get(fd)
            holder = ref() if ref is not None else None
            if holder is None or holder._closed:
                break
            fd += 1
        cls._fds_in_use[fd] = weakref.ref(self)
        return fd

    def __init__(self, family=_socket.AF_INET, type=_socket.SOCK_STREAM, proto=0, fileno=None, conn=None, net=None):
        self.family = family
        self.type = type
        self.proto = proto
        self._closed = False
        self._fd = self._alloc_fd()
        self._timeout = _socket.getdefaulttimeout()
        self.conn = conn
        self.net = net
        self.opts = []
        self.timeouts_set = []
        self.connect_calls = []
        self.created_by = _actor_name()
        if net is not None:
            net.sockets.append(self)

    # ---- helpers ----
    def _log(self, *ev):
        c = self.conn
        if ev and ev[0] == "recv" and getattr(self, "_tls_pull", False) and isinstance(ev[-1], (bytes, bytearray)) and ev[-1]:
            return
        if c is not None:
            s = _sched.CURRENT
            c.log.append((round(s.now, 9) if s else 0.0, _actor_name()) + ev)

    def _sched(self):
        return _sched.current_sched()

    def _idle(self, c):
        c.idle_streak += 1
        if c.idle_streak > c.max_idle_streak:
            c.max_idle_streak = c.idle_streak
        if c.idle_streak >= SPIN_LIMIT:
            raise SpinDetected(f"{c.idle_streak} consecutive reads at end of stream")

    def attach(self, conn):
        self.conn = conn
        s = _sched.CURRENT
        conn.opened_at = s.now if s else 0.0

    # ---- socket API used by the library ----
    def fileno(self):
        return -1 if self._closed else self._fd

    def settimeout(self, t):
        if self._closed:
            # CPython allows settimeout on a closed socket object? -> it raises EBADF only for fd ops;
            # socket.settimeout on closed socket works silently.
            pass
        self._timeout = t
        self.timeouts_set.append(t)
        self._log("timeout", t)

    def gettimeout(self):
        return self._timeout

    def setblocking(self, flag):
        self.settimeout(None if flag else 0.0)

    def setsockopt(self, *args):
        if self._closed:
            raise OSError(errno.EBADF, "Bad file descriptor")
        if len(args) not in (3, 4) or (len(args) == 4 and args[2] is not None):
            raise TypeError("setsockopt() takes (level, optname, value) or (level, optname, None, optlen)")
        self.opts.append(tuple(args))
        self._log("opt", tuple(args))
        if len(args) == 3 and args[0] == _socket.SOL_SOCKET and args[1] == _socket.SO_RCVTIMEO and isinstance(args[2], (bytes, bytearray)):
            # the kernel's own receive timeout: a blocking recv() (no Python-level timeout) that gets nothing for this long fails
            # with EAGAIN; with a Python-level timeout the descriptor is polled and the option is never in play
            import struct as _struct
            try:
                sec, usec = _struct.unpack("ll", bytes(args[2])[:_struct.calcsize("ll")])
                self.rcvtimeo = sec + usec / 1e6
            except _struct.error:
                pass

    def getsockopt(self, *args):
        return 0

    def connect(self, address):
        if self._closed:
            raise OSError(errno.EBADF, "Bad file descriptor")
        s = self._sched()
        if s is not None:
            s.yield_point("io", "connect")
        if self.net is None:
            raise OSError(errno.ENETUNREACH, "no simulated network")
        self.connect_calls.append(address)
        self.net.connect(self, address)

    # what recv() hands out: bytes (as every stdlib socket does) or, for a scenario with a transport built on recv_into() and a pooled
    # buffer, bytearray
    recv_type = bytes

    def recv(self, bufsize, flags=0):
        out = self._recv_bytes(bufsize, flags)
        if SimSocket.recv_type is bytearray and isinstance(out, bytes):
            return bytearray(out)
        return out

    def _recv_bytes(self, bufsize, flags=0):
        c = self.conn
        if self._closed:
            if c is not None:
                c.calls_after_close.append(("recv", bufsize))
            raise OSError(errno.EBADF, "Bad file descriptor")
        if c is None:
            raise OSError(errno.ENOTCONN, "Transport endpoint is not connected")
        if not isinstance(bufsize, int):
            raise TypeError("an integer is required")
        if bufsize < 0:
            raise ValueError("negative buffersize in recv")
        c.recv_calls += 1
        if bufsize > c.max_recv_req:
            c.max_recv_req = bufsize
        s = self._sched()
        if s is not None:
            s.yield_point("io", "recv")
            if self._closed:
                raise OSError(errno.EBADF, "Bad file descriptor")
        if not c.rx and not c.client_shutdown:
            if self._timeout == 0 or getattr(self, "os_nonblocking", False):
                # os_nonblocking: the descriptor is non-blocking at the OS level although the Python-level timeout is not 0
                # (O_NONBLOCK shared through dup()/fromfd(), an event loop that owns the descriptor)
                self._log("recv", bufsize, "EAGAIN")
                raise BlockingIOError(errno.EAGAIN, "Resource temporarily unavailable")
            if s is None:
                # single threaded use without scheduler: nothing will ever arrive
                if self._timeout is None:
                    raise _sched.Deadlock("recv would block forever (no scheduler)")
                self._log("recv", bufsize, "timeout")
                raise _real_timeout("timed out")
            rcvtimeo = getattr(self, "rcvtimeo", 0) if self._timeout is None else 0
            ok = s.block(lambda: bool(c.rx) or c.client_shutdown, rcvtimeo or self._timeout, why=f"recv({bufsize}) conn{c.id}")
            if not ok and rcvtimeo:
                self._log("recv", bufsize, "EAGAIN (SO_RCVTIMEO)")
                raise BlockingIOError(errno.EAGAIN, "Resource temporarily unavailable")
            if not ok:
                self._log("recv", bufsize, "timeout")
                raise _real_timeout("timed out")
            if self._closed:
                # woken by data, but the fd is gone
                raise OSError(errno.EBADF, "Bad file descriptor")
        if c.client_shutdown and not c.rx:
            self._log("recv", bufsize, b"")
            self._idle(c)
            return b""
        kind, payload = c.rx[0]
        if kind == DATA:
            if bufsize == 0:
                self._log("recv", 0, b"")
                return b""
            if len(payload) <= bufsize:
                c.rx.popleft()
                out = payload if isinstance(payload, bytes) else bytes(payload)
            else:
                # a memoryview keeps the repeated slicing of a multi-megabyte segment linear
                mv = payload if isinstance(payload, memoryview) else memoryview(payload)
                out = bytes(mv[:bufsize])
                c.rx[0] = (DATA, mv[bufsize:])
            c.consumed += len(out)
            c.idle_streak = 0
            self._log("recv", bufsize, out)
            return out
        if kind == TIMEOUT:
            c.rx.popleft()
            self._log("recv", bufsize, "timeout")
            if self._timeout is None:
                # an injected timeout on a socket without timeout cannot happen in
                # reality; treat as spurious wake-up => harness error
                raise RuntimeError("harness: timeout injected on socket without timeout")
            if s is not None:
                s.now += self._timeout if self._timeout else 0.0
            raise _real_timeout("timed out")
        if kind == EOF:
            # EOF is sticky
            self._log("recv", bufsize, b"")
            self._idle(c)
            return b""
        if kind == RESET:
            self._log("recv", bufsize, "reset")
            raise ConnectionResetError(errno.ECONNRESET, "Connection reset by peer")
        if kind == ERROR:
            c.rx.popleft()
            self._log("recv", bufsize, repr(payload))
            raise payload
        raise AssertionError(kind)

    def send(self, data, flags=0):
        c = self.conn
        if self._closed:
            if c is not None:
                c.calls_after_close.append(("send", len(data)))
            raise OSError(errno.EBADF, "Bad file descriptor")
        if c is None:
            raise OSError(errno.ENOTCONN, "Transport endpoint is not connected")
        if isinstance(data, str):
            raise TypeError("a bytes-like object is required, not 'str'")
        s = self._sched()
        if s is not None:
            s.yield_point("io", "send")
            if self._closed:
                raise OSError(errno.EBADF, "Bad file descriptor")
        if c.send_delay and s is not None:
            if self._timeout is not None and 0 < self._timeout < c.send_delay:
                s.sleep(self._timeout)
                self._log("send", len(data), "timeout")
                raise _real_timeout("timed out")
            s.sleep(c.send_delay)
            if self._closed:
                raise OSError(errno.EBADF, "Bad file descriptor")
        if c.send_error is not None:
            e, c.send_error = c.send_error, None
            self._log("send", len(data), repr(e))
            raise e
        if c.client_shutdown:
            self._log("send", len(data), "EPIPE")
            raise BrokenPipeError(errno.EPIPE, "Broken pipe")
        if any(k == RESET for k, _ in c.rx):
            self._log("send", len(data), "reset")
            raise ConnectionResetError(errno.ECONNRESET, "Connection reset by peer")
        n = len(data)
        if c.write_plan is not None and n > 0:
            try:
                lim = next(c.write_plan)
            except StopIteration:
                lim = None
            if lim is not None:
                n = max(1, min(n, lim))
        piece = bytes(data[:n])
        c.sent += piece
        c.sent_pieces.append((_actor_name(), piece))
        self._log("send", len(data), n)
        if c.on_client_data is not None and piece:
            c.on_client_data(c, piece)
        return n

    def sendall(self, data, flags=0):
        while data:
            n = self.send(data)
            data = data[n:]

    # ---- the rest of the socket API a client library may reasonably use (same semantics, built on recv()/send()) ----
    def recv_into(self, buffer, nbytes=0, flags=0):
        mv = memoryview(buffer).cast("B")
        n = nbytes or len(mv)
        data = self.recv(n, flags)
        mv[: len(data)] = data
        return len(data)

    def sendmsg(self, buffers, ancdata=(), flags=0, address=None):
        # one gathering write: the kernel accepts a prefix of the concatenation
        return self.send(b"".join(bytes(b) for b in buffers), flags)

    def recvmsg(self, bufsize, ancbufsize=0, flags=0):
        return self.recv(bufsize, flags), [], 0, None

    _io_refs = 0

    def _decref_socketios(self):
        if self._io_refs > 0:
            self._io_refs -= 1

    def makefile(self, mode="r", buffering=None, *, encoding=None, errors=None, newline=None):
        import io
        if not set(mode) <= {"r", "w", "b"}:
            raise ValueError("invalid mode %r (only r, w, b allowed)" % (mode,))
        writing, reading, binary = "w" in mode, "r" in mode or "w" not in mode, "b" in mode
        rawmode = ("r" if reading else "") + ("w" if writing else "")
        raw = _socket.SocketIO(self, rawmode)
        self._io_refs += 1
        if buffering is None:
            buffering = -1
        if buffering < 0:
            buffering = io.DEFAULT_BUFFER_SIZE
        if buffering == 0:
            if not binary:
                raise ValueError("unbuffered streams must be binary")
            return raw
        if reading and writing:
            buf = io.BufferedRWPair(raw, raw, buffering)
        elif reading:
            buf = io.BufferedReader(raw, buffering)
        else:
            buf = io.BufferedWriter(raw, buffering)
        if binary:
            return buf
        text = io.TextIOWrapper(buf, encoding, errors, newline)
        text.mode = mode
        return text

    def shutdown(self, how):
        c = self.conn
        if self._closed:
            if c is not None:
                c.calls_after_close.append(("shutdown", how))
            raise OSError(errno.EBADF, "Bad file descriptor")
        if c is None:
            raise OSError(errno.ENOTCONN, "Transport endpoint is not connected")
        c.client_shutdown = True
        self._log("shutdown", how)
        s = self._sched()
        if s is not None and not s.aborted:
            s.yield_point("io", "shutdown")

    def close(self):
        if self._closed:
            return
        self._closed = True
        c = self.conn
        if c is not None:
            c.client_closed = True
            s = _sched.CURRENT
            c.closed_at = s.now if s else 0.0
            self._log("close")
            if c.on_client_close is not None:
                c.on_client_close(c)
        s = self._sched()
        if s is not None and not s.aborted:
            s.yield_point("io", "close")

    def detach(self):
        self._closed = True
        return self._fd

    def getpeername(self):
        return self.conn.addr if self.conn else ("0.0.0.0", 0)

    def __enter__(self):
        return self

    def __exit__(self, *a):
        self.close()

    def __repr__(self):
        return f"<SimSocket fd={self._fd} closed={self._closed} conn={self.conn.id if self.conn else None}>"


import ssl as _ssl_mod


class SimTLSSocket(SimSocket, _ssl_mod.SSLSocket):
    """Result of wrapping a SimSocket: one peer segment == one TLS record.
    recv(n) decrypts a whole record; the remainder is pending() and invisible
    to the selector (the situation SSLDispatcher exists for)."""

    # Also a (never initialised) ssl.SSLSocket, so that isinstance(sock, ssl.SSLSocket) - the library's way of recognising a TLS
    # transport - holds; every method the library uses is defined here or in SimSocket, which comes first in the MRO.
    is_tls = True

    def __init__(self, inner: SimSocket, context=None, server_hostname=None, **kw):
        self.__dict__.update(inner.__dict__)
        # socket.socket keeps these two in slots (data descriptors win over the instance dict)
        self._closed = inner._closed
        self._io_refs = 0
        self._inner = inner
        self._plain = b""
        self.context_snapshot = {
            "verify_mode": int(getattr(context, "verify_mode", -1)) if context is not None else None,
            "check_hostname": getattr(context, "check_hostname", None) if context is not None else None,
            "server_hostname": server_hostname,
        }
        if self.conn is not None:
            self.conn.tls = self.context_snapshot
            self._log("tls", dict(self.context_snapshot))
        if self.net is not None:
            self.net.sockets.append(self)

    def pending(self):
        return len(self._plain)

    def recv(self, bufsize, flags=0):
        if self._plain and not self._closed:
            c = self.conn
            c.recv_calls += 1
            c.max_recv_req = max(c.max_recv_req, bufsize)
            s = self._sched()
            if s is not None:
                s.yield_point("io", "recv")
            out, self._plain = self._plain[:bufsize], self._plain[bufsize:]
            self._log("recv", bufsize, out)
            return bytearray(out) if SimSocket.recv_type is bytearray else out
        # pull one whole record
        c = self.conn
        prev_max = c.max_recv_req if c is not None else 0
        self._tls_pull = True  # the log records what the library is handed (plaintext pieces), not the record pulled underneath
        try:
            rec = SimSocket._recv_bytes(self, 1 << 30)
        except BlockingIOError:
            # what a non-blocking ssl.SSLSocket raises when no complete record is there yet
            import ssl as _ssl
            raise _ssl.SSLWantReadError(_ssl.SSL_ERROR_WANT_READ, "The operation did not complete (read)") from None
        finally:
            self._tls_pull = False
            if c is not None:
                c.max_recv_req = max(prev_max, bufsize)
        out, self._plain = rec[:bufsize], rec[bufsize:]
        if rec:
            self._log("recv", bufsize, out)
        return bytearray(out) if SimSocket.recv_type is bytearray else out

    def unwrap(self):
        """TLS shutdown as ssl.SSLSocket.unwrap() does it: send close_notify, then wait (within the socket timeout) for the peer's;
        a peer that is silent or only streams application data never sends one; end of stream ends the wait."""
        c = self.conn
        if self._closed:
            raise OSError(errno.EBADF, "Bad file descriptor")
        self._log("tls-unwrap")
        s = self._sched()
        if c is None or s is None:
            return self._inner
        def peer_gone():
            return c.client_shutdown or any(k in (EOF, RESET) for k, _ in c.rx) or getattr(c, "peer_close_notify", False)
        if not peer_gone():
            if self._timeout == 0:
                import ssl as _ssl
                raise _ssl.SSLWantReadError(_ssl.SSL_ERROR_WANT_READ, "The operation did not complete (read)")
            ok = s.block(peer_gone, self._timeout, why=f"tls unwrap conn{c.id}")
            if not ok:
                raise _real_timeout("The read operation timed out")
        return self._inner

    def close(self):
        SimSocket.close(self)
        self._inner._closed = True


SelectorKey = collections.namedtuple("SelectorKey", ["fileobj", "fd", "events", "data"])

EVENT_READ = 1
EVENT_WRITE = 2


class SimSelector:
    def __init__(self):
        self._keys = {}
        self._closed = False

    def register(self, fileobj, events, data=None):
        fd = fileobj.fileno() if hasattr(fileobj, "fileno") else fileobj
        if not isinstance(fd, int) or fd < 0:
            raise ValueError(f"Invalid file descriptor: {fd}")
        if fd in self._keys:
            raise KeyError(f"{fileobj!r} (FD {fd}) is already registered")
        key = SelectorKey(fileobj, fd, events, data)
        self._keys[fd] = key
        return key

    def unregister(self, fileobj):
        for fd, k in list(self._keys.items()):
            if k.fileobj is fileobj:
                del self._keys[fd]
                return k
        raise KeyError(f"{fileobj!r} is not registered")

    def _ready(self):
        out = []
        for k in self._keys.values():
            so = k.fileobj
            if getattr(so, "_closed", False):
                continue  # epoll drops closed fds silently
            ev = 0
            c = so.conn
            if k.events & EVENT_READ and c is not None and (c.rx or c.client_shutdown):
                ev |= EVENT_READ
            if k.events & EVENT_WRITE and c is not None:
                ev |= EVENT_WRITE
            if ev:
                out.append((k, ev))
        return out

    def select(self, timeout=None):
        s = _sched.current_sched()
        if s is None:
            return self._ready()
        if timeout is not None and timeout <= 0:
            s.yield_point("io", "select0")
            return self._ready()
        s.block(lambda: bool(self._ready()), timeout, why=f"select({timeout})")
        return self._ready()

    def close(self):
        self._keys.clear()
        self._closed = True

    def get_map(self):
        return self._keys

    def __enter__(self):
        return self

    def __exit__(self, *a):
        self.close()


FD_SETSIZE = 1024


def sim_select(rlist, wlist, xlist, timeout=None):
    """select.select() over simulated sockets, with CPython's limits: a descriptor number at or above FD_SETSIZE is a ValueError,
    a closed socket (fileno -1) too."""
    for so in list(rlist) + list(wlist) + list(xlist):
        fd = so.fileno() if hasattr(so, "fileno") else so
        if not isinstance(fd, int) or fd < 0:
            raise ValueError("file descriptor cannot be a negative integer (-1)")
        if fd >= FD_SETSIZE:
            raise ValueError("filedescriptor out of range in select()")
    sel = SimSelector()
    for so in rlist:
        sel.register(so, EVENT_READ)
    for so in wlist:
        if so.fileno() in sel._keys:
            k = sel._keys[so.fileno()]
            sel._keys[so.fileno()] = SelectorKey(k.fileobj, k.fd, k.events | EVENT_WRITE, None)
        else:
            sel.register(so, EVENT_WRITE)
    ready = sel.select(timeout)
    r = [k.fileobj for k, ev in ready if ev & EVENT_READ]
    w = [k.fileobj for k, ev in ready if ev & EVENT_WRITE]
    return r, w, []


class SimNetwork:
    """Resolver + address table.  hosts: name -> list of ip strings.
    addrs: (ip, port) -> outcome, where outcome is
       ("accept", peer_factory) | ("refused",) | ("unreachable",) | ("error", exc) | ("timeout",)
    peer_factory(conn) wires a scripted peer onto the connection."""

    def __init__(self):
        self.hosts = {}
        self.addrs = {}
        self.default_outcome = None  # used when an address is not listed
        self.default_ips = None  # names not listed resolve to these (None: gaierror)
        self.resolver_calls = []
        self.connect_attempts = []  # (time, address, outcome_kind, open_others)
        self.connect_addresses = []  # the socket addresses exactly as handed to connect()
        self.resolved_addresses = []  # the socket addresses exactly as returned by the resolver
        self.sockets = []
        self.conns = []
        self.tls_wraps = []
        self.open_high_water = 0

    def add_host(self, name, ips):
        self.hosts[name.lower()] = list(ips)

    def listen(self, ip, port, outcome):
        self.addrs[(ip, port)] = outcome

    def getaddrinfo(self, host, port, family=0, type=0, proto=0, flags=0):
        self.resolver_calls.append((host, port, family, type, proto))
        s = _sched.current_sched()
        if s is not None:
            s.yield_point("io", "getaddrinfo")
        if host is None:
            raise _socket.gaierror(_socket.EAI_NONAME, "Name or service not known")
        h = host.lower() if isinstance(host, str) else host
        if isinstance(host, str) and not _looks_like_ip(h):
            # the real resolver encodes the name with the idna codec first: an empty or over-long label is a UnicodeError there
            host.encode("idna")
        ips = self.hosts.get(h)
        if ips is None:
            # literal addresses resolve to themselves
            if _looks_like_ip(h):
                ips = [h]
            elif self.default_ips is not None:
                ips = list(self.default_ips)
            else:
                raise _socket.gaierror(_socket.EAI_NONAME, "Name or service not known")
        out = []
        for ip in ips:
            if ":" in ip:
                # link-local addresses carry the interface they belong to as scope id (here: 2 + the last hex digit), flowinfo 0
                scope = (2 + int(ip[-1], 16)) if ip.lower().startswith("fe80:") and ip[-1] in "0123456789abcdefABCDEF" else 0
                out.append((_socket.AF_INET6, _socket.SOCK_STREAM, 6, "", (ip, int(port), 0, scope)))
            else:
                out.append((_socket.AF_INET, _socket.SOCK_STREAM, 6, "", (ip, int(port))))
        self.resolved_addresses.extend(o[4] for o in out)
        return out

    def open_client_conns(self):
        return [c for c in self.conns if not c.client_closed]

    def connect(self, sock, address):
        key = (address[0], address[1])
        self.connect_addresses.append(tuple(address))
        outcome = self.addrs.get(key, self.default_outcome)
        if callable(outcome):
            outcome = outcome(key)
        s = _sched.CURRENT
        now = s.now if s else 0.0
        open_others = len(self.open_client_conns())
        kind = outcome[0] if outcome else "unreachable"
        self.connect_attempts.append((round(now, 9), key, kind, open_others))
        if kind == "accept":
            conn = Conn(self, None, key)
            self.conns.append(conn)
            sock.attach(conn)
            conn.log.append((round(now, 9), _actor_name(), "connect", key))
            self.open_high_water = max(self.open_high_water, len(self.open_client_conns()))
            outcome[1](conn)
            return
        if kind in ("refused", "unreachable") and len(outcome) > 1 and outcome[1] and s is not None:
            # the failure takes a while to come back (a slow ICMP answer, a far-away RST)
            if sock._timeout is not None and sock._timeout < outcome[1]:
                s.sleep(sock._timeout)
                raise _real_timeout("timed out")
            s.sleep(outcome[1])
        if kind == "refused":
            raise ConnectionRefusedError(errno.ECONNREFUSED, "Connection refused")
        if kind == "unreachable":
            # no route to the network (ENETUNREACH, the default) or to the host (EHOSTUNREACH): outcome[2] selects
            if len(outcome) > 2 and outcome[2] == errno.EHOSTUNREACH:
                raise OSError(errno.EHOSTUNREACH, "No route to host")
            raise OSError(errno.ENETUNREACH, "Network is unreachable")
        if kind == "timeout":
            if s is not None and sock._timeout:
                s.sleep(sock._timeout)
            raise _real_timeout("timed out")
        if kind == "error":
            raise outcome[1]
        raise AssertionError(outcome)


def _looks_like_ip(h):
    if ":" in h:
        return True
    parts = h.split(".")
    return len(parts) == 4 and all(p.isdigit() for p in parts)


def pair(peer_setup=None):
    """A connected SimSocket/Conn pair without a network (for socket=... use)."""
    conn = Conn()
    so = SimSocket(conn=conn)
    so.attach(conn)
    if peer_setup:
        peer_setup(conn)
    return so, conn
