"""Deterministic baton scheduler with virtual time.

Every *actor* is a real OS thread, but only the actor holding the baton runs.
All blocking primitives of the simulation funnel into ``Sched.block`` and all
non-blocking scheduling points into ``Sched.yield_point``.  When nobody can run
the virtual clock jumps to the earliest deadline / timer.  Processing time is
zero, so every timing statement is exact and machine-load independent.

Verdict-relevant observations produced here:
  * ``Deadlock``       - nobody runnable, no deadline, no timer
  * ``NotTerminated``  - virtual horizon exceeded
  * ``WatchdogExpired``- wall-clock watchdog (=> inconclusive, never a violation)
"""
from __future__ import annotations

import heapq
import itertools
import random
import sys
import threading
import time as _time
import traceback

_real_time = _time.time
_real_monotonic = _time.monotonic
_RealThread = threading.Thread
_RealSemaphore = threading.Semaphore
_real_get_ident = threading.get_ident

RUNNABLE, BLOCKED, DONE, NEW = "runnable", "blocked", "done", "new"

EPOCH = 1_700_000_000.0


class SimAbort(BaseException):
    """Unwinds actors once a run is aborted (never caught by ``except Exception``)."""


class SimFailure(Exception):
    pass


class Deadlock(SimFailure):
    pass


class NotTerminated(SimFailure):
    pass


class WatchdogExpired(SimFailure):
    pass


_tls = threading.local()
CURRENT: "Sched | None" = None


def current_sched():
    """The active scheduler if the calling thread is one of its actors."""
    s = CURRENT
    if s is not None and getattr(_tls, "actor", None) is not None and _tls.actor.sched is s:
        return s
    return None


def current_actor():
    return getattr(_tls, "actor", None)


class Actor:
    def __init__(self, sched, name, idx, daemon=False):
        self.sched = sched
        self.name = name
        self.idx = idx
        self.daemon = daemon
        self.sem = _RealSemaphore(0)
        self.state = NEW
        self.pred = None
        self.deadline = None
        self.why = None
        self.thread = None
        self.exc = None
        self.exc_tb = None
        self.points = 0  # scheduling points passed while armed

    def __repr__(self):
        return f"<Actor {self.name} {self.state} {self.why or ''}>"


# ----------------------------------------------------------------------------
# strategies


class Strategy:
    """Decides who runs when more than one actor could."""

    def choose(self, sched, me, cands, kind):
        raise NotImplementedError


class NonPreemptive(Strategy):
    """Keep running the current actor; when it blocks pick lowest index."""

    def choose(self, sched, me, cands, kind):
        if me in cands:
            return me
        return cands[0]


class RandomStrategy(Strategy):
    def __init__(self, seed, p_switch=0.5, line_p=None):
        self.rng = random.Random(seed)
        self.p = p_switch
        self.line_p = p_switch if line_p is None else line_p

    def choose(self, sched, me, cands, kind):
        if me in cands:
            p = self.line_p if kind == "line" else self.p
            if len(cands) == 1 or self.rng.random() >= p:
                return me
            others = [c for c in cands if c is not me]
            return self.rng.choice(others)
        return self.rng.choice(cands)


class ReplayStrategy(Strategy):
    """Replays a list of chosen actor indexes, one per *recorded* decision."""

    def __init__(self, decisions):
        self.decisions = list(decisions)
        self.i = 0

    def choose(self, sched, me, cands, kind):
        if len(cands) == 1:
            return cands[0]
        if self.i < len(self.decisions):
            want = self.decisions[self.i]
            self.i += 1
            for c in cands:
                if c.idx == want:
                    return c
        if me in cands:
            return me
        return cands[0]


class OnePreemption(Strategy):
    """Non-preemptive, except: at the k-th armed scheduling point of actor
    ``victim`` switch to actor ``to`` (if it can run)."""

    def __init__(self, victim, k, to=None):
        self.victim = victim
        self.k = k
        self.to = to
        self.fired = False
        self.fired_at = None

    def choose(self, sched, me, cands, kind):
        if (
            not self.fired
            and me is not None
            and me.name == self.victim
            and me in cands
            and me.points == self.k
        ):
            others = [c for c in cands if c is not me and (self.to is None or c.name == self.to)]
            if others:
                self.fired = True
                self.fired_at = (kind, sched.last_point_desc)
                return others[0]
        if me in cands:
            return me
        # prefer the preempting actor to keep running until it blocks
        return cands[0]


class Preemptions(Strategy):
    """Non-preemptive, except at the listed (actor name, k-th armed point) places, where the baton goes to another
    runnable actor (round-robin among the others).  Generalises OnePreemption to several forced switches."""

    def __init__(self, places):
        self.places = {(a, k) for a, k in places}
        self.fired = []

    def choose(self, sched, me, cands, kind):
        if me is not None and me in cands and (me.name, me.points) in self.places:
            others = [c for c in cands if c is not me]
            if others:
                self.places.discard((me.name, me.points))
                self.fired.append((me.name, me.points, kind, sched.last_point_desc))
                return others[len(self.fired) % len(others)]
        if me in cands:
            return me
        return cands[0]

    @property
    def fired_at(self):
        return self.fired


class DFSStrategy(Strategy):
    """Stateless DFS over decision sequences with a preemption bound.

    ``prefix`` is a list of indexes into the candidate list (ordered: current
    actor first, then by idx).  After the prefix is exhausted choice 0 is
    taken.  ``trace`` records (choice, n_options, was_preemption_possible)."""

    def __init__(self, prefix, max_preempt=None):
        self.prefix = list(prefix)
        self.trace = []
        self.max_preempt = max_preempt
        self.preempts = 0

    def choose(self, sched, me, cands, kind):
        if me in cands:
            order = [me] + [c for c in cands if c is not me]
            can_continue = True
        else:
            order = list(cands)
            can_continue = False
        n = len(order)
        if can_continue and self.max_preempt is not None and self.preempts >= self.max_preempt:
            n = 1
        i = len(self.trace)
        c = self.prefix[i] if i < len(self.prefix) else 0
        if c >= n:
            c = 0
        if n > 1:
            self.trace.append((c, n))
        if can_continue and c != 0:
            self.preempts += 1
        return order[c]


def dfs_next_prefix(trace):
    """Given the (choice, n) trace of the last run, return the next prefix in
    DFS order, or None when the tree is exhausted."""
    t = list(trace)
    while t:
        c, n = t[-1]
        if c + 1 < n:
            return [x[0] for x in t[:-1]] + [c + 1]
        t.pop()
    return None


# ----------------------------------------------------------------------------


class Sched:
    def __init__(self, strategy=None, horizon=3600.0, watchdog=30.0, name="sim"):
        self.strategy = strategy or NonPreemptive()
        self.now = 0.0
        self.horizon = horizon
        self.watchdog = watchdog
        self.actors = []
        self.timers = []
        self._tseq = itertools.count()
        self.aborted = None
        self.failure = None
        self.decisions = []  # actor idx chosen at each multi-candidate point
        self.n_points = 0
        self.armed = False
        self.line_points = False
        self.last_point_desc = None
        self.events = []  # free-form observation log (time, actor, what)
        self.trace_points = None  # optional list to record (actor, kind, desc)
        self.stuck_threads = 0
        self.switches = 0
        # batch mode: many independent cases share one simulation; every new connection restarts the horizon
        self.batch_horizon = None
        self._started_wall = None

    # -- time ---------------------------------------------------------------
    def time(self):
        return EPOCH + self.now

    def at(self, t, fn, *args):
        """Run fn(*args) (peer script, not an actor) at virtual time t."""
        heapq.heappush(self.timers, (max(t, self.now), next(self._tseq), fn, args))

    def after(self, dt, fn, *args):
        self.at(self.now + dt, fn, *args)

    def log(self, what, **kw):
        a = current_actor()
        self.events.append((round(self.now, 9), a.name if a else None, what, kw))

    # -- actors -------------------------------------------------------------
    def _new_actor(self, name, daemon=False):
        a = Actor(self, name, len(self.actors), daemon)
        self.actors.append(a)
        return a

    def spawn(self, fn, *args, name=None, daemon=False):
        """Create an actor running fn(*args).  Returns the Actor.  The caller
        keeps the baton (the scheduling point is separate)."""
        a = self._new_actor(name or f"actor{len(self.actors)}", daemon)

        def body():
            _tls.actor = a
            a.sem.acquire()
            try:
                if self.aborted:
                    return
                try:
                    fn(*args)
                except SimAbort:
                    pass
                except BaseException as e:  # noqa
                    a.exc = e
                    a.exc_tb = traceback.format_exc()
            finally:
                a.state = DONE
                if not self.aborted:
                    try:
                        self._reschedule(a, "exit", terminal=True)
                    except SimAbort:
                        pass

        th = _RealThread(target=body, name=f"sim-{a.name}", daemon=True)
        a.thread = th
        a.state = RUNNABLE
        th.start()
        return a

    def run(self, fn, *args):
        """Run fn as the main actor in the calling thread."""
        global CURRENT
        if CURRENT is not None:
            raise RuntimeError("nested simulation")
        main = self._new_actor("main")
        main.state = RUNNABLE
        main.thread = threading.current_thread()
        _tls.actor = main
        CURRENT = self
        self._started_wall = _real_monotonic()
        try:
            try:
                return fn(*args)
            except SimAbort:
                raise self.failure or SimFailure("aborted")
        finally:
            main.state = DONE
            self.leftover = [a for a in self.actors if a.state not in (DONE,) and a is not main]
            self._abort("end of run")
            for a in self.actors:
                if a is not main and a.thread is not None:
                    a.thread.join(2.0)
                    if a.thread.is_alive():
                        self.stuck_threads += 1
            CURRENT = None
            _tls.actor = None

    def _abort(self, reason, failure=None):
        if self.aborted is None:
            self.aborted = reason
            if failure is not None and self.failure is None:
                self.failure = failure
            for a in self.actors:
                a.sem.release()

    # -- core ---------------------------------------------------------------
    def _ready(self, a):
        if a.state == RUNNABLE:
            return True
        if a.state == BLOCKED:
            if a.deadline is not None and a.deadline <= self.now:
                return True
            try:
                return bool(a.pred())
            except SimAbort:
                raise
        return False

    def _fire_due_timers(self):
        while self.timers and self.timers[0][0] <= self.now:
            _, _, fn, args = heapq.heappop(self.timers)
            fn(*args)

    def _reschedule(self, me, kind, terminal=False):
        """`me` holds the baton and is at a scheduling point."""
        while True:
            if self.aborted:
                raise SimAbort()
            self._fire_due_timers()
            cands = [a for a in self.actors if self._ready(a)]
            if cands:
                break
            nxt = None
            for a in self.actors:
                if a.state == BLOCKED and a.deadline is not None:
                    nxt = a.deadline if nxt is None else min(nxt, a.deadline)
            if self.timers:
                nxt = self.timers[0][0] if nxt is None else min(nxt, self.timers[0][0])
            if nxt is None:
                info = [(a.name, a.state, a.why) for a in self.actors if a.state != DONE]
                self._abort("deadlock", Deadlock(f"deadlock at t={self.now}: {info}"))
                raise SimAbort()
            if nxt > self.horizon:
                info = [(a.name, a.state, a.why) for a in self.actors if a.state != DONE]
                self._abort("horizon", NotTerminated(f"virtual horizon {self.horizon} exceeded at t={self.now}: {info}"))
                raise SimAbort()
            self.now = nxt
        if self.watchdog is not None and _real_monotonic() - self._started_wall > self.watchdog:
            self._abort("watchdog", WatchdogExpired(f"wall-clock watchdog {self.watchdog}s"))
            raise SimAbort()
        if len(cands) == 1:
            nxt_actor = cands[0]
        else:
            nxt_actor = self.strategy.choose(self, me if not terminal else None, cands, kind)
            self.decisions.append(nxt_actor.idx)
        if nxt_actor is me:
            return
        self.switches += 1
        nxt_actor.sem.release()
        if terminal:
            return
        if not me.sem.acquire(timeout=(self.watchdog or 60.0) * 2):
            self._abort("watchdog", WatchdogExpired("baton wait"))
            raise SimAbort()
        if self.aborted:
            raise SimAbort()

    def yield_point(self, kind="sync", desc=None):
        """Non-blocking scheduling point of the calling actor."""
        me = current_actor()
        if me is None or me.sched is not self:
            return
        if self.aborted:
            raise SimAbort()
        self.n_points += 1
        if self.armed:
            me.points += 1
        self.last_point_desc = desc
        if self.trace_points is not None and self.armed:
            self.trace_points.append((me.name, kind, desc))
        me.state = RUNNABLE
        self._reschedule(me, kind)

    def block(self, pred, timeout=None, why=None):
        """Park the calling actor until pred() or the (relative) timeout.
        Returns True when pred() held at wake-up, False on timeout."""
        me = current_actor()
        if me is None or me.sched is not self:
            raise RuntimeError("block() outside of an actor")
        if self.aborted:
            raise SimAbort()
        self.n_points += 1
        if self.armed:
            me.points += 1
        self.last_point_desc = why
        if self.trace_points is not None and self.armed:
            self.trace_points.append((me.name, "block", why))
        me.pred = pred
        me.deadline = None if timeout is None else self.now + max(0.0, timeout)
        me.why = why
        me.state = BLOCKED
        try:
            self._reschedule(me, "block")
        finally:
            me.state = RUNNABLE
            me.pred = None
            me.deadline = None
            me.why = None
        return bool(pred())

    def sleep(self, dt):
        self.block(lambda: False, dt, why=f"sleep {dt}")

    # -- line level preemption ------------------------------------------------
    def arm(self, line_points=None):
        self.armed = True
        if line_points is not None:
            self.line_points = line_points

    def disarm(self):
        self.armed = False


# ----------------------------------------------------------------------------
# simulated synchronisation primitives


class SimLock:
    def __init__(self):
        self._owner = None
        self.acquisitions = 0

    def acquire(self, blocking=True, timeout=-1):
        s = current_sched()
        if s is None:
            # used outside a simulation (e.g. after the run): degrade gracefully
            if self._owner is None:
                self._owner = "outside"
                return True
            return False
        s.yield_point("sync", "lock.acquire")
        if self._owner is None:
            self._owner = current_actor()
            self.acquisitions += 1
            return True
        if not blocking:
            return False
        ok = s.block(lambda: self._owner is None, None if timeout is None or timeout < 0 else timeout, why="lock")
        if ok:
            self._owner = current_actor()
            self.acquisitions += 1
        return ok

    def release(self):
        if self._owner is None:
            raise RuntimeError("release unlocked lock")
        self._owner = None
        s = current_sched()
        if s is not None and not s.aborted:
            s.yield_point("sync", "lock.release")

    def locked(self):
        return self._owner is not None

    def __enter__(self):
        self.acquire()
        return True

    def __exit__(self, *a):
        self.release()


class HybridLock(SimLock):
    """What the library gets from threading.Lock(): inside a simulation it is a SimLock (a scheduling point, ownership by actor),
    outside one (import time, real-socket runs with real threads) it is the real lock.  A lock created at import time - a module or
    class attribute - is thus still under the scheduler's control when a simulation uses it later; ownership left over from an
    earlier (aborted) simulation is forgotten."""

    def __init__(self, real_factory):
        SimLock.__init__(self)
        self._real = real_factory()
        self._owner_sched = None

    def acquire(self, blocking=True, timeout=-1):
        s = current_sched()
        if s is None:
            return self._real.acquire(blocking, timeout)
        if self._owner is not None and self._owner_sched is not s:
            self._owner = None
        ok = SimLock.acquire(self, blocking, timeout)
        if ok:
            self._owner_sched = s
        return ok

    def release(self):
        s = current_sched()
        if s is None and self._owner is None:
            return self._real.release()
        return SimLock.release(self)

    def locked(self):
        if current_sched() is None:
            return self._real.locked()
        return self._owner is not None and self._owner_sched is current_sched()


class SimEvent:
    def __init__(self):
        self._flag = False

    def is_set(self):
        return self._flag

    isSet = is_set

    def set(self):
        self._flag = True
        s = current_sched()
        if s is not None and not s.aborted:
            s.yield_point("sync", "event.set")

    def clear(self):
        self._flag = False

    def wait(self, timeout=None):
        s = current_sched()
        if s is None:
            return self._flag
        return s.block(lambda: self._flag, timeout, why=f"event.wait({timeout})")


class SimThread:
    """threading.Thread look-alike whose body runs as an actor."""

    _count = itertools.count(1)

    def __init__(self, group=None, target=None, name=None, args=(), kwargs=None, *, daemon=None):
        self._target = target
        self._args = args
        self._kwargs = kwargs or {}
        self.name = name or f"SimThread-{next(self._count)}"
        self.daemon = bool(daemon)
        self._actor = None
        self._started = False

    def run(self):
        if self._target is not None:
            self._target(*self._args, **self._kwargs)

    def start(self):
        s = current_sched()
        if s is None:
            raise RuntimeError("SimThread.start outside a simulation")
        if self._started:
            raise RuntimeError("threads can only be started once")
        self._started = True
        self._actor = s.spawn(self.run, name=self.name, daemon=self.daemon)
        self._actor.is_lib_thread = True
        s.log("thread.start", thread=self.name)
        s.yield_point("sync", "thread.start")

    def is_alive(self):
        return self._started and self._actor.state != DONE

    def join(self, timeout=None):
        if not self._started:
            raise RuntimeError("cannot join thread before it is started")
        s = current_sched()
        if s is None:
            return
        if current_actor() is self._actor:
            raise RuntimeError("cannot join current thread")
        s.block(lambda: self._actor.state == DONE, timeout, why=f"join({self.name},{timeout})")

    @property
    def ident(self):
        return self._actor.idx if self._actor else None


# ----------------------------------------------------------------------------
# sys.monitoring based line-level scheduling points

_MON_TOOL = 4
_mon_installed = False
_mon_prefix = None


def install_line_monitor(repo_prefix):
    """LINE events of code under repo_prefix become scheduling points of the
    active simulation (when sched.armed and sched.line_points)."""
    global _mon_installed, _mon_prefix
    if _mon_installed:
        return
    mon = sys.monitoring
    _mon_prefix = repo_prefix
    try:
        mon.use_tool_id(_MON_TOOL, "wsverif")
    except ValueError:
        pass

    def on_line(code, line):
        if not code.co_filename.startswith(_mon_prefix):
            return mon.DISABLE
        s = CURRENT
        if s is None or not s.armed or not s.line_points:
            return None
        a = getattr(_tls, "actor", None)
        if a is None or a.sched is not s or s.aborted:
            return None
        s.yield_point("line", (code.co_filename[len(_mon_prefix):], code.co_name, line))
        return None

    mon.register_callback(_MON_TOOL, mon.events.LINE, on_line)
    mon.set_events(_MON_TOOL, mon.events.LINE)
    _mon_installed = True


def uninstall_line_monitor():
    global _mon_installed
    if _mon_installed:
        sys.monitoring.set_events(_MON_TOOL, 0)
        sys.monitoring.register_callback(_MON_TOOL, sys.monitoring.events.LINE, None)
        sys.monitoring.free_tool_id(_MON_TOOL)
        _mon_installed = False
