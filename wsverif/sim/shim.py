"""Caller-routed global shims.

install() must run before ``import websocket``.  A shimmed name behaves like
the real thing unless (a) a simulation is active in the calling thread and
(b) the *calling frame's file* lies under $REPO/websocket/ - then it routes
to the simulator.  Routing by caller file keeps the standard library, pytest
and the harness on real primitives and is independent of the import style the
repository uses (``import time`` vs ``from threading import Lock``).
"""
from __future__ import annotations

import os
import selectors
import socket
import ssl
import sys
import threading
import time

from . import net as _net
from . import sched as _sched

REPO = os.path.realpath(os.environ.get("WSVERIF_REPO", "/repo"))
PREFIX = os.path.join(REPO, "websocket") + os.sep

_installed = False
uses = {}  # shim name -> number of simulated uses
urandom_log = []  # (n, value, caller_file_basename, caller_function)
urandom_force = []  # values the next draws made by repository code return (consumed one per draw of the same size)
wrap_log = []  # real-TLS wrap spy: dicts
real_aliases = {}  # host name -> (ip, canonical name) for workloads on real sockets
NETWORK = None  # the SimNetwork used by socket()/getaddrinfo() routing

_real = {}


def _count(name):
    uses[name] = uses.get(name, 0) + 1


# code that stands in for an optional dependency of the library and opens connections on its behalf (wsverif/standins_socks)
STANDIN_PREFIX = os.path.join(os.path.dirname(os.path.dirname(os.path.abspath(__file__))), "standins_socks") + os.sep


def _in_repo(depth=2):
    try:
        f = sys._getframe(depth)
    except ValueError:
        return False
    fn = f.f_code.co_filename
    return fn.startswith(PREFIX) or fn.startswith(STANDIN_PREFIX)


def _sim(depth=3):
    s = _sched.current_sched()
    if s is None:
        return None
    if not _in_repo(depth):
        return None
    return s


def set_network(n):
    global NETWORK
    NETWORK = n


def reset_counters():
    uses.clear()
    del urandom_log[:]
    del urandom_force[:]
    del wrap_log[:]


def install():
    global _installed
    if _installed:
        return
    if "websocket" in sys.modules:
        raise RuntimeError("shim.install() must run before `import websocket`")
    _installed = True

    # ---- time ----
    _real["time"] = time.time
    _real["sleep"] = time.sleep
    _real["monotonic"] = time.monotonic

    def sim_time():
        s = _sim()
        if s is None:
            return _real["time"]()
        _count("time.time")
        return s.time()

    def sim_monotonic():
        s = _sim()
        if s is None:
            return _real["monotonic"]()
        _count("time.monotonic")
        return s.now

    def sim_sleep(secs):
        s = _sim()
        if s is None:
            return _real["sleep"](secs)
        _count("time.sleep")
        s.log("sleep", secs=secs)
        s.sleep(secs)

    time.time = sim_time
    time.monotonic = sim_monotonic
    time.sleep = sim_sleep

    # ---- threading ----
    _real["Lock"] = threading.Lock
    _real["Event"] = threading.Event
    _real["Thread"] = threading.Thread

    def Lock():
        if _in_repo(2):
            if _sched.current_sched() is not None:
                _count("threading.Lock")
            return _sched.HybridLock(_real["Lock"])
        return _real["Lock"]()

    threading.Lock = Lock

    class _EventMeta(type):
        def __call__(cls, *a, **k):
            if cls is RoutedEvent and _sim() is not None:
                _count("threading.Event")
                return _sched.SimEvent()
            return super().__call__(*a, **k)

        def __instancecheck__(cls, inst):
            return isinstance(inst, (_real["Event"], _sched.SimEvent))

    class RoutedEvent(_real["Event"], metaclass=_EventMeta):
        pass

    threading.Event = RoutedEvent

    class _ThreadMeta(type):
        def __call__(cls, *a, **k):
            if cls is RoutedThread and _sim() is not None:
                _count("threading.Thread")
                return _sched.SimThread(*a, **k)
            return super().__call__(*a, **k)

        def __instancecheck__(cls, inst):
            if cls is RoutedThread:
                return isinstance(inst, (_real["Thread"], _sched.SimThread))
            return type.__instancecheck__(cls, inst)

    class RoutedThread(_real["Thread"], metaclass=_ThreadMeta):
        pass

    RoutedThread.__name__ = "Thread"
    RoutedThread.__qualname__ = "Thread"
    threading.Thread = RoutedThread

    # what the library sees of the process's threads: the main thread, its own threads, and application threads that were started
    # through the threading module - not threads started behind its back (_thread.start_new_thread, C extensions, embedding hosts),
    # which a scenario marks with actor.foreign = True
    _real["active_count"] = threading.active_count
    _real["enumerate"] = threading.enumerate

    def _visible_actors(s):
        return [a for a in s.actors if a.state != _sched.DONE and not getattr(a, "foreign", False)]

    def active_count():
        s = _sim()
        if s is not None:
            _count("threading.active_count")
            return max(1, len(_visible_actors(s)))
        return _real["active_count"]()

    def enumerate_():
        s = _sim()
        if s is not None:
            _count("threading.enumerate")
            return [a.thread for a in _visible_actors(s) if getattr(a, "thread", None) is not None] or [threading.main_thread()]
        return _real["enumerate"]()

    threading.active_count = active_count
    threading.enumerate = enumerate_

    # ---- selectors ----
    _real["DefaultSelector"] = selectors.DefaultSelector

    def DefaultSelector(*a, **k):
        if _sim() is not None:
            _count("selectors.DefaultSelector")
            return _net.SimSelector()
        return _real["DefaultSelector"](*a, **k)

    selectors.DefaultSelector = DefaultSelector

    # ---- select.select ----
    import select as _select_mod
    _real["select"] = _select_mod.select

    def routed_select(rlist, wlist, xlist, timeout=None):
        if _sim() is not None and any(getattr(x, "is_sim", False) for x in list(rlist) + list(wlist) + list(xlist)):
            _count("select.select")
            return _net.sim_select(rlist, wlist, xlist, timeout)
        return _real["select"](rlist, wlist, xlist, timeout) if timeout is not None else _real["select"](rlist, wlist, xlist)

    _select_mod.select = routed_select

    # ---- socket ----
    _real["socket"] = socket.socket
    _real["getaddrinfo"] = socket.getaddrinfo

    class _SocketMeta(type):
        def __call__(cls, *a, **k):
            if cls is RoutedSocket and _sim() is not None:
                _count("socket.socket")
                return _net.SimSocket(*a, net=NETWORK, **k)
            return super().__call__(*a, **k)

        def __instancecheck__(cls, inst):
            if cls is RoutedSocket:
                return isinstance(inst, (_real["socket"], _net.SimSocket))
            return type.__instancecheck__(cls, inst)

    class RoutedSocket(_real["socket"], metaclass=_SocketMeta):
        __slots__ = ()

    RoutedSocket.__name__ = "socket"
    RoutedSocket.__qualname__ = "socket"
    socket.socket = RoutedSocket

    def getaddrinfo(*a, **k):
        if _sim() is not None and NETWORK is not None:
            _count("socket.getaddrinfo")
            return NETWORK.getaddrinfo(*a, **k)
        host = a[0] if a else k.get("host")
        if isinstance(host, str) and host.lower() in real_aliases:
            # a name of the real-socket workloads that the resolver knows as an alias (a CNAME, a hosts-file alias): it resolves to
            # `ip`; the canonical name is reported only when asked for (AI_CANONNAME), as the C library does
            ip, canon = real_aliases[host.lower()]
            flags = a[5] if len(a) > 5 else k.get("flags", 0)
            a2 = (ip,) + tuple(a[1:5])
            k2 = {kk: vv for kk, vv in k.items() if kk not in ("host", "flags")}
            out = _real["getaddrinfo"](*a2, **k2)
            if flags & socket.AI_CANONNAME:
                out = [(f, t, p, canon if i == 0 else "", ad) for i, (f, t, p, _c, ad) in enumerate(out)]
            return out
        return _real["getaddrinfo"](*a, **k)

    socket.getaddrinfo = getaddrinfo

    # ---- ssl wrap ----
    _real["wrap_socket"] = ssl.SSLContext.wrap_socket

    def wrap_socket(self, sock, *a, **k):
        if isinstance(sock, _net.SimSocket):
            _count("ssl.wrap_socket")
            err = getattr(sock.conn, "tls_error", None) if sock.conn is not None else None
            if err is not None:
                raise err
            sh = k.get("server_hostname")
            if isinstance(sh, str):
                # as ssl.SSLContext._encode_hostname does: the idna codec refuses empty and over-long labels (UnicodeError)
                if sh == "" or sh.startswith("."):
                    raise ValueError("server_hostname cannot be an empty string or start with a leading dot.")
                sh.encode("idna")
            t = _net.SimTLSSocket(sock, context=self, server_hostname=k.get("server_hostname"))
            if NETWORK is not None:
                NETWORK.tls_wraps.append(t.context_snapshot)
            return t
        rec = {
            "verify_mode": int(self.verify_mode),
            "check_hostname": bool(self.check_hostname),
            "server_hostname": k.get("server_hostname"),
            "in_repo": _in_repo(2),
        }
        try:
            # cipher suites without authentication (ADH/AECDH...): with one of them the server presents no certificate at all
            rec["anon_ciphers"] = sorted(c["name"] for c in self.get_ciphers() if c.get("auth") == "auth-null")
        except Exception:  # noqa
            rec["anon_ciphers"] = None
        wrap_log.append(rec)
        return _real["wrap_socket"](self, sock, *a, **k)

    ssl.SSLContext.wrap_socket = wrap_socket

    # ---- os.urandom spy (never rerouted) ----
    _real["urandom"] = os.urandom

    def urandom(n):
        v = _real["urandom"](n)
        try:
            f = sys._getframe(1)
            if f.f_code.co_filename.startswith(PREFIX):
                if urandom_force:
                    # a workload asked for a particular (legal, merely improbable) outcome of the next draw, e.g. four zero bytes
                    fv = urandom_force.pop(0)
                    if len(fv) == n:
                        v = fv
                urandom_log.append((n, v, os.path.basename(f.f_code.co_filename), f.f_code.co_name))
        except ValueError:
            pass
        return v

    os.urandom = urandom


def import_websocket():
    """Import the library from $REPO (never from site-packages' egg-link)."""
    install()
    if REPO not in sys.path:
        sys.path.insert(0, REPO)
    if os.environ.get("WSVERIF_NO_SSL") == "1" and "websocket" not in sys.modules:
        # an interpreter built without the ssl module (the library supports that for ws://): `import ssl` fails while the library is
        # being imported - and only then; the harness keeps its own reference
        real = sys.modules.get("ssl")
        sys.modules["ssl"] = None
        try:
            import websocket  # noqa
        finally:
            sys.modules["ssl"] = real
    import websocket  # noqa

    f = os.path.realpath(websocket.__file__)
    if not f.startswith(PREFIX):
        raise RuntimeError(f"websocket imported from {f}, expected under {PREFIX}")
    return websocket
