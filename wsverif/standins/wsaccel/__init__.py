"""Stand-in for the optional `wsaccel` extension (not installed in this sandbox), used by one shard of C06 only, so that the library's
`try: from wsaccel.utf8validator import Utf8Validator` branch is executed at all.  It follows the documented contract of
wsaccel / autobahn's Utf8Validator: an *incremental* validator - validate() continues from the state the previous call ended in
until reset() - returning (valid so far?, ends on a code point boundary?, index in this call, total index).  What is trusted: that
this contract is the real one (it is the one documented by autobahn, from which wsaccel's C implementation was derived)."""
