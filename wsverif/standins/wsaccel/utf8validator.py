"""see package docstring.  The validation itself is CPython's strict incremental UTF-8 decoder (Unicode-conformant: no overlong forms,
no surrogates, nothing above U+10FFFF); what this class adds is wsaccel's calling convention."""
import codecs


class Utf8Validator:
    def __init__(self):
        self.reset()

    def reset(self):
        self._dec = codecs.getincrementaldecoder("utf-8")("strict")
        self._failed = False
        self.i = 0

    def validate(self, ba):
        """-> (valid so far?, ends on a code point boundary?, index reached in this call, total index)"""
        if isinstance(ba, str):
            ba = ba.encode("utf-8", "surrogatepass")
        ba = bytes(ba)
        if self._failed:
            return False, False, 0, self.i
        try:
            self._dec.decode(ba, False)
        except UnicodeDecodeError as e:
            self._failed = True
            self.i += e.start
            return False, False, e.start, self.i
        self.i += len(ba)
        return True, self._dec.getstate()[0] == b"", len(ba), self.i
