"""Stand-in for the optional `python_socks` package (absent from this sandbox), so that the library's SOCKS branch
(`_http._start_proxied_socket`) is executed at all.  Only what websocket-client uses exists: ProxyType, the error classes and
sync.Proxy.create(...).connect(host, port, timeout=...).

What is trusted about the real package is its calling convention only: create() takes the proxy's type, address, credentials and the
rdns flag; connect() opens a TCP connection to the proxy, negotiates, and returns the connected socket.  The negotiation itself is
replaced by one text line ("SOCKS <type> <rdns> <user> <password> <host> <port>\\n") that the simulated proxy peer of the harness
consumes and records.  Nothing is judged that depends on python_socks' internals (timeouts kept on the returned socket, error texts)."""
from ._errors import ProxyConnectionError, ProxyError, ProxyTimeoutError  # noqa
from ._types import ProxyType  # noqa

CALLS = []  # (what, details) - read by the checks
