class ProxyError(Exception):
    def __init__(self, message, error_code=None):
        super().__init__(message)
        self.error_code = error_code


class ProxyTimeoutError(TimeoutError):
    pass


class ProxyConnectionError(OSError):
    pass


__all__ = ["ProxyError", "ProxyTimeoutError", "ProxyConnectionError"]
