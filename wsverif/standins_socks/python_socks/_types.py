import enum


class ProxyType(enum.Enum):
    SOCKS4 = 1
    SOCKS5 = 2
    HTTP = 3
