import socket

from .. import CALLS
from .._errors import ProxyConnectionError, ProxyError, ProxyTimeoutError
from .._types import ProxyType

DEFAULT_TIMEOUT = 60


class Proxy:
    def __init__(self, proxy_type, host, port, username=None, password=None, rdns=None):
        self.proxy_type, self.host, self.port, self.username, self.password, self.rdns = proxy_type, host, port, username, password, rdns

    @classmethod
    def create(cls, proxy_type, host, port, username=None, password=None, rdns=None, **kwargs):
        if not isinstance(proxy_type, ProxyType):
            raise ValueError(f"Invalid proxy type: {proxy_type!r}")
        CALLS.append(("create", dict(proxy_type=proxy_type.name, host=host, port=port, username=username, password=password, rdns=rdns, extra=sorted(kwargs))))
        return cls(proxy_type, host, port, username, password, rdns)

    def connect(self, dest_host, dest_port, dest_ssl=None, timeout=None, **kwargs):
        CALLS.append(("connect", dict(dest_host=dest_host, dest_port=dest_port, timeout=timeout, extra=sorted(kwargs))))
        if timeout is None:
            timeout = DEFAULT_TIMEOUT
        sock = None
        try:
            # (socket.getaddrinfo / socket.socket called from this file directly: the harness routes calls made from here - like those
            # made from the library itself - to the simulated network)
            err = None
            for af, st, pr, _cn, sa in socket.getaddrinfo(self.host, self.port, 0, socket.SOCK_STREAM):
                sock = socket.socket(af, st, pr)
                sock.settimeout(timeout)
                try:
                    sock.connect(sa)
                    err = None
                    break
                except OSError as e:
                    err = e
                    sock.close()
                    sock = None
            if err is not None:
                raise err
            if sock is None:
                raise OSError("getaddrinfo returns an empty list")
        except socket.timeout as e:
            raise ProxyTimeoutError(f"Proxy connection timed out: {timeout}") from e
        except OSError as e:
            raise ProxyConnectionError(e.errno, f"Couldn't connect to proxy {self.host}:{self.port} [{e.strerror}]") from e
        line = f"SOCKS {self.proxy_type.name} {int(bool(self.rdns))} {self.username!r} {self.password!r} {dest_host} {dest_port}\n"
        try:
            sock.sendall(line.encode("utf-8"))
            reply = b""
            while not reply.endswith(b"\n"):
                d = sock.recv(1)
                if not d:
                    raise ProxyError("Connection closed unexpectedly")
                reply += d
        except socket.timeout as e:
            sock.close()
            raise ProxyTimeoutError(f"Proxy connection timed out: {timeout}") from e
        if reply != b"OK\n":
            sock.close()
            raise ProxyError(reply.decode("latin-1").strip() or "General SOCKS server failure", 1)
        return sock


__all__ = ["Proxy"]
